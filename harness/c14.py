"""C14 — copies, conversions and rebuilds denote the same matrix with the right dtype.

theorems : coq/C14/Property.v over coq/C14/Model.v (LinearOperator.__init__ kwargs capture, representation(),
           LinearOperatorRepresentationTree.__init__/__call__, clone/detach/cpu/to/type incl. the to()/type() overrides,
           _to_helper, the dtype property; constructor binding against the GENERATED signature table gen/Ctors.v)
tie      : translator harness/c14_ctors.py  (constructor chains of the package -> gen/Ctors.v, every run)
           translator harness/c14_alloc.py  (every tensor-allocation call of the package -> gen/AllocSites.v, every run)
           correspondence: the real classes are abstracted (alpha: storages, values, dtypes, requires_grad, class tree,
           kwargs, flag attributes) before and after each query, the model is run inside Coq on the abstraction of the
           input and must return the abstraction of the output (coq/C14/Check.v)
search   : the property's predicates evaluated directly on the implementation for every case (structure and flags,
           dense value against the dense oracle, dtype of the result and of every tensor it returns, leaf dtypes,
           storage disjointness of clones, requires_grad), shrinking to the smallest failing sub-operator.
"""
import itertools
import json
import os
import random
import re
import sys
import time
import traceback
import warnings

import torch

from . import common, opbuild as ob, c14_names, c14_ctors, c14_seq as sq

PROP = "C14"
SH = 350
PY2CQ = dict(c14_ctors.CLASSES)
DTN = {torch.float32: "F32", torch.float64: "F64", torch.int64: "I64", torch.bool: "B8"}
NDT = {"F32": torch.float32, "F64": torch.float64}
HDR = ("From Coq Require Import List ZArith Bool.\nImport ListNotations.\n"
       "Require Import C14.Types C14.gen.Ctors C14.Model C14.Check.\n")


class Unabstractable(Exception):
    pass


class HistoryStepFailed(Exception):
    """a conversion that is part of an operator's construction history (the `then` steps of a generic-form node) raised:
    that conversion is itself a query of the property - the case is re-run as that query on the node"""

    def __init__(self, node, step, ex):
        Exception.__init__(self, "%s: %s" % (type(ex).__name__, ex))
        self.node, self.step = node, step


# ------------------------------------------------------------------------------------------ regenerate

def regenerate():
    gen = os.path.join(common.COQ, PROP, "gen")
    os.makedirs(gen, exist_ok=True)
    code, meta = c14_ctors.translate()
    p = os.path.join(gen, "Ctors.v")
    if not os.path.exists(p) or open(p).read() != code:
        open(p, "w").write(code)
    # the keyword-name constants of Types.v must be the order embedding computed by c14_names
    src = open(os.path.join(common.COQ, PROP, "Types.v")).read()
    for name, z in re.findall(r"Definition k_(\w+) : Z := (\d+)%Z\.", src):
        if c14_names.enc(name) != int(z):
            raise c14_ctors.Untranslatable("Types.v: k_%s is not enc(%r)" % (name, name))
    ocode, opairs = c14_ctors.translate_overrides()
    scode, srows = c14_ctors.translate_shapes()
    ocode += scode
    meta["method_shapes"] = srows
    p = os.path.join(gen, "Overrides.v")
    if not os.path.exists(p) or open(p).read() != ocode:
        open(p, "w").write(ocode)
    meta["overrides"] = opairs
    from . import c14_alloc
    acode, ameta = c14_alloc.translate(common.REPO)
    p = os.path.join(gen, "AllocSites.v")
    if not os.path.exists(p) or open(p).read() != acode:
        open(p, "w").write(acode)
    meta["alloc"] = ameta
    json.dump(meta, open(os.path.join(gen, "c14_meta.json"), "w"), indent=1, default=str)
    return meta


# ------------------------------------------------------------------------------------------ abstraction alpha

CONST_ATTRS = {"CKronDiag": [("upper", "upper")]}


class Abs:
    """abstraction context of one case: numbering of storages / values / opaque objects"""

    def __init__(self, meta):
        self.meta = meta
        self.stor, self.vals, self.opq, self.keep = {}, {}, [], []

    def tensor(self, t):
        if t.dtype not in DTN:
            raise Unabstractable("dtype %s" % t.dtype)
        if t.is_sparse or t.numel() == 0:
            raise Unabstractable("sparse/empty tensor")
        self.keep.append(t)
        i = self.stor.setdefault(t.untyped_storage().data_ptr(), len(self.stor))
        vk = (tuple(t.shape), tuple(t.detach().double().reshape(-1).tolist()))
        v = self.vals.setdefault(vk, len(self.vals))
        return ("T", i, v, DTN[t.dtype], bool(t.requires_grad))

    def value(self, v):
        if v is None:
            return "VNone"
        if isinstance(v, bool):
            return "(VBool %s)" % ("true" if v else "false")
        if isinstance(v, int):
            return "(VInt %s)" % common.zlit(v)
        if isinstance(v, (torch.Size, tuple, list)) and all(isinstance(x, int) and not isinstance(x, bool) for x in v):
            return "(VSize %s)" % common.zlist(v)
        if isinstance(v, torch.dtype):
            if v not in DTN:
                raise Unabstractable("dtype value %s" % v)
            return "(VDtype %s)" % DTN[v]
        if isinstance(v, torch.device):
            if v.type != "cpu":
                raise Unabstractable("device %s" % v)
            return "(VDev 0)"
        for k, w in enumerate(self.opq):
            try:
                same = (w is v) or bool(w == v)
            except Exception:
                same = False
            if same:
                return "(VOpq %d)" % k
        self.opq.append(v)
        return "(VOpq %d)" % (len(self.opq) - 1)

    def arg(self, a):
        from linear_operator.operators import LinearOperator
        if torch.is_tensor(a):
            return self.tensor(a)
        if isinstance(a, LinearOperator):
            return self.op(a)
        return ("V", self.value(a))

    def op(self, o):
        name = type(o).__name__
        cq = "(CUser 0)" if name == "UserMinimal" else PY2CQ.get(name)
        if cq is None:
            raise Unabstractable("class %s" % name)
        ch = [self.arg(a) for a in itertools.chain(o._args, o._differentiable_kwargs.values())]
        dn = list(o._differentiable_kwargs.keys())
        nd = [(k, self.value(v)) for k, v in o._nondifferentiable_kwargs.items()]
        at = []
        for k, attr in CONST_ATTRS.get(cq, []):
            at.append((k, self.value(getattr(o, attr))))
        spec = self.meta["specs"].get(cq)
        if spec:
            for pname, _, kind in spec["named"]:
                if kind == "PAttr":
                    val = getattr(o, pname) if hasattr(o, pname) else getattr(o, "_" + pname)
                    at.append((pname, self.value(val)))
        return ("Op", cq, ch, dn, nd, at)


def klit(k):
    return "k_%s" % k if k in c14_names.KNOWN else "%d%%Z" % c14_names.enc(k)


def lit(a):
    if a[0] == "T":
        return "(ATensor (T %d %d %s %s))" % (a[1], a[2], a[3], "true" if a[4] else "false")
    if a[0] == "V":
        return "(AOther %s)" % a[1]
    _, cq, ch, dn, nd, at = a
    return "(AOp %s [%s] [%s] [%s] [%s])" % (
        cq, "; ".join(lit(x) for x in ch), "; ".join(klit(k) for k in dn),
        "; ".join("(%s, %s)" % (klit(k), v) for k, v in nd),
        "; ".join("(%s, %s)" % (klit(k), v) for k, v in at))


def tlit(t):
    return "(T %d %d %s %s)" % (t[1], t[2], t[3], "true" if t[4] else "false")


def erase(a, ident_dtype=None):
    """structure + flags + leaf VALUE identities (storage ids, dtypes, requires_grad forgotten)"""
    if a[0] == "T":
        return ("T", a[2], a[3] in ("F32", "F64"))
    if a[0] == "V":
        return a
    _, cq, ch, dn, nd, at = a
    # the dtype / device bookkeeping entries (Identity, Cat; Zero once it forwards them) legitimately change
    nd2 = [(k, v) for k, v in nd if k not in ("dtype", "device", "output_device")]
    at2 = [(k, v) for k, v in at if not (k in ("dtype", "device"))]
    return ("Op", cq, tuple(erase(x) for x in ch), tuple(dn), tuple(nd2), tuple(at2))


def leaves(a, out=None):
    out = [] if out is None else out
    if a[0] == "T":
        out.append(a)
    elif a[0] == "Op":
        for x in a[2]:
            leaves(x, out)
    return out


def first_diff(a, b, path=()):
    """(class of the first node, in depth-first order, where two erased terms differ; what differs)"""
    if a[0] != b[0]:
        return None, "kind"
    if a[0] != "Op":
        return (None, "leaf") if a != b else None
    if a[1] != b[1]:
        return a[1], "class"
    if a[3] != b[3] or a[4] != b[4]:
        ka = dict(a[4])
        kb = dict(b[4])
        names = sorted(k for k in set(ka) | set(kb) if ka.get(k) != kb.get(k))
        return a[1], "kwarg:" + ",".join(names or ["<names>"])
    if a[5] != b[5]:
        ka = dict(a[5])
        kb = dict(b[5])
        names = sorted(k for k in set(ka) | set(kb) if ka.get(k) != kb.get(k))
        return a[1], "flag:" + ",".join(names)
    if len(a[2]) != len(b[2]):
        return a[1], "arity"
    for x, y in zip(a[2], b[2]):
        d = first_diff(x, y)
        if d:
            return (d[0] or a[1]), d[1]
    return None


# ------------------------------------------------------------------------------------------ expressions

def user_kernel0(x1, x2, **params):
    """alpha has no non-batch dimensions (num_nonbatch_dimensions={"alpha": 0})"""
    return (x1 @ x2.mT) * params["alpha"][..., None, None]


def user_kernel(x1, x2, **params):
    """covariance function of the kwargs-layout cases: integer valued, two tensor and two plain parameters"""
    k = x1 @ x2.mT
    if params.get("square"):
        k = k * k
    for nm in ("alpha", "zeta"):
        if params.get(nm) is not None:
            k = k * params[nm]
    if params.get("shift"):
        k = k + params["shift"]
    return k


FUNCS = {"user_kernel": user_kernel, "user_kernel0": user_kernel0, "lin_kernel": ob.lin_kernel}


def xval(v, dtype):
    """argument spec of the generic form -> Python value"""
    if isinstance(v, dict):
        if "cls" in v:
            return build(v, dtype)
        if "shape" in v and "data" in v:
            return ob.tt(v, dtype)
        if "deft" in v:
            return sq.make_deft(v["deft"])          # no dtype=: the default dtype current at construction time
        if "size" in v:
            return torch.Size(v["size"])
        if "dtype" in v:
            return dtype if v["dtype"] == "src" else NDT[v["dtype"]]
        if "device" in v:
            return torch.device(v["device"])
        if "fn" in v:
            return FUNCS[v["fn"]]
        if "float" in v:
            return float(v["float"])
        if "dict" in v:
            return dict(v["dict"])
        raise ValueError(v)
    return v


def build(e, dtype):
    """OpExpr -> real operator.  Generic form {"cls": "X", "py": <class name>, "args": [...], "kwargs": {...}}
    calls the public constructor with exactly these arguments; every other form is opbuild's."""
    if e["cls"] == "X":
        import linear_operator.operators as O
        k = ob.user_minimal_class() if e["py"] == "UserMinimal" else getattr(O, e["py"])
        args = [xval(a, dtype) for a in e.get("args", [])]
        kwargs = {n: xval(v, dtype) for n, v in e.get("kwargs", {}).items()}
        want_dt = None
        if "dtype" in kwargs and e["py"] in ("PermutationLinearOperator", "TransposePermutationLinearOperator") \
                and not _accepts_kw(k, "dtype"):
            # a source tree whose permutation constructors have no dtype keyword (the nominal dtype is an attribute there):
            # build without it and set the nominal dtype the way that tree allows - to(dtype), else type(dtype) - so that the
            # run goes on and the property's predicates are evaluated on the operator an informed caller would hold
            want_dt = kwargs.pop("dtype")
        o = k(*args, **kwargs)
        if want_dt is not None and o.dtype != want_dt:
            for conv in ("to", "type"):
                try:
                    o2 = getattr(o, conv)(want_dt)
                except Exception:
                    continue
                if o2.dtype == want_dt:
                    o = o2
                    break
        for step in e.get("then", []):              # construction history: conversions applied before the case starts
            st = [dtype if x == "src" else x for x in step]
            try:
                o = sq.apply_then(o, st)
            except Exception as ex:
                raise HistoryStepFailed(dict(e, then=[]), st, ex)
        return o
    if any(isinstance(v, dict) and v.get("cls") == "X" for v in all_subs(e)[1:]):
        return _build_mixed(e, dtype)
    return ob.build(e, dtype)


_ACCEPTS = {}


def _accepts_kw(k, name):
    """does the constructor of the live class take this keyword? (inspect.signature, cached per class)"""
    import inspect
    key = (k, name)
    if key not in _ACCEPTS:
        try:
            ps = inspect.signature(k.__init__).parameters
            _ACCEPTS[key] = name in ps or any(p.kind == p.VAR_KEYWORD for p in ps.values())
        except (TypeError, ValueError):
            _ACCEPTS[key] = True
    return _ACCEPTS[key]


def _build_mixed(e, dtype):
    """opbuild form with generic-form children: build through opbuild with the children pre-built"""
    orig = ob.build

    def patched(x, dt=torch.float64):
        if x.get("cls") == "X":
            return build(x, dt)
        return orig(x, dt)
    ob.build = patched
    try:
        return orig(e, dtype)
    finally:
        ob.build = orig


def dense_ref(e, dtype=torch.float64):
    """dense oracle (plain torch on the leaves); None where the generic form has no oracle"""
    if e["cls"] == "X":
        if "like" in e:
            return ob.dense(e["like"], dtype)
        return None
    if any(x.get("cls") == "X" for x in all_subs(e)):
        return None
    return ob.dense(e, dtype)


CHILD_KEYS = ("base", "l", "r", "kron", "diag", "a", "b", "root")


def sub_exprs(e):
    out = []
    if e.get("cls") == "X":
        for a in list(e.get("args", [])) + list(e.get("kwargs", {}).values()):
            if isinstance(a, dict) and "cls" in a:
                out.append(a)
        return out
    for x in e.get("ops", []):
        out.append(x)
    for k in CHILD_KEYS:
        if isinstance(e.get(k), dict) and "cls" in e[k]:
            out.append(e[k])
    return out


def all_subs(e):
    out = [e]
    for x in sub_exprs(e):
        out += all_subs(x)
    return out


def describe(e):
    c = e["py"].replace("LinearOperator", "") if e["cls"] == "X" else e["cls"]
    kids = [describe(x) for x in sub_exprs(e)]
    return c + ("(" + ",".join(kids) + ")" if kids else "")


def root_class(e):
    if e["cls"] == "X":
        return e["py"].replace("LinearOperator", "").replace("KroneckerProduct", "Kron")
    return e["cls"]


# ------------------------------------------------------------------------------------------ queries

QUERIES = [("rebuild",), ("repr",), ("evaluate_kernel",), ("clone",), ("detach",), ("cpu",), ("double",), ("float",),
           ("type", "F32"), ("type", "F64"), ("to", "pos", "F32"), ("to", "pos", "F64"), ("to", "kw", "F32"),
           ("to", "kw", "F64"), ("to", "tensor", "F64"), ("to", "tensor", "F32"), ("to", "devdt", "F64"),
           ("to", "dev", None), ("to", "conflict", None), ("dtype",), ("returned",), ("to", "dtdev", "F64"), ("to", "dtdev", "F32"),
           ("rgset", "on"), ("rgset", "onoff")]


def family(q):
    return q[0] if q[0] != "to" else ("to" if q[1] not in ("dev", "conflict") else "to_" + q[1])


def target_dtype(q, src):
    """dtype the result must have (name) ; None = the call must raise"""
    if q[0] in ("rebuild", "evaluate_kernel", "clone", "detach", "cpu"):
        return src
    if q[0] == "double":
        return "F64"
    if q[0] == "float":
        return "F32"
    if q[0] == "type":
        return q[1]
    if q[0] == "to":
        if q[1] == "dev":
            return src
        if q[1] == "conflict":
            return None
        return q[2]
    return src


def apply_query(o, q):
    if q[0] == "rebuild":
        return o.representation_tree()(*o.representation())
    if q[0] == "evaluate_kernel":
        return o.evaluate_kernel()
    if q[0] in ("clone", "detach", "cpu", "double", "float"):
        return getattr(o, q[0])()
    if q[0] == "type":
        return o.type(NDT[q[1]])
    if q[0] == "rgset":
        r = o.requires_grad_(True)
        return r.requires_grad_(False) if q[1] == "onoff" else r
    if q[0] == "to":
        kind = q[1]
        if kind == "pos":
            return o.to(NDT[q[2]])
        if kind == "kw":
            return o.to(dtype=NDT[q[2]])
        if kind == "tensor":
            return o.to(torch.zeros(1, dtype=NDT[q[2]]))
        if kind == "devdt":
            return o.to(torch.device("cpu"), NDT[q[2]])
        if kind == "dtdev":
            return o.to(NDT[q[2]], torch.device("cpu"))
        if kind == "dev":
            return o.to(torch.device("cpu"))
        if kind == "conflict":
            return o.to(torch.float32, dtype=torch.float64)
    raise ValueError(q)


def query_lit(q, oin, obs_extra=None):
    o = lit(oin)
    if q[0] in ("rebuild", "evaluate_kernel"):
        return "QRebuild %s" % o
    if q[0] == "clone":
        return "QMeth MClone %s" % o
    if q[0] == "detach":
        return "QMeth MDetach %s" % o
    if q[0] == "cpu":
        return "QMeth MCpu %s" % o
    if q[0] == "double":
        return "QMeth (MType F64) %s" % o
    if q[0] == "float":
        return "QMeth (MType F32) %s" % o
    if q[0] == "type":
        return "QMeth (MType %s) %s" % (q[1], o)
    if q[0] == "to":
        kind = q[1]
        if kind == "pos":
            return "QTo [TADtype %s] None None %s" % (q[2], o)
        if kind == "kw":
            return "QTo [] (Some %s) None %s" % (q[2], o)
        if kind == "tensor":
            return "QTo [TATensor %s 0] None None %s" % (q[2], o)
        if kind == "devdt":
            return "QTo [TADevice 0; TADtype %s] None None %s" % (q[2], o)
        if kind == "dtdev":
            return "QTo [TADtype %s; TADevice 0] None None %s" % (q[2], o)
        if kind == "dev":
            return "QTo [TADevice 0] None None %s" % o
        if kind == "conflict":
            return "QTo [TADtype F32] (Some F64) None %s" % o
    raise ValueError(q)


# ------------------------------------------------------------------------------------------ running one case

def float_leaf_tensors(o, out=None):
    from linear_operator.operators import LinearOperator
    out = [] if out is None else out
    for a in itertools.chain(o._args, o._kwargs.values()):
        if torch.is_tensor(a):
            if a.dtype.is_floating_point:
                out.append(a)
        elif isinstance(a, LinearOperator):
            float_leaf_tensors(a, out)
    return out


def all_leaf_tensors(o, out=None):
    from linear_operator.operators import LinearOperator
    out = [] if out is None else out
    for a in itertools.chain(o._args, o._kwargs.values()):
        if torch.is_tensor(a):
            out.append(a)
        elif isinstance(a, LinearOperator):
            all_leaf_tensors(a, out)
    return out


FLAG_ATTRS = ("upper", "batch_repeat", "diag_shape", "cat_dim", "num_outputs_per_input", "m", "n", "sizes")


def public_flags(o, out=None, path="0"):
    """(path, class, attribute, value) of the public flag attributes of every node, read from the objects themselves"""
    from linear_operator.operators import LinearOperator
    out = [] if out is None else out
    for a in FLAG_ATTRS:
        if a in getattr(o, "__dict__", {}):
            v = o.__dict__[a]
            if isinstance(v, (bool, int, torch.Size, tuple, list, torch.device)) or v is None:
                out.append((path, type(o).__name__, a, str(v)))
    for i, x in enumerate(itertools.chain(o._args, o._kwargs.values())):
        if isinstance(x, LinearOperator):
            public_flags(x, out, "%s.%d" % (path, i))
    return out


def set_rg(o, pattern):
    ls = float_leaf_tensors(o)
    seen = set()
    k = 0
    for t in ls:
        if id(t) in seen:
            continue
        seen.add(id(t))
        want = pattern == "all" or (pattern == "first" and k == 0) or (pattern == "alt" and k % 2 == 1)
        k += 1
        if want:
            try:
                t.requires_grad_(True)
            except RuntimeError:
                pass


def storages(o, out=None):
    from linear_operator.operators import LinearOperator
    out = set() if out is None else out
    for a in itertools.chain(o._args, o._kwargs.values()):
        if torch.is_tensor(a):
            out.add(a.untyped_storage().data_ptr())
        elif isinstance(a, LinearOperator):
            storages(a, out)
    return out


class Case:
    __slots__ = ("e", "src", "defdt", "rg", "q", "oin", "n0", "obs", "exc", "fails", "ok_abs", "extra", "cell",
                 "defdt0", "dt0", "incons", "mixed", "snap0", "d_in", "d_in_exc", "pair_fails")

    def spec(self):
        d = {"expr": self.e, "src": self.src, "default_dtype": self.defdt, "requires_grad": self.rg, "query": list(self.q)}
        if self.defdt0 is not None:
            d["construction_default_dtype"] = self.defdt0     # torch default dtype while the operator was constructed
        if self.mixed:
            d["mixed"] = True
        return d

    def hist(self):
        return "default-changed" if self.defdt0 not in (None, self.defdt) else "none"


def returned_dtype_failures(op, want, tag):
    """dtype of tensors the operator returns (to_dense, diagonal, products, element access, sums)"""
    out = []

    def chk(name, f):
        try:
            with warnings.catch_warnings():
                warnings.simplefilter("ignore")
                r = f()
        except Exception:
            return
        d = r.dtype if hasattr(r, "dtype") else None
        if d is not None and d != want and d.is_floating_point:
            out.append({"fail": "returned-dtype", "site": name, "got": str(d), "want": str(want), "on": tag})
    n, m = op.shape[-2], op.shape[-1]
    rhs = torch.ones(*op.shape[:-2], m, 2, dtype=want)
    lhs = torch.ones(*op.shape[:-2], n, 2, dtype=want)
    chk("to_dense", lambda: op.to_dense())
    chk("matmul", lambda: op @ rhs)
    chk("t_matmul", lambda: op._t_matmul(lhs))
    chk("getitem_elem", lambda: op[..., 0, 0])
    chk("getitem_row", lambda: op[..., 0, :])
    chk("getitem_block", lambda: op[..., :1, :1].to_dense())
    chk("sum", lambda: op.sum(-1))
    chk("transpose_to_dense", lambda: op.mT.to_dense())
    if n == m:
        chk("diagonal", lambda: op.diagonal())
    return out


CONVERTING = ("double", "float", "type", "to")
PRIORITY = ["aliased-result", "shared-component", "copy-coupled", "source-changed", "raises", "silent", "not-an-operator", "class", "arity", "kind", "flag", "kwarg", "shape", "leaf", "index-cast",
            "leaf-dtype", "dtype", "requires_grad", "shared-storage", "dense-value", "returned-dtype", "representation"]


def fail_rank(f):
    k = f["fail"].split(":")[0]
    return PRIORITY.index(k) if k in PRIORITY else len(PRIORITY)


def close(a, b, tol):
    if a.shape != b.shape:
        return False
    return bool(torch.allclose(a.double(), b.double(), rtol=tol, atol=tol))


def direct_check(case, o, res, exc, meta, heavy=True):
    """the property's predicates evaluated on the implementation; list of failure dicts (empty = holds)"""
    q, src = case.q, case.src
    fails = []
    tgt = target_dtype(q, src)
    has_other = any(a[0] == "V" for a in all_pos_children(case.oin))
    has_float = any(t[3] in ("F32", "F64") for t in leaves(case.oin))
    if case.mixed and q[0] in ("dtype", "returned"):
        return fails                  # a deliberately mixed input has no single dtype to report
    if q[0] == "dtype":
        if exc is not None:
            fails.append({"fail": "raises:" + exc.split(":")[0], "exc": exc})
        elif has_float and res != NDT[src]:
            # (an operator without any floating data has only its nominal dtype: nothing to compare it with)
            fails.append({"fail": "dtype", "got": str(res), "want": src})
        return fails
    if q[0] == "returned":
        if o.dtype is not None:
            fails += returned_dtype_failures(o, NDT[src] if has_float else o.dtype, "original")
        return fails
    if q[0] == "pair":
        # two copies, one mutated: the other copy (checked here) and the source (source integrity) stay what they were
        if exc is not None:
            return [{"fail": "raises:" + exc.split(":")[0], "exc": exc}]
        return list(case.pair_fails or [])
    if q[0] == "rgset":
        # op.requires_grad_(val) (in place, returns the operator): exactly the floating tensors get the flag, integer /
        # boolean index data are never touched, nothing else changes
        if exc is not None:
            return [{"fail": "raises:" + exc.split(":")[0], "exc": exc}]
        want = q[1] == "on"
        ts = all_leaf_tensors(o)
        badf = [str(t.dtype) for t in ts if t.dtype.is_floating_point and bool(t.requires_grad) != want]
        badi = [str(t.dtype) for t in ts if not t.dtype.is_floating_point and t.requires_grad]
        if badf:
            fails.append({"fail": "requires_grad", "got": "%d floating tensor(s) with requires_grad=%s" % (len(badf), not want), "want": want})
        if badi:
            fails.append({"fail": "requires_grad", "got": "integer/boolean tensor requires grad: %s" % badi[0], "want": False})
        if any(t.dtype.is_floating_point for t in ts) and bool(o.requires_grad) != want:
            fails.append({"fail": "requires_grad", "got": bool(o.requires_grad), "want": want, "what": "operator.requires_grad"})
        return fails
    if q[0] == "repr":
        if has_other:
            if exc is None:
                fails.append({"fail": "silent", "what": "representation() of an operator with a non-tensor positional argument"})
        elif exc is not None:
            fails.append({"fail": "raises:" + exc.split(":")[0], "exc": exc})
        else:
            want = [t[1:] for t in leaves(case.oin)]
            got = [t[1:] for t in res]
            if want != got:
                fails.append({"fail": "representation", "got": got, "want": want})
        return fails
    if tgt is None:
        if exc is None:
            fails.append({"fail": "silent", "what": "conflicting dtypes accepted"})
        return fails
    if q[0] in ("rebuild", "evaluate_kernel") and has_other:
        if exc is None:
            fails.append({"fail": "silent", "what": "rebuild of an operator without a tensor representation"})
        return fails
    if exc is not None:
        fails.append({"fail": "raises:" + exc.split(":")[0], "exc": exc})
        return fails
    from linear_operator.operators import LinearOperator
    if not isinstance(res, LinearOperator):
        fails.append({"fail": "not-an-operator", "got": type(res).__name__})
        return fails
    converting = q[0] in CONVERTING and not (q[0] == "to" and q[1] == "dev")
    want_dt = NDT[tgt] if converting else case.dt0
    # structure and flags
    a_out = case.obs
    structural = not (q[0] == "evaluate_kernel" and case.oin[1] in ("CAddedDiag", "CKronAddedDiag", "CLowRankRootAddedDiag"))
    if a_out is not None and structural:
        d = first_diff(erase(case.oin), erase(a_out))
        if d:
            fails.append({"fail": d[1], "class": (d[0] or "?").lstrip("(").split()[0]})
    if structural and not any(f["fail"].split(":")[0] in ("class", "arity", "kind") for f in fails):
        fi, fo = public_flags(o), public_flags(res)
        if fi != fo:
            bad = next((x for x, y in zip(fi, fo) if x != y), (fi + fo)[min(len(fi), len(fo)) - 1 if fi and fo else 0])
            if not any(f["fail"].startswith(("flag:", "kwarg:")) for f in fails):
                fails.append({"fail": "flag:" + bad[2], "class": "C" + bad[1].replace("LinearOperator", "").replace("KroneckerProduct", "Kron"),
                              "got": str(fo[:4]), "want": str(fi[:4])})
    if tuple(res.shape) != tuple(o.shape):
        fails.append({"fail": "shape", "got": list(res.shape), "want": list(o.shape)})
    # dtype of the result
    if res.dtype != want_dt:
        fails.append({"fail": "dtype", "got": str(res.dtype), "want": str(want_dt)})
    # leaves: floating -> target, integer / boolean untouched ; requires_grad
    if a_out is not None and structural:
        lin, lout = leaves(case.oin), leaves(a_out)
        if len(lin) == len(lout):
            for x, y in zip(lin, lout):
                isf = x[3] in ("F32", "F64")
                if isf and y[3] != (tgt if converting else x[3]):
                    fails.append({"fail": "leaf-dtype", "got": y[3], "want": tgt})
                    break
                if not isf and y[3] != x[3]:
                    fails.append({"fail": "index-cast", "got": y[3], "want": x[3]})
                    break
            want_rg = [False if q[0] == "detach" else x[4] for x in lin]
            if [y[4] for y in lout] != want_rg:
                fails.append({"fail": "requires_grad", "got": [y[4] for y in lout], "want": want_rg})
    try:
        want_any = False if q[0] == "detach" else bool(o.requires_grad)
        if bool(res.requires_grad) != want_any:
            fails.append({"fail": "requires_grad", "got": bool(res.requires_grad), "want": want_any})
    except Exception as ex:
        fails.append({"fail": "raises:" + type(ex).__name__, "exc": "requires_grad: " + repr(ex)[:80]})
    # clones share nothing
    if q[0] == "clone":
        sh = storages(o) & storages(res)
        if sh:
            fails.append({"fail": "shared-storage", "n": len(sh)})
    # every floating tensor reachable from the result, read from the objects (independent of the abstraction)
    if not any(f["fail"] in ("leaf-dtype", "index-cast") for f in fails):
        bad = [t.dtype for t in float_leaf_tensors(res) if t.dtype != NDT[tgt]] if converting else []
        if bad:
            fails.append({"fail": "leaf-dtype", "got": str(bad[0]), "want": tgt, "how": "objects"})
    # dense value (the original was densified BEFORE the call)
    if case.d_in is None:
        case.extra = "to_dense-of-the-original-raises"         # not a statement about the copy (C01's business)
        return sorted(fails, key=fail_rank)
    d_in = case.d_in
    try:
        with warnings.catch_warnings():
            warnings.simplefilter("ignore")
            d_res = res.to_dense().detach()
    except Exception as ex:
        fails.append({"fail": "raises:" + type(ex).__name__, "exc": "to_dense: " + repr(ex)[:100]})
        return sorted(fails, key=fail_rank)
    tol = 1e-4 if ("F32" in (src, tgt) or d_res.dtype == torch.float32 or d_in.dtype == torch.float32) else 1e-10
    if res.dtype is not None and d_res.dtype != res.dtype and not (case.mixed and not converting):
        fails.append({"fail": "returned-dtype", "site": "to_dense", "got": str(d_res.dtype), "want": str(res.dtype), "on": "result"})
    if not close(d_res, d_in, tol):
        fails.append({"fail": "dense-value", "max_abs_diff": (float((d_res.double() - d_in.double()).abs().max())
                                                              if d_res.shape == d_in.shape else "shape")})
    ref = dense_ref(case.e)
    if ref is not None and not close(ref, d_in, tol):
        case.extra = "oracle-differs-from-to_dense-of-the-original"
    if heavy and res.dtype is not None and not (case.mixed and not converting):
        fails += returned_dtype_failures(res, res.dtype, "result")
    return sorted(fails, key=fail_rank)


def all_pos_children(a):
    """children (recursively) that representation() iterates over"""
    out = []
    if a[0] == "Op":
        for x in a[2]:
            out.append(x)
            out += all_pos_children(x)
    return out


def run_case(meta, e, src, defdt, rg, q, heavy=True, defdt0=None, mixed=False):
    """defdt0: torch's default dtype while the operator is CONSTRUCTED (None: the same as defdt, the default dtype while
    the query runs); mixed: the input deliberately combines a data-free operator of one dtype with data of another"""
    c = Case()
    c.e, c.src, c.defdt, c.rg, c.q = e, src, defdt, rg, tuple(q)
    c.defdt0, c.mixed = defdt0, bool(mixed)
    c.extra = None
    c.obs, c.exc, c.fails, c.ok_abs = None, None, [], True
    c.pair_fails = None
    torch.set_default_dtype(NDT[defdt0 or defdt])
    with warnings.catch_warnings():
        warnings.simplefilter("ignore")
        try:
            o = build(e, NDT[src])
        except HistoryStepFailed as hs:
            torch.set_default_dtype(NDT[defdt])
            dn = DTN.get(hs.step[1]) if len(hs.step) > 1 else None
            q2 = ("to", "pos", dn) if hs.step[0] == "to" and dn else ("type", dn) if hs.step[0] == "type" and dn else (hs.step[0],)
            return run_case(meta, hs.node, src, defdt, rg, q2, heavy=False, defdt0=defdt0, mixed=mixed)
        finally:
            torch.set_default_dtype(NDT[defdt])
        set_rg(o, rg)
        ab = Abs(meta)
        c.oin = ab.op(o)
        c.n0 = len(ab.stor)
        # the original, observed BEFORE the call: dtype attribute, dense value, and everything its matrix depends on
        try:
            c.dt0 = o.dtype
        except Exception:
            c.dt0 = None
        c.snap0 = sq.snapshot(o)
        # is the ORIGINAL already inconsistent: more than one floating dtype among the dtype attributes of its nodes
        # (nominal dtypes of data-free operators included) and its floating tensors?
        dts = {n["dtype"] for n in c.snap0["nodes"] if n["dtype"] in ("torch.float32", "torch.float64")} | \
              {t["dtype"] for t in c.snap0["tensors"] if t["dtype"] in ("torch.float32", "torch.float64")}
        c.incons = len(dts) > 1
        c.d_in, c.d_in_exc = None, None
        if q[0] not in ("repr", "dtype", "returned", "rgset", "pair"):
            try:
                c.d_in = o.to_dense().detach().clone()
            except Exception as ex:
                c.d_in_exc = "%s: %s" % (type(ex).__name__, str(ex)[:80])
        c.snap0 = sq.snapshot(o)        # (again: to_dense() above must not count as part of the call)
        res = None
        try:
            if q[0] == "repr":
                res = [ab.tensor(t) for t in o.representation()]
            elif q[0] == "dtype":
                res = o.dtype
            elif q[0] == "returned":
                res = None
            elif q[0] == "pair":
                res, c.pair_fails = sq.pair_run(o, q, src)
            else:
                res = apply_query(o, q)
        except Exception as ex:
            c.exc = "%s: %s" % (type(ex).__name__, str(ex)[:120])
        from linear_operator.operators import LinearOperator
        if c.exc is None and isinstance(res, LinearOperator) and q[0] not in ("rgset", "pair"):
            try:
                c.obs = ab.op(res)
            except Unabstractable as ex:
                c.ok_abs = False
        elif c.exc is None and q[0] in ("repr", "dtype"):
            c.obs = res
        c.fails = direct_check(c, o, res, c.exc, meta, heavy=heavy)
        # source integrity: the original must be exactly what it was; the result must be a new object unless nothing
        # had to change
        integ = sq.diff_snapshot(c.snap0, sq.snapshot(o))
        if q[0] == "rgset":
            integ = [f for f in integ if f["fail"] != "source-changed:tensor-requires_grad"]
        if c.exc is None and q[0] not in ("repr", "dtype", "returned", "rgset", "pair"):
            integ = sq.alias_failures(o, res, c.snap0, q, target_dtype(q, src)) + integ
        if integ:
            c.fails = sorted(c.fails + integ, key=fail_rank)
        c.snap0 = None
        c.d_in = None
    return c


def case_lit(c):
    q = c.q
    if q[0] == "repr":
        obs = "None" if c.exc is not None else "(Some [%s])" % "; ".join(tlit(t) for t in c.obs)
        return "(%s, %d, QRepr %s %s, None)" % (c.defdt, c.n0, lit(c.oin), obs)
    if q[0] == "dtype":
        obs = "None" if (c.exc is not None or c.obs not in DTN) else "(Some %s)" % DTN[c.obs]
        return "(%s, %d, QDtype %s %s, None)" % (c.defdt, c.n0, lit(c.oin), obs)
    obs = "None" if c.exc is not None else "(Some %s)" % lit(c.obs)
    return "(%s, %d, %s, %s)" % (c.defdt, c.n0, query_lit(q, c.oin), obs)


def in_model(c):
    """cases compared with the Coq model"""
    if not c.ok_abs or c.q[0] in ("returned", "rgset", "pair"):
        return False
    if c.q[0] == "evaluate_kernel" and c.oin[1] in ("CAddedDiag", "CKronAddedDiag", "CLowRankRootAddedDiag"):
        return False            # goes through __add__ (C02); only the direct predicates apply
    if c.exc is None and c.obs is None:
        return False
    return True


def shard_src(cases):
    body = ";\n ".join(case_lit(c) for c in cases)
    return HDR + ("Definition cases : list case := [\n %s].\nEval vm_compute in (bad_cases cases 0).\n"
                  "Eval vm_compute in (bad_wf cases 0).\nEval vm_compute in (bad_conv cases 0).\n"
                  "Eval vm_compute in (n_conv cases).\n" % body)


def parse_two_lists(out):
    """the two '= [..] : list nat' answers of a shard (model mismatches, not-well-formed inputs)"""
    ms = re.findall(r"=\s*\[(.*?)\]\s*:\s*list", out, re.S)
    if len(ms) != 3:
        return None
    res = []
    for body in ms:
        body = body.strip()
        res.append([int(re.sub(r"%\w+", "", x).strip().strip("()")) for x in body.split(";")] if body else [])
    m = re.search(r"=\s*(\d+)\s*:\s*nat", out)
    res.append(int(m.group(1)) if m else 0)
    return res


# ------------------------------------------------------------------------------------------ the grid

LEAF_CHILDREN = ["Dense", "Diag", "ConstantDiag", "Identity", "Zero", "Toeplitz", "Triangular", "Chol", "Root", "LowRankRoot",
                 "Permutation", "Kernel", "UserMinimal"]
WRAPPERS = ["Kron", "Sum", "Matmul", "ConstantMul", "BlockDiag", "BlockInterleaved", "SumBatch", "BatchRepeat",
            "Interpolated", "Masked", "AddedDiag", "Cat", "KronAddedDiag", "PsdSum"]
DT_MIXED = [("F64", "F32"), ("F32", "F64")]
DT_SAME = [("F32", "F32"), ("F64", "F64")]
RGS = ["none", "all", "first", "alt"]


def T(shape, data):
    return {"shape": list(shape), "data": list(data)}


def special_exprs(rng):
    """kwargs layouts, constructor normalisations and flag combinations the opbuild generators do not reach"""
    r = lambda shape, lo=-3, hi=3: ob.rand_t(rng, shape, lo, hi)
    tri = lambda n, up, batch=(): {"cls": "Triangular", "t": ob.gen(rng, "Triangular", batch=batch, m=n)["t"], "upper": up}

    def tri_t(n, up, batch=()):
        t = ob.tt(r(list(batch) + [n, n], -2, 2))
        t = torch.triu(t) if up else torch.tril(t)
        t = t - torch.diag_embed(torch.diagonal(t, dim1=-2, dim2=-1)) + torch.diag_embed(ob.tt(r(list(batch) + [n], 1, 3)))
        return ob.from_torch(t)
    dense = lambda n, m=None, batch=(): {"cls": "Dense", "t": r(list(batch) + [n, m or n])}
    X = lambda py, args=(), kwargs=None, like=None: dict({"cls": "X", "py": py, "args": list(args), "kwargs": kwargs or {}},
                                                         **({"like": like} if like else {}))
    out = []
    # extra **kwargs of SumLinearOperator: tensors, operators and plain values, names out of order
    a, b = dense(3), {"cls": "Diag", "d": r([3])}
    out.append(("sum_kwargs", X("SumLinearOperator", [a, b], {"zeta": r([3]), "alpha": r([2, 2]), "extra": 3, "shift": None},
                                like={"cls": "Sum", "ops": [a, b]})))
    out.append(("sum_kwargs_op", X("SumLinearOperator", [dense(2), dense(2)], {"zeta": dense(2), "square": True, "alpha": r([1])})))
    out.append(("psdsum_kwargs", X("PsdSumLinearOperator", [{"cls": "Diag", "d": r([2], 1, 3)}, {"cls": "Root", "root": r([2, 1])}],
                                   {"extra": {"size": [2, 3]}})))
    # KernelLinearOperator: tensor hyper-parameters (differentiable kwargs, sorted) and plain ones
    for batch in ([], [2]):
        out.append(("kernel_params", X("KernelLinearOperator", [r(batch + [3, 2], -2, 2), r(batch + [2, 2], -2, 2)],
                                       {"covar_func": {"fn": "user_kernel"}, "zeta": r(batch + [1, 1], 1, 2), "alpha": r([1, 1], 1, 2),
                                        "square": True, "shift": 2})))
    out.append(("kernel_nonbatch", X("KernelLinearOperator", [r([3, 2], -2, 2), r([3, 2], -2, 2)],
                                     {"covar_func": {"fn": "user_kernel0"}, "alpha": r([2], 1, 2),
                                      "num_nonbatch_dimensions": {"dict": {"alpha": 0}}})))
    # TriangularLinearOperator over operators: unwrap, wrap inside a repeat
    for up in (False, True):
        t = tri_t(3, up)
        out.append(("tri_over_dense_op", X("TriangularLinearOperator", [{"cls": "Dense", "t": t}], {"upper": up})))
        out.append(("tri_over_tri", X("TriangularLinearOperator", [{"cls": "Triangular", "t": t, "upper": up}], {"upper": up})))
        out.append(("tri_over_repeat", X("TriangularLinearOperator",
                                         [{"cls": "BatchRepeat", "base": {"cls": "Dense", "t": t}, "rep": [2]}], {"upper": up})))
        out.append(("tri_over_repeat_tri", X("TriangularLinearOperator",
                                             [{"cls": "BatchRepeat", "base": {"cls": "Triangular", "t": t, "upper": up}, "rep": [2]}],
                                             {"upper": up})))
    # CholLinearOperator: every combination of the two orientation flags, Kronecker-triangular factor
    for tu in (False, True):
        for cu in (False, True):
            out.append(("chol_flags", X("CholLinearOperator", [{"cls": "Triangular", "t": tri_t(3, tu), "upper": tu}], {"upper": cu})))
    for up in (False, True):
        kt = {"cls": "KronTriangular", "ops": [{"cls": "Triangular", "t": tri_t(2, up), "upper": up},
                                               {"cls": "Triangular", "t": tri_t(2, up), "upper": up}], "upper": up}
        out.append(("chol_kron", X("CholLinearOperator", [kt], {"upper": up})))
        out.append(("krontri", kt))
    out.append(("chol_diag_root", X("CholLinearOperator", [{"cls": "Diag", "d": r([3], 1, 3)}])))
    # block operators with a permuted block dimension
    for c in ("BlockDiag", "BlockInterleaved", "SumBatch"):
        out.append(("block_dim", {"cls": c, "base": dense(2, batch=[3, 2]), "block_dim": -4}))
        out.append(("block_dim_pos", {"cls": c, "base": dense(2, batch=[2, 3]), "block_dim": 1}))
    # Cat: positive dim, output_device, batch dim
    parts = [dense(2, 3), dense(1, 3)]
    out.append(("cat_pos_dim", X("CatLinearOperator", parts, {"dim": 0}, like={"cls": "Cat", "ops": parts, "dim": 0})))
    out.append(("cat_device", X("CatLinearOperator", parts, {"dim": -2, "output_device": {"device": "cpu"}},
                                like={"cls": "Cat", "ops": parts, "dim": -2})))
    out.append(("cat_batch", {"cls": "Cat", "ops": [dense(2, batch=[1]), dense(2, batch=[2])], "dim": 0}))
    # constructors that allocate or normalise: python-float constant, default interpolation, tensor factors
    out.append(("constmul_float", X("ConstantMulLinearOperator", [dense(3), {"float": 2.0}])))
    out.append(("interp_defaults", X("InterpolatedLinearOperator", [dense(3, 2)])))
    out.append(("interp_left_only", X("InterpolatedLinearOperator",
                                      [dense(3), {"shape": [2, 1], "data": [2, 0], "long": True}, r([2, 1], 1, 2)])))
    out.append(("matmul_tensors", X("MatmulLinearOperator", [r([2, 3]), r([3, 2])])))
    out.append(("kron_tensors", X("KroneckerProductLinearOperator", [r([2, 2]), dense(2, 3)])))
    out.append(("root_of_op", {"cls": "Root", "root": {"cls": "Kron", "ops": [dense(2, 1), dense(2, 2)]}}))
    # permutations: batch, explicit inverse, no validation
    perm = {"shape": [2, 3], "data": [1, 2, 0, 0, 2, 1], "long": True}
    inv = {"shape": [2, 3], "data": [2, 0, 1, 0, 2, 1], "long": True}
    out.append(("perm_inv", X("PermutationLinearOperator", [perm, inv], {"validate_args": False})))
    out.append(("perm_batch", {"cls": "Permutation", "perm": perm}))
    out.append(("transperm", {"cls": "TransposePermutation", "m": 2}))
    # identity / zero with batch shapes, masked / interpolated over structured bases
    out.append(("identity_batch", {"cls": "Identity", "n": 3, "batch": [2, 1]}))
    out.append(("zero_batch", {"cls": "Zero", "shape": [2, 3, 2]}))
    out.append(("added_identity", {"cls": "AddedDiag", "base": dense(3), "diag": {"cls": "Identity", "n": 3, "batch": []}}))
    m3 = {"shape": [3], "data": [1, 0, 1], "bool": True}
    out.append(("masked_interp", {"cls": "Masked", "base": ob.gen(rng, "Interpolated", batch=[], m=3, n=3, depth=1, child="Dense"),
                                  "row_mask": m3, "col_mask": {"shape": [3], "data": [1, 1, 0], "bool": True}}))
    # a sub-operator WITHOUT tensors (empty representation) in front of arguments that have some: index bookkeeping of the tree
    ident = {"cls": "Identity", "n": 3, "batch": []}
    out.append(("empty_repr_first_sum", {"cls": "Sum", "ops": [ident, dense(3), {"cls": "Diag", "d": r([3])}]}))
    out.append(("empty_repr_first_constmul", {"cls": "ConstantMul", "base": ident, "c": r([], 2, 3)}))
    out.append(("empty_repr_first_matmul", {"cls": "Matmul", "l": {"cls": "TransposePermutation", "m": 2}, "r": dense(4, 2)}))
    out.append(("empty_repr_first_added", X("AddedDiagLinearOperator", [ident, dense(3)])))
    out.append(("empty_repr_mid_kron", {"cls": "Kron", "ops": [dense(2), {"cls": "Identity", "n": 2, "batch": []}, dense(2, 3)]}))
    out.append(("lowrank_added", ob.gen(rng, "LowRankRootAddedDiag", batch=[2], m=3)))
    out.append(("sumkron", ob.gen(rng, "SumKron", batch=[], m=4)))
    out.append(("mul", ob.gen(rng, "Mul", batch=[2], m=3)))
    return out


def grid(ctx):
    """deterministic list of cells (name, expr, src, defdt, rg, query); the seed only picks values (and, in the quick
    tier, which representative children / queries a cell family runs)"""
    rng = random.Random(ctx.seed)
    quick = ctx.quick
    cells = []
    rot = ctx.seed

    def add(name, e, dts, queries, rgs):
        nonlocal rot
        e = sq.with_perm_dtype(e)      # permutation operators get dtype=<data dtype>: a consistent operator
        for (src, defdt) in dts:
            for qi, q in enumerate(queries):
                rot += 1
                cells.append((name, e, src, defdt, rgs[rot % len(rgs)], q))
    allq = QUERIES
    some = lambda k: [QUERIES[(i * 7 + rot) % len(QUERIES)] for i in range(k)]
    # A. every class, unbatched and batched, all queries, default dtype different from / equal to the data dtype
    for ci, cls in enumerate(ob.ALL):
        for batch in ([], [2]) if quick else ([], [2], [2, 1], [1, 3]):
            try:
                e = ob.gen(rng, cls, batch=batch, m=3, n=2, depth=1)
            except Exception:
                continue
            add("A:%s" % cls, e, DT_MIXED, allq, RGS)
            if not quick or (ci + len(batch)) % 2 == 0:
                add("A:%s" % cls, e, DT_SAME, [("clone",), ("double",), ("float",), ("to", "pos", "F64"), ("rebuild",), ("dtype",)], RGS)
    # B. every wrapper over every leaf class (nesting depth 2)
    core_q = [("rebuild",), ("clone",), ("detach",), ("double",), ("float",), ("to", "pos", "F64"), ("to", "kw", "F32"),
              ("type", "F64"), ("evaluate_kernel",), ("cpu",), ("to", "dev", None), ("returned",), ("dtype",), ("repr",)]
    for wi, w in enumerate(WRAPPERS):
        kids = LEAF_CHILDREN if not quick else [LEAF_CHILDREN[(wi * 3 + j * 4 + ctx.seed) % len(LEAF_CHILDREN)] for j in range(4)]
        for ki, kid in enumerate(dict.fromkeys(kids)):
            for batch in ([], [2]) if not quick else ([[], [2]][(wi + ki) % 2],):
                try:
                    e = ob.gen(rng, w, batch=batch, m=3, n=3, depth=2, child=kid)
                    build(e, torch.float64)
                except Exception:
                    continue
                qs = core_q if not quick else [core_q[(i + wi + ki) % len(core_q)] for i in range(0, len(core_q), 2)]
                add("B:%s/%s" % (w, kid), e, DT_MIXED if quick else DT_MIXED + DT_SAME[:1], qs, RGS)
    # C. random deeper nestings
    for i in range(12 if quick else 80):
        w = WRAPPERS[(i + ctx.seed) % len(WRAPPERS)]
        try:
            e = ob.gen(rng, w, batch=[[], [2]][i % 2], m=2, n=2, depth=3)
            build(e, torch.float64)
        except Exception:
            continue
        add("C:%s" % w, e, DT_MIXED[i % 2:i % 2 + 1] if quick else DT_MIXED, core_q if not quick else core_q[i % 2::2], RGS)
    # D. kwargs layouts / normalising constructors / flag combinations
    # K. the witness of every listed finding is replayed on every run
    for ent in common.load_known():
        cs = (ent.get("replay") or {}).get("case") if ent.get("property") == PROP else None
        if cs:
            cells.append(("K:%s" % ent.get("id"), cs["expr"], cs["src"], cs["default_dtype"], cs["requires_grad"], tuple(cs["query"]),
                          {"defdt0": cs.get("construction_default_dtype"), "mixed": cs.get("mixed", False)}))
    for name, e in special_exprs(rng):
        try:
            build(e, torch.float64)
        except Exception as ex:
            cells.append(("D:%s:unbuildable:%s" % (name, type(ex).__name__), None, None, None, None, None))
            continue
        add("D:%s" % name, e, DT_MIXED, core_q if quick else allq, RGS)
    # P. two-copy sequences: two copies of the same operator, one of them mutated
    pk = 0
    pexprs = []
    for ci, cls in enumerate(ob.ALL):
        try:
            pexprs.append(("P:%s" % cls, sq.with_perm_dtype(ob.gen(rng, cls, batch=[[], [2]][ci % 2], m=3, n=2, depth=1))))
        except Exception:
            continue
    for name, e in special_exprs(rng):
        pexprs.append(("P:D:%s" % name, sq.with_perm_dtype(e)))
    for name, e in pexprs:
        if not _buildable(e):
            continue
        for (src, defdt) in DT_MIXED:
            pk += 1
            prs = sq.PAIRS if not quick else [sq.PAIRS[(pk * 3 + j * 4 + ctx.seed) % len(sq.PAIRS)] for j in range(3)]
            for (how, mut) in dict.fromkeys(prs):
                cells.append((name, e, src, defdt, "none", ("pair", how, mut)))
    # H. default-dtype histories: constructed under default X (dtypes omitted wherever a constructor allows it), the
    #    default is switched to Y, then the copy / conversion / rebuild runs
    ok = lambda e: _buildable(e)
    hk = 0
    for name, e, qs in sq.family_h(rng, quick, ctx.seed, ok):
        for (x, y) in (("F64", "F32"), ("F32", "F64")):
            for q in qs:
                hk += 1
                cells.append((name, e, x, y, RGS[hk % len(RGS)], q, {"defdt0": x, "heavy": q[0] in ("clone", "detach", "cpu", "rebuild", "double", "float", "type") and hk % 2 == 0}))
    # N. conversions of nestings whose first argument is a data-free operator with a nominal dtype
    nk = 0
    for name, eb, qs in sq.family_n(rng, quick, ctx.seed, ok):
        mixed = name.endswith("_other")
        for di, d in enumerate(("F64", "F32")):
            e = eb(d)
            for q in qs:
                if mixed and q[0] in ("dtype", "returned"):
                    continue
                nk += 1
                cells.append((name, e, d, ("F32", "F64")[(nk + di) % 2], RGS[nk % len(RGS)], q,
                              {"mixed": mixed, "heavy": nk % 3 == 0 and not mixed}))
    return cells


UNBUILDABLE = []


def _buildable(e):
    try:
        build(e, torch.float64)
        return True
    except Exception as ex:
        UNBUILDABLE.append("%s: %s" % (describe(e), type(ex).__name__))
        return False


# ------------------------------------------------------------------------------------------ triage

def primary(fails):
    return sorted(fails, key=fail_rank)[0] if fails else None


def same_failure(f, g):
    return f["fail"] == g["fail"]


def same_kind(f, g):
    return f["fail"] == g["fail"] and f.get("site") == g.get("site")


def shrink(meta, c, f, budget=40):
    """smallest sub-operator (and simplest query) on which the same kind of failure still shows -> (expr, query,
    failure, the case that was run on it)"""
    cur_e, cur_q, cur_c = c.e, c.q, c
    steps = 0
    while steps < budget:
        found = None
        qs = [cur_q]
        tgt = target_dtype(cur_q, c.src)
        if cur_q[0] in ("double", "float", "type") or (cur_q[0] == "to" and cur_q[1] in ("kw", "tensor", "devdt", "dtdev")):
            qs.append(("to", "pos", tgt))
        if cur_q[0] in ("evaluate_kernel", "cpu"):
            qs.append(("rebuild",) if cur_q[0] == "evaluate_kernel" else ("clone",))
        fallback = None
        for ch in sub_exprs(cur_e):
            for q2 in qs:
                steps += 1
                try:
                    c2 = run_case(meta, ch, c.src, c.defdt, c.rg, q2, heavy=(f["fail"] == "returned-dtype"), defdt0=c.defdt0,
                                  mixed=c.mixed)
                except Exception:
                    continue
                if c2.fails:
                    # a sub-operator that already violates the property under the same query: the enclosing operator
                    # cannot be right, the failure is attributed to the smallest failing sub-operator - preferably one
                    # that fails in the SAME way (same predicate, same probe site)
                    same = [g for g in c2.fails if same_kind(f, g)]
                    if same:
                        found = (ch, q2, same[0], c2)
                        break
                    if fallback is None:
                        fallback = (ch, q2, primary(c2.fails), c2)
            if found:
                break
        found = found or fallback
        if not found:
            break
        cur_e, cur_q, f, cur_c = found
    return cur_e, cur_q, f, cur_c


def opg(fam):
    return "type" if fam in ("double", "float", "type") else fam


def finding_key(meta, c, f):
    """structural key of a failing case: class of the smallest failing sub-operator, query family, failure kind (and
    probe site), whether the default dtype changed between construction and call.  One explicit attribution rule:
    requires_grad that only SPREADS above a Kronecker node (on the result or on the source) -> Kron.  (The rule that
    attributed dtype mismatches to the hard-wired nominal dtype of permutation operators is gone with that defect.)"""
    kind = f["fail"]
    extra = {"hist": c.hist()}
    if kind.split(":")[0] in ("flag", "kwarg", "class", "arity") and f.get("class") and f["class"] not in ("?", ""):
        cls = f["class"][1:] if f["class"].startswith("C") else f["class"]
        return dict({"class": cls, "fail": kind}, **extra), c.e, c.q, f
    e2, q2, f2, c2 = shrink(meta, c, f)
    cls = root_class(e2)
    kind = f2["fail"]
    fam = family(q2)
    if kind.split(":")[0] in ("flag", "kwarg", "class", "arity") and f2.get("class") and f2["class"] not in ("?", ""):
        return dict({"class": f2["class"][1:] if f2["class"].startswith("C") else f2["class"], "fail": kind}, **extra), e2, q2, f2
    if kind == "source-changed:tensor-requires_grad" and f2.get("before", "").endswith("rg=False"):
        kr = [root_class(x) for x in all_subs(e2) if root_class(x) in ("Kron", "KronTriangular", "KronDiag", "SumKron", "KronAddedDiag")]
        if kr:
            # the same constructor step, reached through an operation that rebuilds a Kronecker operator around the
            # ORIGINAL's own tensors (BatchRepeat._getitem ...): the flag spreads onto a tensor of the original
            return dict({"class": "Kron", "fail": "requires_grad", "obs": "source"}, **extra), e2, q2, f2
    if kind == "requires_grad" and cls != "Kron" and spread_only(f2):
        kr = [root_class(x) for x in all_subs(e2) if root_class(x) in ("Kron", "KronTriangular", "KronDiag", "SumKron", "KronAddedDiag")]
        if kr:
            # requires_grad only SPREADS (no tensor lost its flag) and a Kronecker operator sits below: its constructor
            # re-applies requires_grad_ per factor whenever an enclosing constructor rebuilds it with a batch shape
            return dict({"class": "Kron", "fail": "requires_grad"}, **extra), e2, q2, f2
    key = {"class": cls, "op": fam, "opg": opg(fam), "fail": kind}
    if q2[0] == "pair":
        key["how"], key["mut"] = q2[1], q2[2]
    if f2.get("site"):
        key["site"] = f2["site"]
    return dict(key, **extra), e2, q2, f2


def spread_only(f):
    g, w = f.get("got"), f.get("want")
    if isinstance(g, list) and isinstance(w, list) and len(g) == len(w):
        return all(a or not b for a, b in zip(g, w)) and g != w
    return g is True and w is False


def report(ctx, meta, c, model_disagrees):
    f = primary(c.fails)
    key, e2, q2, f2 = finding_key(meta, c, f)
    replay = {"kind": "property-failure", "case": c.spec(), "failures": c.fails[:6], "exception": c.exc,
              "shrunk": {"expr": e2, "query": list(q2)}, "model_disagrees": bool(model_disagrees),
              "what": "%s on %s.%s (data %s, default dtype %s%s)" % (
                  f2["fail"], describe(e2), family(q2), c.src, c.defdt,
                  (", constructed while the default dtype was %s" % c.defdt0) if c.hist() != "none" else "")}
    return ctx.violation(replay, key=key), key


# ------------------------------------------------------------------------------------------ run

def execute(ctx, meta, cells, heavy_every=3):
    cases, skipped = [], []
    for i, cell in enumerate(cells):
        name, e, src, defdt, rg, q = cell[:6]
        opts = cell[6] if len(cell) > 6 else {}
        if q is not None and q[0] in ("rgset", "pair"):
            rg = "none"                 # requires_grad_() is exercised on operators over fresh leaf tensors
        if e is None:
            skipped.append(name)
            continue
        try:
            heavy = opts.get("heavy") if "heavy" in opts else (q[0] in ("double", "float", "clone", "rebuild") and i % heavy_every == 0)
            c = run_case(meta, e, src, defdt, rg, q, heavy=heavy, defdt0=opts.get("defdt0"), mixed=opts.get("mixed", False))
        except Unabstractable as ex:
            skipped.append("%s:%s" % (name, ex))
            continue
        except Exception as ex:
            # the operator of this cell cannot be constructed on this source tree (not a statement about copies)
            skipped.append("%s:construction raised %s" % (name, type(ex).__name__))
            continue
        c.cell = name
        cases.append(c)
    torch.set_default_dtype(torch.float32)
    return cases, skipped


def correspondence(ctx, cases):
    """-> (indices of model/implementation disagreements, indices of not-well-formed terms, shard failures)"""
    mc = [i for i, c in enumerate(cases) if in_model(c)]
    shards = [("c14_%d" % (k // SH), shard_src([cases[i] for i in mc[k:k + SH]])) for k in range(0, len(mc), SH)]
    mism, notwf, failed, badconv, nconv = [], [], [], [], 0
    for b in range(0, len(shards), 6):
        res = common.run_shards(ctx, shards[b:b + 6])
        for si in range(b, min(b + 6, len(shards))):
            name = shards[si][0]
            rc, out = res[name]
            two = parse_two_lists(out) if rc == 0 else None
            if two is None:
                failed.append((name, out[-600:]))
                continue
            mism += [mc[si * SH + x] for x in two[0]]
            notwf += [mc[si * SH + x] for x in two[1]]
            badconv += [mc[si * SH + x] for x in two[2]]
            nconv += two[3]
    return mism, notwf, failed, len(mc), badconv, nconv


def run(ctx):
    torch.set_num_threads(1)
    try:
        meta = regenerate()
        tr_err = None
    except (c14_ctors.Untranslatable, SyntaxError, RuntimeError) as ex:
        meta, tr_err = None, "%s: %s" % (type(ex).__name__, ex)
    if meta is None:
        ctx.say("translator rejected the source:", tr_err)
        meta_fb = fallback_meta()
        before = ctx.violations
        if meta_fb is not None:
            cells = grid(ctx)
            cases, _ = execute(ctx, meta_fb, cells)
            report_direct(ctx, meta_fb, cases, set())
        if ctx.violations == before:
            ctx.violation({"kind": "translator-rejected-source", "error": tr_err,
                           "obligation": "coq/C14/gen/Ctors.v / AllocSites.v could not be regenerated"}, no_input=True)
        ctx.coverage.update({"obligations": len(common.property_obligations(PROP)), "discharged": 0,
                             "checker_cmd": "translator failed", "trusted_base": common.COQ_TRUSTED, "samples": [tr_err],
                             "evaluations": 0, "distinct_nontrivial": 0, "rule": "n/a"})
        return
    t0 = time.time()
    cells = grid(ctx)
    cases, skipped = execute(ctx, meta, cells)
    t_impl = time.time() - t0

    def on_fail(info):
        # a proof obligation over the regenerated tables no longer holds: look for a concrete failing input
        ctx.say("searching the implementation for a failing input ...")
        before = ctx.violations
        report_direct(ctx, meta, cases, set(), limit=6)
        if ctx.violations == before and ctx.quick:
            wide = common.Ctx.__new__(common.Ctx)
            wide.__dict__.update(ctx.__dict__)
            wide.tier = "thorough"
            cs2, _ = execute(ctx, meta, grid(wide))
            report_direct(ctx, meta, cs2, set(), limit=6)
        return ctx.violations > before
    ok = common.proof_stage(ctx, on_fail)
    mism, notwf, failed, n_model, badconv, nconv = ([], [], [], 0, [], 0)
    t1 = time.time()
    if ok:
        mism, notwf, failed, n_model, badconv, nconv = correspondence(ctx, cases)
        for name, out in failed:
            ctx.violation({"kind": "shard-failed", "shard": name, "out": out}, no_input=True)
    t_coq = time.time() - t1
    reported = set()
    n_direct = report_direct(ctx, meta, cases, set(mism)) if ok else 0
    # disagreements between model and implementation on cases where the property holds: the model is wrong
    seen = set()
    repaired = {}
    for i in mism:
        c = cases[i]
        if c.fails:
            continue
        e = repaired_cell(c, ctx.known_hit)
        if e is not None:
            # the model transcribes the pinned (defective) code of a LISTED finding; the implementation now does what the
            # property asks in that cell (the direct predicates hold): a repair, not an alarm
            repaired[e["id"]] = repaired.get(e["id"], 0) + 1
            continue
        sig = (describe(c.e), family(c.q))
        if sig in seen:
            continue
        seen.add(sig)
        ctx.violation({"kind": "model-implementation-disagreement", "case": c.spec(), "exception": c.exc,
                       "input_term": lit(c.oin), "observed_term": (lit(c.obs) if isinstance(c.obs, tuple) else str(c.obs)),
                       "correspondence": "coq/C14/Check.v agree (Model.v vs the real classes)"}, no_input=True)
    for i in badconv[:3]:
        c = cases[i]
        if c.fails or repaired_cell(c, ctx.known_hit) is not None:
            continue            # a failing input: already reported through the direct predicates ; or a repaired finding
        ctx.violation({"kind": "specification-implementation-disagreement", "case": c.spec(), "input_term": lit(c.oin),
                       "observed_term": (lit(c.obs) if isinstance(c.obs, tuple) else str(c.obs)),
                       "what": "Conv.conv (the structural specification of the conversion) differs from what the library returned"},
                      no_input=True)
    for i in notwf[:3]:
        c = cases[i]
        ctx.violation({"kind": "stored-operator-not-well-formed", "case": c.spec(), "input_term": lit(c.oin),
                       "observed_term": (lit(c.obs) if isinstance(c.obs, tuple) else str(c.obs)),
                       "what": "Wf.wfb is false on the abstraction of a real operator: the hypothesis of C14_rebuild "
                               "does not describe the library"}, no_input=True)
    # coverage
    def ntkey(c):
        return (describe(c.e), c.src, c.defdt, family(c.q))
    nontrivial = {ntkey(c) for c in cases if c.q[0] not in ("dtype", "repr", "returned", "rgset", "pair")
                  and (c.src != c.defdt or len(all_subs(c.e)) > 1)}
    dist = {}
    for c in cases:
        dist[family(c.q)] = dist.get(family(c.q), 0) + 1
    cls_seen = sorted({root_class(x) for c in cases for x in all_subs(c.e)})
    samples = [cases[len(cases) // 3].spec(), cases[-1].spec()] if len(cases) >= 3 else [c.spec() for c in cases]
    ctx.coverage.update({
        "trusted_base": common.COQ_TRUSTED + [
            "translator harness/c14_ctors.py (constructor chains -> gen/Ctors.v; Python ast + MRO of the imported classes; fail-closed; "
            "re-binding of a parameter name keeps its identity; the allow-list VARKW_ALIASES for KernelLinearOperator's re-partitioned **params)",
            "translator harness/c14_alloc.py (AST scan of every .py file under linear_operator/ except linear_operator/test; the dtype "
            "classification of a site is syntactic) and the hand-written policy coq/C14/AllocPolicy.v (allow list with reasons)",
            "abstraction alpha of harness/c14.py (storage identity = data_ptr of the untyped storage, value identity = shape + entries as "
            "float64, attributes read from the objects) and the comparator coq/C14/Check.v",
            "hand-transcribed parts of coq/C14/Model.v tied by correspondence only: norm_pos (structural constructor normalisation), the "
            "to()/type() overrides, _to_helper, dtype property; torch primitives modelled by meaning: Tensor.clone (fresh storage), "
            "detach (same storage, requires_grad False), to(dtype) (same tensor when the dtype is equal, fresh storage otherwise), "
            "cpu (identity on CPU tensors), expand/view constructors keep the storage",
            "dense oracle harness/opbuild.py (plain torch on the leaves) and to_dense() of the original operator as reference value"],
        "evaluations": len(cases), "model_compared": n_model, "distinct_nontrivial": len(nontrivial),
        "rule": "one evaluation = one (operator expression, data dtype, torch default dtype, requires_grad pattern, query) cell run on the "
                "real classes; non-trivial = a conversion/copy/rebuild query (not the dtype/representation/returned-dtype probes) on an "
                "operator whose data dtype differs from the default dtype or that nests at least one sub-operator; distinct by (class "
                "tree, data dtype, default dtype, query family)",
        "cells": len(cells), "skipped_cells": skipped[:20], "n_skipped": len(skipped),
        "unbuildable_family_expressions": sorted(set(UNBUILDABLE))[:30], "n_unbuildable_family_expressions": len(set(UNBUILDABLE)),
        "model_mismatches": len(mism), "not_well_formed": len(notwf), "repaired_finding_cells": repaired, "spec_compared": nconv, "spec_mismatches": len(badconv), "direct_property_failures": n_direct,
        "cases_with_failing_predicate": sum(1 for c in cases if c.fails),
        "queries": dist, "classes": cls_seen, "n_classes": len(cls_seen),
        "alloc_sites": meta["alloc"]["n_sites"], "alloc_files": meta["alloc"]["n_files"],
        "unmodelled_classes": meta.get("unknown_classes", []),
        "oracle_vs_to_dense_disagreements": sum(1 for c in cases if c.extra),
        "time_impl_s": round(t_impl, 1), "time_coq_shards_s": round(t_coq, 1),
        "samples": samples,
    })
    torch.set_default_dtype(torch.float32)
    ctx.assumptions = [
        "CPU only: device conversions are exercised with torch.device('cpu'); cuda()/multi-device Cat are not covered",
        "dtypes float32/float64/int64/bool (half precision is outside the property's quantifier)",
        "KeOpsLinearOperator cannot be constructed here (pykeops missing)",
        "operators are abstracted to storages/values/dtypes/flags: shapes and entries enter only through the value identity and "
        "through the direct dense comparison"]


def repaired_cell(c, reproduced=()):
    """a listed finding that did NOT reproduce in this run (someone repaired it) and whose cell this PASSING case belongs
    to: some node of the operator has the finding's class and the query family is the finding's (when it names one).
    There the model still transcribes the pinned, defective code; the implementation now satisfies the property."""
    classes = {root_class(x) for x in all_subs(c.e)}
    for e in common.load_known():
        if e.get("property") != PROP or e.get("status") != "known" or e.get("id") in reproduced:
            continue
        k = e.get("key", {})
        if k.get("class") in classes and ("op" not in k or opgroup(k["op"]) == opgroup(family(c.q))):
            return e
    return None


def opgroup(f):
    """type()/double()/float() of an enclosing operator call to(dtype) on nested operators: one family for this purpose"""
    return "convert" if f in ("to", "type", "double", "float") else f


def report_direct(ctx, meta, cases, mism, limit=None):
    """every case whose direct predicate fails is a concrete failing input: report once per structural key"""
    seen = {}
    n = 0
    order = sorted(range(len(cases)), key=lambda i: (len(all_subs(cases[i].e)), i))
    for i in order:
        c = cases[i]
        if not c.fails:
            continue
        f = primary(c.fails)
        pre = (root_class(c.e) if len(all_subs(c.e)) == 1 else describe(c.e), family(c.q), f["fail"], f.get("class"), f.get("site"),
               c.hist(), c.mixed)
        if pre in seen:
            continue
        seen[pre] = True
        new, key = report(ctx, meta, c, i in mism)
        n += 1
        if limit and ctx.violations >= limit:
            break
    return n


def fallback_meta():
    p = os.path.join(common.COQ, PROP, "gen", "c14_meta.json")
    if os.path.exists(p):
        try:
            return json.load(open(p))
        except Exception:
            return None
    return None


def replay(rp):
    torch.set_num_threads(1)
    meta = fallback_meta() or regenerate()
    cs = rp.get("case") or (rp.get("replay") or {}).get("case")
    if not cs:
        print("nothing to replay (obligation-level record):", json.dumps(rp)[:600])
        return 1
    c = run_case(meta, cs["expr"], cs["src"], cs["default_dtype"], cs["requires_grad"], tuple(cs["query"]), heavy=True,
                 defdt0=cs.get("construction_default_dtype"), mixed=cs.get("mixed", False))
    torch.set_default_dtype(torch.float32)
    print("operator:", describe(c.e), " data dtype", c.src, " default dtype", c.defdt,
          "(constructed under %s)" % c.defdt0 if c.defdt0 else "", " query", c.q)
    print("raised:" if c.exc else "returned:", c.exc or (lit(c.obs) if isinstance(c.obs, tuple) else c.obs))
    for f in c.fails:
        print("property failure:", json.dumps(f))
    if not c.fails:
        print("property holds on this case")
    if in_model(c):
        ctx = common.Ctx(PROP, "quick", 0)
        res = common.run_shards(ctx, [("replay", shard_src([c]))])
        two = parse_two_lists(res["replay"][1]) if res["replay"][0] == 0 else None
        if two and two[2]:
            print("the structural specification Conv.conv DISAGREES with the implementation")
        print("model agrees with the implementation" if two and not two[0] else "model DISAGREES with the implementation", two)
    return 1 if c.fails else 0
