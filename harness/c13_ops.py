"""C13 — validation of what the ownership translator TRUSTS about torch, against the running torch.

1. torch_ops.json: every listed tensor method / torch function that has a recipe below is called on receivers in
   four layouts (contiguous, expanded / stride-0, transposed view, slice sharing storage with guard data) and the
   observed behaviour (does the result share storage with the receiver / with another operand, is it the same object,
   were _version / bytes / metadata of receiver and other operand changed) is written into a Coq shard where
   `Check.permits <class> <observation>` decides whether the class the translator assumes permits it.
2. closure assumption: `_matmul`, `_t_matmul`, `matmul`, `solve`, ... of every operator class and every
   preconditioner closure the library builds return fresh memory or memory of their ARGUMENT, never the operator's
   own tensors (checked here directly, by storage overlap).
"""
import json
import os

import torch

HERE = os.path.dirname(os.path.abspath(__file__))

LAYOUTS = ["contiguous", "expanded", "transposed", "slice"]


def layout(x, lay):
    """(view, owner): a tensor with the values/shape of x (expanded: constant along the last dim) in the given layout"""
    x = x.clone()
    if lay == "contiguous" or x.dim() == 0:
        return x, x.detach()        # the owner is a separate tensor OBJECT over the same storage (metadata-in-place ops on x leave it alone)
    if lay == "expanded":
        own = x[..., :1].contiguous()
        return own.expand(x.shape), own
    if lay == "transposed":
        if x.dim() >= 2:
            own = x.mT.contiguous()
            return own.mT, own
        own = torch.zeros(2 * x.shape[0], dtype=x.dtype)
        v = own[::2]
        v.copy_(x)
        return v, own
    if lay == "slice":
        shp = list(x.shape)
        shp[-1] += 2
        shp[0] += 1 if x.dim() >= 2 else 0
        own = torch.full(shp, 7, dtype=x.dtype)
        v = own[1:, ..., 1:-1] if x.dim() >= 2 else own[1:-1]
        v.copy_(x)
        return v, own
    raise ValueError(lay)


def storage_range(t):
    if not isinstance(t, torch.Tensor) or t.is_sparse or t.numel() == 0:
        return None
    try:
        base = t.untyped_storage().data_ptr()
    except Exception:
        return None
    es = t.element_size()
    lo = t.storage_offset()
    hi = lo + sum((s - 1) * st for s, st in zip(t.shape, t.stride())) if t.dim() else lo
    return (base, base + lo * es, base + (hi + 1) * es)


def overlaps(a, b):
    """do tensors a and b share the same underlying storage (conservative: same storage object)"""
    ra, rb = storage_range(a), storage_range(b)
    if ra is None or rb is None:
        return False
    return ra[0] == rb[0] and ra[0] != 0


def tensors_in(r, depth=0):
    if type(r).__module__ == "numpy" and hasattr(r, "__array_interface__"):
        try:
            yield torch.from_numpy(r)        # shares memory with the array
        except Exception:
            pass
        return
    if isinstance(r, torch.Tensor):
        if r.is_sparse:
            yield r._indices()
            yield r._values()
        else:
            yield r
    elif isinstance(r, (tuple, list)) and depth < 3:
        for x in r:
            yield from tensors_in(x, depth + 1)
    elif hasattr(r, "_fields") or (hasattr(r, "__iter__") and type(r).__module__.startswith("torch.return_types")):
        for x in r:
            yield from tensors_in(x, depth + 1)


def raw(t):
    return t.reshape(-1).clone() if t.dim() == 0 else t.clone()


def same_bytes(a, b):
    if a.shape != b.shape or a.dtype != b.dtype:
        return False
    if a.is_floating_point():
        return bool(((a == b) | (a.isnan() & b.isnan())).all())
    return bool(torch.equal(a, b))


def meta(t):
    return (tuple(t.shape), tuple(t.stride()), t.storage_offset())


# ------------------------------------------------------------------------------------------------
# recipes:  name -> (kind of receiver, lambda x, o: call).   x: receiver (float (3,4) unless noted), o: another tensor

def _spd(x):
    m = x[..., :3, :3]
    return m @ m.mT + 3 * torch.eye(3, dtype=x.dtype)


F = {}      # methods
G = {}      # torch functions

_un = ["abs", "neg", "sqrt", "rsqrt", "exp", "log", "log1p", "sign", "reciprocal", "floor", "ceil", "round", "trunc", "sin", "cos", "tanh",
       "sigmoid", "erf", "lgamma", "square", "isnan", "isinf", "isfinite", "bool", "long", "int", "logical_not", "clone", "nonzero",
       "any", "all", "sum", "prod", "mean", "std", "var", "max", "min", "amax", "amin", "norm", "argmax", "argmin", "median", "nansum",
       "count_nonzero", "unique", "tril", "triu", "diag_embed", "pinverse", "trace", "tolist", "flatten", "ravel", "contiguous",
       "float", "double", "half", "cpu", "detach", "t", "squeeze", "conj", "resolve_conj", "unbind", "adjoint", "item0", "logdet0"]
for _m in _un:
    if hasattr(torch.Tensor, _m):
        F[_m] = (lambda m: (lambda x, o: getattr(x, m)()))(_m)
_bin = ["add", "sub", "mul", "div", "lt", "le", "gt", "ge", "eq", "ne", "fmod", "remainder", "pow", "divide", "multiply", "subtract",
        "true_divide", "floor_divide", "logical_and", "logical_or", "dist", "type_as", "expand_as", "view_as", "reshape_as", "isclose",
        "allclose", "equal", "where_"]
for _m in _bin:
    if hasattr(torch.Tensor, _m):
        F[_m] = (lambda m: (lambda x, o: getattr(x, m)(o)))(_m)
F.update({
    "sum": lambda x, o: x.sum(-1), "mean": lambda x, o: x.mean(-1), "max": lambda x, o: x.max(-1), "min": lambda x, o: x.min(-1),
    "prod": lambda x, o: x.prod(-1), "norm": lambda x, o: x.norm(2, dim=-1, keepdim=True), "cumsum": lambda x, o: x.cumsum(-1),
    "cumprod": lambda x, o: x.cumprod(-1), "logsumexp": lambda x, o: x.logsumexp(-1), "softmax": lambda x, o: x.softmax(-1),
    "sort": lambda x, o: x.sort(-1), "argsort": lambda x, o: x.argsort(-1), "topk": lambda x, o: x.topk(2, -1),
    "kthvalue": lambda x, o: x.kthvalue(1, -1), "mode": lambda x, o: x.mode(-1),
    "clamp": lambda x, o: x.clamp(-1, 1), "clamp_min": lambda x, o: x.clamp_min(0.5), "clamp_max": lambda x, o: x.clamp_max(0.5),
    "matmul": lambda x, o: x.matmul(o.mT), "mm": lambda x, o: x.mm(o.mT), "bmm": lambda x, o: x.unsqueeze(0).bmm(o.mT.unsqueeze(0)),
    "mv": lambda x, o: x.mv(o[0]), "dot": lambda x, o: x[0].dot(o[0]), "outer": lambda x, o: x[0].outer(o[0]),
    "kron": lambda x, o: x.kron(o), "cross": lambda x, o: x[:, :3].cross(o[:, :3], dim=-1),
    "index_select": lambda x, o: x.index_select(-1, torch.tensor([0, 2])), "gather": lambda x, o: x.gather(-1, torch.zeros(3, 2, dtype=torch.long)),
    "masked_fill": lambda x, o: x.masked_fill(o > 0, 1.0), "masked_select": lambda x, o: x.masked_select(o > 0),
    "masked_scatter": lambda x, o: x.masked_scatter(o > 0, o),
    "scatter": lambda x, o: x.scatter(-1, torch.zeros(3, 1, dtype=torch.long), o[:, :1]),
    "scatter_add": lambda x, o: x.scatter_add(-1, torch.zeros(3, 1, dtype=torch.long), o[:, :1]),
    "index_add": lambda x, o: x.index_add(-1, torch.tensor([0]), o[:, :1]), "index_fill": lambda x, o: x.index_fill(-1, torch.tensor([0]), 1.0),
    "index_copy": lambda x, o: x.index_copy(-1, torch.tensor([0]), o[:, :1]),
    "new_zeros": lambda x, o: x.new_zeros(2), "new_ones": lambda x, o: x.new_ones(2), "new_empty": lambda x, o: x.new_empty(2),
    "new_full": lambda x, o: x.new_full((2,), 1.0), "new_tensor": lambda x, o: x.new_tensor([1.0]),
    "repeat": lambda x, o: x.repeat(1, 1), "repeat_interleave": lambda x, o: x.repeat_interleave(1, -1), "tile": lambda x, o: x.tile((1, 1)),
    "roll": lambda x, o: x.roll(1, -1), "flip": lambda x, o: x.flip(-1),
    "cholesky": lambda x, o: _spd(x).cholesky() if False else torch.linalg.cholesky(_spd(x)),
    "inverse": lambda x, o: _spd(x).inverse(), "logdet": lambda x, o: _spd(x).logdet(), "det": lambda x, o: _spd(x).det(),
    "qr": lambda x, o: torch.linalg.qr(x), "svd": lambda x, o: x.svd(), "cholesky_solve": lambda x, o: x[:, :2].cholesky_solve(torch.linalg.cholesky(_spd(o))),
    "triangular_solve": lambda x, o: x[:, :2].triangular_solve(torch.linalg.cholesky(_spd(o)), upper=False),
    "addcmul": lambda x, o: x.addcmul(o, o), "addcdiv": lambda x, o: x.addcdiv(o, o.abs() + 1), "addmm": lambda x, o: x.addmm(o, torch.eye(4, dtype=o.dtype)),
    "baddbmm": lambda x, o: x.unsqueeze(0).baddbmm(o.unsqueeze(0), torch.eye(4, dtype=o.dtype).unsqueeze(0)),
    "where": lambda x, o: x.where(o > 0, o), "to": lambda x, o: x.to(x.dtype), "to_other_dtype": lambda x, o: x.to(torch.float32 if x.dtype == torch.float64 else torch.float64),
    "type": lambda x, o: x.type(x.dtype), "type_other": lambda x, o: x.type(torch.float32 if x.dtype == torch.float64 else torch.float64),
    "reshape": lambda x, o: x.reshape(-1), "reshape_same": lambda x, o: x.reshape(x.shape), "view": lambda x, o: x.view(x.shape),
    "expand": lambda x, o: x.unsqueeze(0).expand(2, *x.shape), "transpose": lambda x, o: x.transpose(-1, -2), "permute": lambda x, o: x.permute(1, 0),
    "unsqueeze": lambda x, o: x.unsqueeze(0), "narrow": lambda x, o: x.narrow(-1, 0, 2), "select": lambda x, o: x.select(0, 1),
    "diagonal": lambda x, o: x.diagonal(dim1=-1, dim2=-2), "chunk": lambda x, o: x.chunk(2, -1), "split": lambda x, o: x.split(2, -1),
    "unfold": lambda x, o: x.unfold(-1, 2, 1), "as_strided": lambda x, o: x.as_strided((2, 2), (x.stride(0), x.stride(1))),
    "movedim": lambda x, o: x.movedim(0, 1), "moveaxis": lambda x, o: x.moveaxis(0, 1), "swapaxes": lambda x, o: x.swapaxes(0, 1),
    "swapdims": lambda x, o: x.swapdims(0, 1), "broadcast_to": lambda x, o: x.broadcast_to(2, *x.shape), "tensor_split": lambda x, o: x.tensor_split(2, -1),
    "hsplit": lambda x, o: x.hsplit(2), "vsplit": lambda x, o: x.vsplit(3), "unflatten": lambda x, o: x.unflatten(-1, (2, 2)),
    "numpy": lambda x, o: x.numpy(),
    # in place (receiver written)
    "add_": lambda x, o: x.add_(o), "sub_": lambda x, o: x.sub_(o), "mul_": lambda x, o: x.mul_(o), "div_": lambda x, o: x.div_(o.abs() + 1),
    "addcmul_": lambda x, o: x.addcmul_(o, o), "clamp_min_": lambda x, o: x.clamp_min_(0.5), "copy_": lambda x, o: x.copy_(o),
    "fill_": lambda x, o: x.fill_(2.0), "masked_fill_": lambda x, o: x.masked_fill_(o > 0, 1.0), "sqrt_": lambda x, o: x.abs_().sqrt_(),
    "zero_": lambda x, o: x.zero_(), "scatter_": lambda x, o: x.scatter_(-1, torch.zeros(3, 1, dtype=torch.long), o[:, :1]),
    # metadata in place
    "unsqueeze_": lambda x, o: x.unsqueeze_(0), "squeeze_": lambda x, o: x.unsqueeze_(0).squeeze_(0) if False else x.squeeze_(), "transpose_": lambda x, o: x.transpose_(-1, -2),
    "t_": lambda x, o: x.t_(), "resize_": lambda x, o: x.resize_(2, 1), "resize_as_": lambda x, o: x.resize_as_(o[:1]),
    "swapaxes_": lambda x, o: x.swapaxes_(0, 1), "swapdims_": lambda x, o: x.swapdims_(0, 1), "as_strided_": lambda x, o: x.as_strided_((2, 2), (x.stride(0), x.stride(1))),
    # value preserving
    "detach_": lambda x, o: x.detach_(), "requires_grad_": lambda x, o: x.requires_grad_(True),
    # sparse accessors
    "_indices": lambda x, o: x.to_sparse()._indices(), "_values": lambda x, o: x.to_sparse()._values(),
})
for _k in ("item0", "logdet0", "where_"):
    F.pop(_k, None)

_f1 = ["abs", "neg", "sqrt", "rsqrt", "exp", "log", "sign", "reciprocal", "isnan", "isinf", "isfinite", "any", "all", "sum", "prod", "mean",
       "max", "min", "amax", "amin", "norm", "argmax", "argmin", "nonzero", "tril", "triu", "diag_embed", "pinverse", "trace", "clone",
       "square", "logical_not", "floor", "ceil", "round", "tanh", "sigmoid", "sin", "cos", "lgamma", "erf", "median", "std", "var", "count_nonzero",
       "unique", "zeros_like", "ones_like", "empty_like", "randn_like", "rand_like", "numel", "is_tensor", "is_floating_point", "tensor",
       "squeeze", "t", "detach", "ravel", "flatten", "atleast_1d", "atleast_2d", "atleast_3d", "unbind", "real", "adjoint", "as_tensor"]
for _m in _f1:
    if hasattr(torch, _m):
        G[_m] = (lambda m: (lambda x, o: getattr(torch, m)(x)))(_m)
_f2 = ["add", "sub", "mul", "div", "lt", "le", "gt", "ge", "eq", "ne", "pow", "fmod", "remainder", "minimum", "maximum", "true_divide", "floor_divide",
       "logical_and", "logical_or", "rsub", "equal", "allclose", "isclose", "kron"]
for _m in _f2:
    if hasattr(torch, _m):
        G[_m] = (lambda m: (lambda x, o: getattr(torch, m)(x, o)))(_m)
G.update({
    "cat": lambda x, o: torch.cat([x, o], -1), "cat_single": lambda x, o: torch.cat([x], -1), "stack": lambda x, o: torch.stack([x, o], 0),
    "hstack": lambda x, o: torch.hstack([x, o]), "vstack": lambda x, o: torch.vstack([x, o]),
    "where": lambda x, o: torch.where(o > 0, x, o), "einsum": lambda x, o: torch.einsum("ij,kj->ik", x, o),
    "matmul": lambda x, o: torch.matmul(x, o.mT), "mm": lambda x, o: torch.mm(x, o.mT), "bmm": lambda x, o: torch.bmm(x.unsqueeze(0), o.mT.unsqueeze(0)),
    "mv": lambda x, o: torch.mv(x, o[0]), "dot": lambda x, o: torch.dot(x[0], o[0]), "outer": lambda x, o: torch.outer(x[0], o[0]), "ger": lambda x, o: torch.ger(x[0], o[0]),
    "cumsum": lambda x, o: torch.cumsum(x, -1), "index_select": lambda x, o: torch.index_select(x, -1, torch.tensor([0, 2])),
    "gather": lambda x, o: torch.gather(x, -1, torch.zeros(3, 2, dtype=torch.long)), "masked_select": lambda x, o: torch.masked_select(x, o > 0),
    "sort": lambda x, o: torch.sort(x, -1), "argsort": lambda x, o: torch.argsort(x, -1), "topk": lambda x, o: torch.topk(x, 2, -1),
    "clamp": lambda x, o: torch.clamp(x, -1, 1), "diag": lambda x, o: torch.diag(x[0]),
    "cholesky": lambda x, o: torch.linalg.cholesky(_spd(x)), "linalg.cholesky": lambda x, o: torch.linalg.cholesky(_spd(x)),
    "cholesky_ex": lambda x, o: torch.linalg.cholesky_ex(_spd(x)), "linalg.cholesky_ex": lambda x, o: torch.linalg.cholesky_ex(_spd(x)),
    "cholesky_solve": lambda x, o: torch.cholesky_solve(x[:, :2], torch.linalg.cholesky(_spd(o))),
    "cholesky_inverse": lambda x, o: torch.cholesky_inverse(torch.linalg.cholesky(_spd(x))),
    "triangular_solve": lambda x, o: torch.triangular_solve(x[:, :2], torch.linalg.cholesky(_spd(o)), upper=False),
    "solve_triangular": lambda x, o: torch.linalg.solve_triangular(torch.linalg.cholesky(_spd(o)), x[:, :2], upper=False),
    "linalg.solve_triangular": lambda x, o: torch.linalg.solve_triangular(torch.linalg.cholesky(_spd(o)), x[:, :2], upper=False),
    "linalg.solve": lambda x, o: torch.linalg.solve(_spd(x), o[:, :2]), "solve": lambda x, o: torch.linalg.solve(_spd(x), o[:, :2]),
    "lstsq": lambda x, o: torch.linalg.lstsq(_spd(x), o[:, :2]),
    "qr": lambda x, o: torch.linalg.qr(x), "linalg.qr": lambda x, o: torch.linalg.qr(x), "svd": lambda x, o: torch.svd(x), "linalg.svd": lambda x, o: torch.linalg.svd(x),
    "eigh": lambda x, o: torch.linalg.eigh(_spd(x)), "linalg.eigh": lambda x, o: torch.linalg.eigh(_spd(x)), "eigvalsh": lambda x, o: torch.linalg.eigvalsh(_spd(x)),
    "linalg.eigvalsh": lambda x, o: torch.linalg.eigvalsh(_spd(x)), "inv": lambda x, o: torch.linalg.inv(_spd(x)), "linalg.inv": lambda x, o: torch.linalg.inv(_spd(x)),
    "inverse": lambda x, o: torch.inverse(_spd(x)), "pinv": lambda x, o: torch.linalg.pinv(x), "linalg.pinv": lambda x, o: torch.linalg.pinv(x),
    "logdet": lambda x, o: torch.logdet(_spd(x)), "slogdet": lambda x, o: torch.slogdet(_spd(x)), "linalg.slogdet": lambda x, o: torch.linalg.slogdet(_spd(x)),
    "det": lambda x, o: torch.det(_spd(x)), "linalg.det": lambda x, o: torch.linalg.det(_spd(x)), "linalg.norm": lambda x, o: torch.linalg.norm(x),
    "linalg.matrix_norm": lambda x, o: torch.linalg.matrix_norm(x), "linalg.vector_norm": lambda x, o: torch.linalg.vector_norm(x),
    "addcmul": lambda x, o: torch.addcmul(x, o, o), "addcdiv": lambda x, o: torch.addcdiv(x, o, o.abs() + 1), "addmm": lambda x, o: torch.addmm(x, o, torch.eye(4, dtype=o.dtype)),
    "baddbmm": lambda x, o: torch.baddbmm(x.unsqueeze(0), o.unsqueeze(0), torch.eye(4, dtype=o.dtype).unsqueeze(0)),
    "full_like": lambda x, o: torch.full_like(x, 1.0), "fft.fft": lambda x, o: torch.fft.fft(x), "fft.ifft": lambda x, o: torch.fft.ifft(x),
    "fft.rfft": lambda x, o: torch.fft.rfft(x), "fft.irfft": lambda x, o: torch.fft.irfft(x),
    "repeat_interleave": lambda x, o: torch.repeat_interleave(x, 1, -1), "scatter": lambda x, o: torch.scatter(x, -1, torch.zeros(3, 1, dtype=torch.long), o[:, :1]),
    "scatter_add": lambda x, o: torch.scatter_add(x, -1, torch.zeros(3, 1, dtype=torch.long), o[:, :1]),
    "index_add": lambda x, o: torch.index_add(x, -1, torch.tensor([0]), o[:, :1]), "logsumexp": lambda x, o: torch.logsumexp(x, -1),
    "softmax": lambda x, o: torch.softmax(x, -1), "lerp": lambda x, o: torch.lerp(x, o, 0.5), "flip": lambda x, o: torch.flip(x, [-1]), "roll": lambda x, o: torch.roll(x, 1, -1),
    "bucketize": lambda x, o: torch.bucketize(x, torch.tensor([0.0, 1.0], dtype=x.dtype)), "searchsorted": lambda x, o: torch.searchsorted(torch.tensor([0.0, 1.0], dtype=x.dtype), x.contiguous()),
    "matrix_exp": lambda x, o: torch.matrix_exp(_spd(x) * 0.1), "bernoulli": lambda x, o: torch.bernoulli(x.abs().clamp(0, 1)),
    "normal": lambda x, o: torch.normal(x, 1.0), "chain_matmul": lambda x, o: torch.linalg.multi_dot([x, o.mT]),
    "dsmm": lambda x, o: torch.dsmm(x.to_sparse(), o.mT.contiguous()),
    "broadcast_shapes": lambda x, o: torch.broadcast_shapes(x.shape, o.shape), "Size": lambda x, o: torch.Size(x.shape),
    # view functions (result may alias ANY operand)
    "transpose": lambda x, o: torch.transpose(x, -1, -2), "unsqueeze": lambda x, o: torch.unsqueeze(x, 0), "narrow": lambda x, o: torch.narrow(x, -1, 0, 2),
    "diagonal": lambda x, o: torch.diagonal(x, dim1=-1, dim2=-2), "broadcast_tensors": lambda x, o: torch.broadcast_tensors(x, o[:1]),
    "as_strided": lambda x, o: torch.as_strided(x, (2, 2), (x.stride(0), x.stride(1))), "chunk": lambda x, o: torch.chunk(x, 2, -1),
    "split": lambda x, o: torch.split(x, 2, -1), "select": lambda x, o: torch.select(x, 0, 1), "movedim": lambda x, o: torch.movedim(x, 0, 1),
    "swapaxes": lambda x, o: torch.swapaxes(x, 0, 1), "permute": lambda x, o: torch.permute(x, (1, 0)), "reshape": lambda x, o: torch.reshape(x, (-1,)),
    "meshgrid": lambda x, o: torch.meshgrid(x[0], o[0], indexing="ij"), "tensor_split": lambda x, o: torch.tensor_split(x, 2, -1),
    "sparse_coo_tensor": lambda x, o: torch.sparse_coo_tensor(torch.tensor([[0, 1, 2], [0, 1, 2]]), x[:, 0], (3, 3)),
    "from_numpy": lambda x, o: torch.from_numpy(x.contiguous().numpy()) if False else None,
    "view_as_real": lambda x, o: None,
})
G = {k: v for k, v in G.items() if k not in ("from_numpy", "view_as_real")}


def classes(ops):
    """name -> Coq class for methods and functions, as the translator reads torch_ops.json"""
    cm, cf = {}, {}
    for m in ops["fresh_methods"]:
        cm[m] = "KFresh"
    for m in ops["view_methods"]:
        cm[m] = "KView"
    for m in ops["maybe_view_methods"]:
        cm[m] = "KMaybeView"
    for m in ops["metadata_inplace_methods"]:
        cm[m] = "KMetaInPlace"
    for m in ops["value_preserving_inplace"]:
        cm[m] = "KValuePres"
    for m in ops["fresh_functions"]:
        cf[m] = "KFresh"
    for m in ops["view_functions"]:
        cf[m] = "KAnyOperand"
    return cm, cf


def observe(fn, lay, dtype, recv_shape=(3, 4)):
    """call fn(x, o) with receiver x in layout `lay`; returns the observation tuple of booleans (Check.mk order) or None if it raised"""
    g = torch.Generator().manual_seed(5)
    base = torch.randn(*recv_shape, generator=g, dtype=torch.float64).to(dtype)
    other = torch.randn(*recv_shape, generator=g, dtype=torch.float64).to(dtype)
    x, xo = layout(base, lay)
    o, oo = layout(other, "slice")
    vx, vo = x._version, o._version
    bx, bo = raw(xo), raw(oo)
    mx = meta(x)
    try:
        r = fn(x, o)
    except Exception as ex:
        return None, repr(ex)[:80]
    res = list(tensors_in(r))
    ov_recv = any(overlaps(t, xo) for t in res)
    ov_other = any(overlaps(t, oo) for t in res)
    same_obj = any(t is x for t in res)
    return (ov_recv, ov_other, same_obj, x._version != vx, o._version != vo, not same_bytes(raw(xo), bx),
            not same_bytes(raw(oo), bo), meta(x) != mx), None


def table_observations(ops, used=None):
    """all (name, kind, class, layout, dtype, observation) for the recipes; plus the lists of unvalidated names"""
    cm, cf = classes(ops)
    rows, raised = [], []
    for kind, recipes, cl in (("method", F, cm), ("function", G, cf)):
        for name in sorted(recipes):
            base = {"reshape_same": "reshape", "to_other_dtype": "to", "type_other": "type", "cat_single": "cat"}.get(name, name)
            c = cl.get(base)
            if c is None and kind == "method" and base.endswith("_") and not base.endswith("__"):
                c = "KInPlace"
            if c is None:
                continue
            for lay in LAYOUTS:
                for dt in (torch.float64,):
                    ob, err = observe(recipes[name], lay, dt)
                    if ob is None:
                        raised.append((kind, name, lay, err))
                        continue
                    rows.append({"name": base, "recipe": name, "kind": kind, "cls": c, "layout": lay, "obs": ob})
    validated_m = {r["name"] for r in rows if r["kind"] == "method"}
    validated_f = {r["name"] for r in rows if r["kind"] == "function"}
    return rows, raised, validated_m, validated_f


def shard_source(rows):
    def b(x):
        return "true" if x else "false"
    items = ["(%s, mk %s)" % (r["cls"], " ".join(b(x) for x in r["obs"])) for r in rows]
    return ("From Coq Require Import List Bool.\nImport ListNotations.\nRequire Import C13.Own C13.Check.\n"
            "Definition cases : list (cls * obs) := [\n %s].\nEval vm_compute in (bad_cases cases 0).\n" % ";\n ".join(items))


def new_object_violations(ops):
    """methods the translator assumes to return a NEW tensor object (never the receiver itself)"""
    bad = []
    for name in ops.get("new_object_methods", []) + ops["view_methods"] + ops["fresh_methods"]:
        fn = F.get(name)
        if fn is None:
            continue
        for lay in LAYOUTS:
            for shape in ((3, 4), (4,)):
                try:
                    ob, err = observe(fn, lay, torch.float64, shape)
                except Exception:
                    continue
                if ob is not None and ob[2]:
                    bad.append((name, lay, shape))
    return bad
