"""C12 — cached results are transparent: answers do not depend on query history.

proof    : coq/C12/Property.v over  gen/Memoize.v (translated from linear_operator/utils/memoize.py on every run),
           Model.v (query/derivation state machine), Proofs.v (history invariant), Algebra.v (transplant algebra)
tie      : translator memoize.py -> Gallina  +  correspondence: event histories on the real operator objects;
           after every event the ordered key list of every object's _memoize_cache, raised-or-not, the validity of
           the answer (oracle: plain torch against the dense matrix and the same query on a fresh clone) and the set
           of invalid cache entries are compared with the symbolic run of the model (Check.v, vm_compute)
search   : the same histories (wider alphabet, more classes) checked directly against the property
"""
import itertools
import json
import os
import random
import re
import sys
import time
import traceback
from concurrent.futures import ProcessPoolExecutor

from . import common, c12_memo_tr

PROP = "C12"
TOL = 1e-4
NONE = ["none"]


def S(x):
    return ["str", x]


def B(x):
    return ["bool", x]


# ------------------------------------------------------------------------------------------ regenerate

def regenerate():
    gen = os.path.join(common.COQ, PROP, "gen")
    os.makedirs(gen, exist_ok=True)
    code, meta = c12_memo_tr.translate(common.REPO)
    p = os.path.join(gen, "Memoize.v")
    if not os.path.exists(p) or open(p).read() != code:
        open(p, "w").write(code)
    fcode, fl = c12_memo_tr.source_flags(common.REPO)
    p = os.path.join(gen, "SourceFlags.v")
    if not os.path.exists(p) or open(p).read() != fcode:
        open(p, "w").write(fcode)
    meta["flags"] = fl
    scode, sites = c12_memo_tr.cache_sites(common.REPO)
    p = os.path.join(gen, "CacheSites.v")
    if not os.path.exists(p) or open(p).read() != scode:
        open(p, "w").write(scode)
    meta["sites"] = {k: len(v) for k, v in sites.items()}
    return meta


# ------------------------------------------------------------------------------------------ alphabets

ST_DEFAULT = {"max_chol": 800, "fc_root": True, "fc_logprob": True, "fc_solves": True, "ciq": False,
              "precond_size": 15, "min_precond": 2000, "max_root": 100}


def st(**kw):
    d = dict(ST_DEFAULT)
    d.update(kw)
    return d


SETTINGS = [st(), st(max_chol=0), st(max_chol=0, fc_root=False, fc_logprob=False, fc_solves=False),
            st(ciq=True), st(max_chol=0, min_precond=1), st(max_chol=0, min_precond=1, precond_size=2),
            st(max_chol=0, fc_root=False)]

Q_CORE = [
    ["to_dense"], ["cholesky", [], []], ["cholesky", [], [["upper", B(True)]]],
    ["root_decomposition", [], []], ["root_inv_decomposition", [], []], ["diagonalization", [], []],
    ["svd"], ["eigh"], ["eigvalsh"], ["solve", 0], ["logdet"], ["inv_quad_logdet", 0, True], ["diagonal"],
    ["precond"], ["sample", 0],
]
D_CORE = [
    ["add_jitter", 0], ["add_diagonal", 0], ["add_low_rank", 0, NONE, NONE, True], ["cat_rows", 0, 0, True, True],
    ["getitem", 0], ["transpose"], ["scale", 0], ["expand", 0],
]
MODEL_DERIVS = {"add_jitter", "add_diagonal", "add_low_rank", "cat_rows", "getitem", "transpose", "scale", "expand"}
# derivations that keep (or may keep) child operator objects of self: the derived operator shares them with self
D_SHARE = [["add_jitter", 0], ["add_diagonal", 0], ["add_diag_op", 1], ["scale", 0], ["getitem", 0], ["transpose"], ["expand", 0],
           ["repeat"], ["clone"], ["detach"], ["rebuild"], ["sibling"], ["batch_index", 0], ["batch_index", 1], ["batch_index", 2],
           ["batch_index", 3]]
DA_WRITERS = [["solve", 0], ["logdet"], ["inv_quad_logdet", 0, True], ["diagonal"], ["cholesky", [], []],
              ["root_decomposition", [], []], ["svd"], ["to_dense"]]
DA_READERS = [["solve", 0], ["logdet"], ["inv_quad_logdet", 1, True], ["diagonal"], ["to_dense"]]
DA_MAIN = ("LowRankRootAddedDiag", "Kernel[3]", "KronAddedDiag", "AddedDiag(Dense,ConstantDiag)", "Dense")


def derive_after_queries(label, quick):
    """query the parent through each cached entry point, derive an operator that shares child objects with it, query the
    DERIVED operator (compared with the dense value and a fresh, never-queried equal operator)"""
    batched = "[" in label or label.startswith(("Kernel", "BlockDiag", "BatchRepeat"))
    ders = [d for d in D_SHARE if d[0] != "batch_index" or batched]
    ws = DA_WRITERS if not quick or label in DA_MAIN else DA_WRITERS[:4] + DA_WRITERS[6:]
    out = []
    for w_ in ws:
        for d in ders:
            for r in DA_READERS:
                out.append([("q", w_, False), ("d", d, False), ("q", r, False)])
    return out


METHODS = ["cholesky", "symeig", "diagonalization", "svd", "lanczos", "pivoted_cholesky"]
INV_METHODS = ["cholesky", "symeig", "diagonalization", "svd", "lanczos", "pinverse"]
Q_WIDE = (Q_CORE
          + [["cholesky", [B(True)], []], ["cholesky", [], [["upper", B(False)]]], ["cholesky", [B(False)], []]]
          + [["root_decomposition", [], [["method", S(m)]]] for m in METHODS]
          + [["root_decomposition", [S("symeig")], []], ["root_decomposition", [], [["method", NONE]]],
             ["root_decomposition", [S("cholesky")], []], ["root_decomposition", [], [["method", S("bogus")]]]]
          + [["root_inv_decomposition", [], [["method", S(m)]]] for m in INV_METHODS]
          + [["root_inv_decomposition", [], [["method", NONE]]], ["root_inv_decomposition", [NONE, NONE, S("symeig")], []],
             ["root_inv_decomposition", [], [["initial_vectors", NONE], ["method", S("cholesky")]]]]
          + [["diagonalization", [], [["method", S("lanczos")]]], ["diagonalization", [], [["method", S("symeig")]]],
             ["diagonalization", [S("symeig")], []]]
          + [["solve", 1], ["inv_quad_logdet", 1, False], ["inv_quad_logdet", 0, False], ["sample", 1]])
D_WIDE = (D_CORE
          + [["add_low_rank", 1, S(a), S(b), True] for a in ("cholesky", "symeig", "lanczos") for b in ("cholesky", "symeig", "lanczos")]
          + [["add_low_rank", 0, NONE, NONE, False], ["add_low_rank", 1, S("svd"), S("svd"), True],
             ["add_low_rank", 0, S("diagonalization"), S("diagonalization"), True],
             ["add_low_rank", 0, S("pivoted_cholesky"), S("cholesky"), True],
             ["add_low_rank", 1, S("symeig"), S("pinverse"), True]]
          + [["cat_rows", 1, 1, True, False], ["cat_rows", 0, 0, False, False], ["cat_rows", 1, 1, False, True]]
          + [["add_jitter", 1], ["add_diagonal", 1], ["getitem", 1], ["scale", 1]])


# settings regimes of the structured settings-switch families (a cache written under one regime is read under another)
REGIMES = {"default": st(), "chol0": st(max_chol=0), "cg": st(max_chol=0, min_precond=1),
           "cg2": st(max_chol=0, min_precond=1, precond_size=2),
           "nofast": st(max_chol=0, fc_root=False, fc_logprob=False, fc_solves=False), "ciq": st(ciq=True),
           "chol0_noroot": st(max_chol=0, fc_root=False)}
SW_WRITERS = [["cholesky", [], []], ["root_decomposition", [], []], ["root_inv_decomposition", [], []],
              ["diagonalization", [], []], ["svd"], ["sample", 0], ["logdet"], ["precond"], ["inv_quad_logdet", 0, True]]
SW_READERS = [["root_decomposition", [], []], ["root_inv_decomposition", [], []], ["logdet"], ["inv_quad_logdet", 0, True],
              ["sample", 0], ["precond"], ["solve", 0], ["cholesky", [], [["upper", B(True)]]]]
SW_PRECOND = [["precond"], ["logdet"], ["inv_quad_logdet", 0, True], ["solve", 0]]
SW_DERIVS = [["add_low_rank", 0, NONE, NONE, True], ["cat_rows", 0, 0, True, True], ["add_jitter", 0]]


def switch_histories(label, quick):
    """structured families in which the settings change between the call that writes a cache (in the dict or outside
    it) and the call that reads it, with or without a derivation in between; deterministic"""
    out = []
    H = lambda *evs: out.append(list(evs))                                       # noqa: E731
    S_ = lambda r: ("set", REGIMES[r], False)                                     # noqa: E731
    Q_ = lambda q: ("q", q, False)                                                # noqa: E731
    D_ = lambda d: ("d", d, False)                                                # noqa: E731
    if label in ("Dense", "AddedDiag(Dense,ConstantDiag)"):
        regs = ["default", "chol0", "cg", "cg2"] if quick else list(REGIMES)
        for a in regs:
            for b in regs:
                if a == b:
                    continue
                for w in SW_WRITERS:
                    for r in SW_READERS:
                        H(S_(a), Q_(w), S_(b), Q_(r))
        # a cache written under a non-default regime, a derivation, a query on the derived operator
        for a in (["chol0"] if label == "Dense" else ["cg", "cg2"]) + ([] if quick else ["nofast", "chol0_noroot"]):
            for w in SW_WRITERS:
                for d in ([D_CORE[0], D_CORE[2], D_CORE[3], D_CORE[4]] if quick else D_CORE):
                    for r in SW_READERS:
                        H(S_(a), Q_(w), D_(d), Q_(r))
        # ... and with the switch between the write and the derivation
        pairs = [("default", "chol0"), ("chol0", "default")] if label == "Dense" else [("cg", "cg2"), ("cg2", "cg")]
        if not quick:
            pairs = [("default", "chol0"), ("chol0", "default"), ("cg", "cg2"), ("cg2", "cg"),
                     ("default", "cg"), ("cg", "default"), ("nofast", "default"), ("default", "nofast")]
        for a, b in pairs:
            for w in SW_WRITERS:
                for d in SW_DERIVS:
                    for r in SW_READERS:
                        H(S_(a), Q_(w), S_(b), D_(d), Q_(r))
    elif label == "AddedDiag(Dense,Diag)":
        regs = ["default", "chol0", "cg", "cg2"]
        for a in regs:
            for b in regs:
                if a == b:
                    continue
                for w in SW_PRECOND:
                    for r in SW_PRECOND:
                        H(S_(a), Q_(w), S_(b), Q_(r))
        for a in ("cg", "cg2"):
            for w in SW_PRECOND:
                for d in D_CORE:
                    for r in SW_PRECOND:
                        H(S_(a), Q_(w), D_(d), Q_(r))
    return out


# a writer with an EXPLICIT method under non-default accuracy / size settings, then a DEFAULT-argument reader under the
# default settings (another cache key: a transparent library computes the reader's answer afresh)
LOWRANK = {"lowrank": st(max_root=2), "lowrank_chol0": st(max_chol=0, max_root=2)}
EXPL_WRITERS = ([["diagonalization", [], [["method", S(m)]]] for m in ("lanczos", "symeig")]
                + [["root_decomposition", [], [["method", S(m)]]] for m in ("lanczos", "symeig", "svd", "pivoted_cholesky")]
                + [["root_inv_decomposition", [], [["method", S(m)]]] for m in ("lanczos", "symeig")]
                + [["cholesky", [], [["upper", B(True)]]], ["svd"]])
DEF_READERS = [["diagonalization", [], []], ["root_decomposition", [], []], ["root_inv_decomposition", [], []],
               ["cholesky", [], []], ["sample", 0], ["logdet"], ["inv_quad_logdet", 0, True], ["solve", 0], ["eigh"]]


def explicit_then_default(label, quick):
    main = label in ("Dense", "AddedDiag(Dense,ConstantDiag)", "Kron(Dense,Dense)")
    regs = list(LOWRANK) if (main or not quick) else ["lowrank"]
    out = []
    for r in regs:
        for w in EXPL_WRITERS:
            for q in DEF_READERS:
                out.append([("set", LOWRANK[r], False), ("q", w, False), ("set", st(), False), ("q", q, False)])
    return out


def shared_base_histories(label, quick):
    """families in which several operators share one base object (the derived operator keeps self as a child):
    a cache-writing query on the derived operator, then a query on the BASE, or on a second operator derived from it"""
    out = []
    if label not in ("Dense", "AddedDiag(Dense,ConstantDiag)", "Kron(Dense,Dense)", "Toeplitz"):
        return out
    small = label in ("Kron(Dense,Dense)", "Toeplitz")
    if not quick:
        ders, ws, qs = D_CORE, SW_WRITERS, Q_CORE
    elif small:
        ders, ws, qs = [D_CORE[0], D_CORE[1], D_CORE[6]], SW_WRITERS, SW_READERS
    else:
        ders, ws, qs = D_CORE, SW_WRITERS, SW_READERS + [["svd"], ["eigh"], ["diagonalization", [], []]]
    for d in ders:
        for w in ws:
            for q in qs:
                out.append([("d", d, False), ("q", w, False), ("q", q, True)])
    d1s = [["add_jitter", 0], ["add_diagonal", 1], ["scale", 0], ["transpose"]]
    d2s = [["add_jitter", 1], ["add_diagonal", 0], ["scale", 1]]
    q2s = SW_READERS + [["svd"], ["eigh"]]
    if quick:
        d1s, d2s, q2s = (d1s[:2], d2s[:1], SW_READERS) if small else (d1s[:3], d2s[:2], SW_READERS)
    for d in d1s:
        for w in ws:
            for d2 in d2s:
                for q in q2s:
                    out.append([("d", d, False), ("q", w, False), ("d", d2, True), ("q", q, False)])
    return out


def root_exprs(quick):
    """operator expressions (opbuild JSON) of the root objects: (label, expr, exact-universe?)"""
    from . import opbuild
    rng = random.Random(12)     # structural: independent of the run seed
    out = []

    n = 4

    def distinct(e):
        """Lanczos-based factorizations are exact only when the eigenvalues are well separated (a repeated
        eigenvalue makes the Krylov space deficient: a legitimately low-rank answer, not a cache effect)"""
        import torch
        w = torch.linalg.eigvalsh(opbuild.dense(e, torch.float64))
        gap = (w[..., 1:] - w[..., :-1]).min() if w.shape[-1] > 1 else torch.tensor(1.0)
        return bool(gap > 0.05 * w.abs().max())

    def add(label, make):
        for _ in range(200):
            e = make()
            if distinct(e):
                out.append((label, e))
                return
        raise RuntimeError("no well-separated instance for %s" % label)
    add("Dense", lambda: opbuild.gen(rng, "Dense", m=n, psd=True))
    add("AddedDiag(Dense,Diag)", lambda: {"cls": "AddedDiag", "base": opbuild.gen(rng, "Dense", m=n, psd=True),
                                         "diag": opbuild.gen(rng, "Diag", m=n, psd=True)})
    add("AddedDiag(Dense,ConstantDiag)", lambda: {"cls": "AddedDiag", "base": opbuild.gen(rng, "Dense", m=n, psd=True),
                                                 "diag": opbuild.gen(rng, "ConstantDiag", m=n, psd=True)})
    add("Toeplitz", lambda: opbuild.gen(rng, "Toeplitz", m=n, psd=True))
    add("Sum(Dense,Toeplitz)", lambda: {"cls": "Sum", "ops": [opbuild.gen(rng, "Dense", m=n, psd=True),
                                                              opbuild.gen(rng, "Toeplitz", m=n, psd=True)]})
    add("ConstantMul(Dense)", lambda: {"cls": "ConstantMul", "base": opbuild.gen(rng, "Dense", m=n, psd=True),
                                       "c": opbuild.T([], [2])})
    add("Kron(Dense,Dense)", lambda: {"cls": "Kron", "ops": [opbuild.gen(rng, "Dense", m=2, psd=True),
                                                              opbuild.gen(rng, "Dense", m=2, psd=True)]})
    add("BlockDiag(Dense)", lambda: {"cls": "BlockDiag", "base": opbuild.gen(rng, "Dense", batch=[2], m=2, psd=True),
                                     "block_dim": -3})
    add("BatchRepeat(Dense)", lambda: {"cls": "BatchRepeat", "base": opbuild.gen(rng, "Dense", m=3, psd=True), "rep": [2]})
    add("Dense5", lambda: opbuild.gen(rng, "Dense", m=5, psd=True))
    add("Dense1", lambda: opbuild.gen(rng, "Dense", m=1, psd=True))
    add("Dense[2]x3", lambda: opbuild.gen(rng, "Dense", batch=[2], m=3, psd=True))
    return out


# factor classes as history roots (outside the transcription: direct predicates): BOTH orientations, and the queries
# through which a cached inverse / transposed factor is written and read
Q_FACTOR = [["to_dense"], ["inverse"], ["root_inverse"], ["root_inv_decomposition", [], []], ["root_decomposition", [], []],
            ["cholesky", [], []], ["cholesky", [], [["upper", B(True)]]], ["solve", 0], ["solve", 1], ["solve_vec"],
            ["solve_left", 0], ["linalg_solve", 0], ["inv_quad_logdet", 0, True], ["inv_quad_logdet", 1, False], ["logdet"],
            ["matmul", 0], ["diagonal"], ["sample", 0]]
FACTOR_WRITERS = [["inverse"], ["root_inverse"], ["root_inv_decomposition", [], []], ["cholesky", [], [["upper", B(True)]]],
                  ["cholesky", [], []], ["to_dense"]]


def factor_exprs():
    from . import opbuild
    import torch
    out = []
    t = [[2.0, 0.0, 0.0], [0.7, 1.5, 0.0], [-0.4, 0.9, 1.2]]
    tl = {"shape": [3, 3], "data": [x for r in t for x in r]}
    tu = {"shape": [3, 3], "data": [t[j][i] for i in range(3) for j in range(3)]}
    tb = {"shape": [2, 3, 3], "data": [x for r in t for x in r] + [1.5 * x + (0.5 if i == j else 0.0) for i, r in enumerate(t) for j, x in enumerate(r)]}
    out.append(("Chol(lower)", {"cls": "Chol", "t": tl, "upper": False}))
    out.append(("Chol(upper)", {"cls": "Chol", "t": tu, "upper": True}))
    out.append(("Chol(lower)[2]", {"cls": "Chol", "t": tb, "upper": False}))
    out.append(("Triangular(lower)", {"cls": "Triangular", "t": tl, "upper": False}))
    out.append(("Triangular(upper)", {"cls": "Triangular", "t": tu, "upper": True}))
    out.append(("Root(dense)", {"cls": "Root", "root": tl}))
    return out


# queries that are defined for positive definite operators only (a TriangularLinearOperator root is not one)
PSD_ONLY = {"root_inv_decomposition", "root_decomposition", "cholesky", "sample", "diagonalization", "svd", "eigh", "eigvalsh"}


def factor_jobs(quick):
    jobs = []
    for label, expr in factor_exprs():
        psd = not label.startswith("Triangular")
        QF = [q for q in Q_FACTOR if psd or q[0] not in PSD_ONLY]
        FW = [q for q in FACTOR_WRITERS if psd or q[0] not in PSD_ONLY]
        for a in QF:
            for b_ in QF:
                jobs.append((label, expr, [("q", a, False), ("q", b_, False)]))
        for a in FW:
            for b_ in FW:
                for c in (QF if not quick else [q for q in Q_FACTOR[7:16] if q in QF]):
                    jobs.append((label, expr, [("q", a, False), ("q", b_, False), ("q", c, False)]))
    return jobs


def kernel_exprs():
    """batched KernelLinearOperator with per-member inputs and a per-member scale (different diagonals per member)"""
    x = {"shape": [3, 5, 2], "data": [((7 * i + 3 * j + 5 * k) % 5) - 2 + (i if k == 0 else 0) for i in range(3) for j in range(5) for k in range(2)]}
    c = {"shape": [3, 1, 1], "data": [1, 2, 3]}
    return [("Kernel[3]", {"cls": "Kernel", "x1": x, "x2": x, "square": False, "c": c})]


def kernel_jobs():
    jobs = []
    for label, expr in kernel_exprs():
        # not positive definite (X X^T scaled): the queries that are defined for any operator
        for w_ in (["diagonal"], ["to_dense"]):
            for d in D_SHARE:
                for r in (["diagonal"], ["to_dense"], ["matmul", 0]):
                    jobs.append((label, expr, [("q", w_, False), ("d", d, False), ("q", r, False)]))
    return jobs


def other_exprs():
    """classes outside the transcribed universe: direct property predicates only"""
    from . import opbuild
    rng = random.Random(13)
    out = []
    for cls, kw in [("Diag", {}), ("Root", {}), ("KronAddedDiag", {}), ("BatchRepeat", {"child": "Dense"}),
                    ("LowRankRootAddedDiag", {}), ("BlockDiag", {"child": "Dense"}), ("PsdSum", {"child": "Dense"}),
                    ("SumKron", {})]:
        import torch
        for _ in range(200):
            try:
                e = opbuild.gen(rng, cls, m=4, psd=True, **kw)
            except Exception:
                break
            w = torch.linalg.eigvalsh(opbuild.dense(e, torch.float64))
            gap = (w[..., 1:] - w[..., :-1]).min() if w.shape[-1] > 1 else torch.tensor(1.0)
            if bool(gap > 0.05 * w.abs().max()) and bool(w.min() > 0.5):
                out.append((cls, e))
                break
    return out


# ------------------------------------------------------------------------------------------ running one history

def run_history(expr, events, want_fresh=True):
    """execute on real objects; returns a record with everything the comparison needs"""
    import torch
    from . import c12_world as W
    torch.set_num_threads(1)
    w = W.World(expr)
    rec = {"expr_cls": expr["cls"], "steps": [], "init": None, "opaque": False}
    try:
        init_ids = list(range(len(w.objs)))
        rec["init"] = w.profiles(init_ids)
        cur = dict(ST_DEFAULT)
        switched = False
        newest = w.root
        rec["events"] = []
        for si, ev in enumerate(events):
            if isinstance(ev, tuple):
                # symbolic target: the newest event-created object, or the root
                kind_, payload, on_root = ev
                tgt = w.root if on_root else newest
                ev = {"q": ["q", tgt, payload], "d": ["d", tgt, payload], "set": ["set", payload],
                      "seed": ["seed", tgt], "clear": ["clear", tgt]}[kind_]
            rec["events"].append(ev)
            stp = {"ev": ev}
            kind = ev[0]
            if kind == "set":
                w.settings.set(ev[1])
                switched = switched or dict(ev[1]) != cur
                cur = dict(ev[1])
                stp.update(raised=False, transparent=True, why="")
            elif kind == "q":
                i, q = ev[1], ev[2]
                if i >= len(w.objs):
                    stp.update(skipped=True)
                    rec["steps"].append(stp)
                    break
                penv = getattr(w, "precond_env", {}).get(i)     # state of the preconditioner cache BEFORE the call
                # the object already holds entries the oracle rejects: keep what is needed to ask, if this answer fails too,
                # whether it fails BECAUSE of them (the same query on a copy whose cache holds all the other entries)
                prev_bad_pos = [b_[1] for b_ in (rec["steps"][-1]["bad"] if rec["steps"] else []) if b_[0] == i and b_[1] < 990]
                pre_cache = None
                if prev_bad_pos and want_fresh:
                    d_ = getattr(w.objs[i], "_memoize_cache", None) or {}
                    raw = [k_ for k_ in d_.keys() if not W.ignored_key(k_)]
                    drop = {raw[p_] for p_ in prev_bad_pos if p_ < len(raw)}
                    pre_cache = {k_: v_ for k_, v_ in d_.items() if k_ not in drop}
                raised, ans, ctx = w.do_query(i, q, seed=si)
                A = w.dense[i]
                asp = W.query_aspect(q)
                ok, why = (False, "raised %s" % type(ans).__name__) if raised else W.valid(asp, A, ans, TOL, ctx)
                stp.update(raised=raised, valid=ok, why=why, exc=(type(ans).__name__ + ": " + str(ans)[:120]) if raised else None)
                transparent = ok
                # (only while the settings have not been switched in this history: a cache hit legitimately returns what
                # was computed under the settings of the first call, a fresh object follows the current ones)
                det = None if switched else deterministic_method(q)
                if (want_fresh and asp[0] == "precond" and ok and penv is not None
                        and penv["precond_size"] != cur["precond_size"]):
                    # deterministic view of the same state: the preconditioner handed out is the one a fresh object
                    # builds under the CURRENT settings
                    fr_, fans_, _ = fresh_query(w, i, q, si)
                    if fr_ is False and not same_precond(ans, fans_):
                        stp.setdefault("extra", []).append(
                            ["precond-cache:ignores-settings",
                             "preconditioner cached under max_preconditioner_size=%d is handed out under %d; a fresh "
                             "object builds another one" % (penv["precond_size"], cur["precond_size"])])
                if want_fresh and (raised or not ok or asp[0] in ("logdet", "iqld") or det):
                    # the same query on a fresh clone under the same settings and the same RNG state
                    fw_raised, fans, fctx = fresh_query(w, i, q, si)
                    if fw_raised is None:
                        transparent = ok
                    elif raised or fw_raised:
                        transparent = (raised == fw_raised)
                        stp["fresh_raised"] = fw_raised
                    else:
                        fok, fwhy = W.valid(asp, A, fans, TOL, fctx)
                        if not ok and asp[0] in ("logdet", "iqld"):
                            # stochastic Lanczos quadrature: identical probes give the identical estimate
                            ok2 = same_answer(ans, fans)
                            stp["slq_same_as_fresh"] = ok2
                            if not ok2 and penv is not None and penv["precond_size"] != cur["precond_size"]:
                                # ... given the same preconditioner: the object's out-of-dict preconditioner cache was
                                # built under another max_preconditioner_size and is re-used as it is (modelled state:
                                # o_adhoc).  Equal to a fresh object in THAT state: transparent for the model; that the
                                # state ignores the current setting is reported on its own (direct predicate)
                                r3, fans3, _ = fresh_query(w, i, q, si, precond_env=penv)
                                if r3 is False and same_answer(ans, fans3):
                                    ok2 = True
                                    stp["slq_same_as_fresh_in_precond_state"] = True
                                    if fok:
                                        stp.setdefault("extra", []).append(
                                            ["precond-cache:ignores-settings",
                                             "estimate computed with the preconditioner cached under max_preconditioner_size=%d "
                                             "(current: %d); a fresh object is accurate" % (penv["precond_size"], cur["precond_size"])])
                            ok = ok2 or ok
                        transparent = ok or not fok
                        stp["fresh_valid"] = fok
                        if det and ok and fok:
                            # "different decomposition methods are never confused": a factorization requested with an
                            # explicit deterministic method is the SAME factor (up to column signs) a fresh object returns
                            # decided by the structural signature of the requested method (triangular / orthogonal
                            # columns), which the answer must have whenever a fresh object's answer has it; methods
                            # without such a signature: the same factor as the fresh object's, up to column signs.
                            # (A class that ignores `method` in some regime does so on a fresh object too: that is
                            # history independent and no concern of this property.)
                            sa, sf = method_signature(ans, det), method_signature(fans, det)
                            same = same_factor(ans, fans) if sa is None or sf is None else (sa or not sf)
                            stp["method_same_as_fresh"] = same
                            if not same:
                                stp.setdefault("extra", []).append(
                                    ["%s:method-confused" % q[0],
                                     "valid, but not the %s factor a fresh object returns" % det])
                stp["transparent"] = bool(transparent)
                if not transparent and pre_cache is not None:
                    stp["cf_transparent"] = counterfactual_query(w, i, q, si, pre_cache, asp)
            elif kind == "d":
                i, d = ev[1], ev[2]
                if i >= len(w.objs):
                    stp.update(skipped=True)
                    rec["steps"].append(stp)
                    break
                raised, j, new = w.do_derive(i, d, seed=si)
                stp.update(raised=raised, transparent=True, why="")
                if raised:
                    stp["exc"] = type(j).__name__ + ": " + str(j)[:120]
                    fr = fresh_derive_raises(w, i, d, si)
                    stp["transparent"] = (fr is None) or fr
                    stp["fresh_raised"] = fr
                else:
                    stp["new"] = new
                    stp["res"] = j
                    newest = j
                    if d[0] in ("add_low_rank", "cat_rows"):
                        stp["roots_compatible"] = roots_compatible(w, i, d)
                        pk = rec["steps"][-1]["keys"][i] if rec["steps"] and i < len(rec["steps"][-1]["keys"]) else []
                        pks = rec["steps"][-1]["keys"] if rec["steps"] else []
                        desc = [w.ids[id(x_)] for x_ in W.reachable(w.objs[i])[1:] if id(x_) in w.ids]
                        stp["root_route"] = root_route(pk, d, cur, int(w.objs[i].shape[-1]),
                                                       [pks[c_] for c_ in desc if c_ < len(pks)])
                        if stp["roots_compatible"] == "incompatible" and stp["root_route"] == "computed-together" and want_fresh:
                            stp["fresh_derive_bad"] = fresh_derive_bad(w, i, d, si)
                    stp["profiles"] = w.profiles(new)
            elif kind == "seed":
                stp.update(raised=w.seed_symeig(ev[1]), transparent=True, why="")
            elif kind == "clear":
                w.clear(ev[1])
                left = len(getattr(w.objs[ev[1]], "_memoize_cache", None) or {})
                stp.update(raised=False, transparent=(left == 0),
                           why="" if left == 0 else "clear_cache_hook left %d entries in the cache" % left)
            else:
                raise ValueError(ev)
            w.note_precond_state(cur)
            obs = w.settings.observed()
            stp["settings_ok"] = all(obs[k] == cur[k] for k in cur)
            stp["keys"] = w.keys()
            stp["bad"] = [[i_, p_, y_] for (i_, p_, y_) in w.bad_entries(tol=TOL)]
            if kind == "q" and want_fresh:
                # a NEW invalid entry on the queried object: is it just as invalid on a fresh copy after the same query
                # (the class's own numerics, e.g. a Lanczos by-product on a matrix with close eigenvalues: no cache effect)?
                prev = rec["steps"][-1] if rec["steps"] else None
                prev_bad = {json.dumps(prev["keys"][b_[0]][b_[1]]) for b_ in prev["bad"]
                            if b_[0] == ev[1] and b_[1] < 990} if prev else set()
                if any(b_[0] == ev[1] and b_[1] < 990 and json.dumps(stp["keys"][b_[0]][b_[1]]) not in prev_bad
                       for b_ in stp["bad"]):
                    stp["bad_on_fresh"] = fresh_bad_keys(w, ev[1], ev[2], si)
            rec["steps"].append(stp)
        rec["opaque"] = w.opaque
        rec["nobj"] = len(w.objs)
        rec["classes"] = [type(o).__name__ for o in w.objs]
    finally:
        w.close()
    return rec


def roots_compatible(w, i, d):
    """the explicit hypothesis of the transplant algebra, measured on the real objects: the root L and the inverse
    root M of self that the derivation was handed (recorded by c12_world.RootSpy during the call) are each valid
    and satisfy L M^T = I.   Returns 'compatible' | 'incompatible' | 'invalid-source' | None (no roots were used)."""
    import torch
    from . import c12_world as W
    Lop, Mop = w.last_roots or (None, None)
    if Lop is None or Mop is None:
        return None
    try:
        A = w.dense[i]
        if not (W.valid(("root",), A, Lop, TOL)[0] and W.valid(("rootinv",), A, Mop, TOL)[0]):
            return "invalid-source"
        L = W.dn(Lop.root)
        M = W.dn(Mop.root)
        if L.shape != M.shape or L.shape[-1] != L.shape[-2]:
            return "incompatible"
        n = L.shape[-1]
        ok = (L @ M.mT - torch.eye(n, dtype=L.dtype)).abs().max() < 1e-5 * max(1.0, float(torch.linalg.cond(L).max()))
        return "compatible" if bool(ok) else "incompatible"
    except Exception:
        return None


DET_METHODS = {"root_decomposition": (0, {"cholesky", "symeig", "svd", "pivoted_cholesky"}),
               "root_inv_decomposition": (2, {"cholesky", "symeig", "svd"}),
               "diagonalization": (0, {"symeig"})}


def deterministic_method(q):
    """the explicit method of a factorization query when that method is deterministic (no random start vector),
    else None"""
    if q[0] not in DET_METHODS:
        return None
    pos, ms = DET_METHODS[q[0]]
    m = None
    if len(q[1]) > pos and q[1][pos][0] == "str":
        m = q[1][pos][1]
    for k_, v_ in q[2]:
        if k_ == "method" and v_[0] == "str":
            m = v_[1]
    return m if m in ms else None


def method_signature(a, method):
    """does the factor show the structure the method produces?  cholesky: triangular; symeig / svd / diagonalization:
    orthogonal columns (V sqrt(Lambda));  None for methods without a structural signature"""
    import torch
    from . import c12_world as W
    try:
        R = W.dn(a[1]) if isinstance(a, tuple) else W.dn(a.root)
        sc = 1e-8 * max(1.0, float(R.abs().max()) ** 2)
        if method == "cholesky":
            return bool(torch.equal(torch.tril(R), R) or torch.equal(torch.triu(R), R))
        if method in ("symeig", "svd", "diagonalization"):
            G = R.mT @ R
            off = G - torch.diag_embed(torch.diagonal(G, dim1=-2, dim2=-1))
            return bool(off.abs().max() <= sc) if off.numel() else True
    except Exception:
        return None
    return None


def same_factor(a, b, tol=1e-6):
    """two factors (Root operators, or (evals, evecs) pairs) equal up to the sign of each column"""
    import torch
    from . import c12_world as W
    try:
        if isinstance(a, tuple) and isinstance(b, tuple):
            if len(a) != 2 or len(b) != 2 or not W.close(a[0], b[0], tol):
                return False
            Ra, Rb = W.dn(a[1]), W.dn(b[1])
        else:
            Ra, Rb = W.dn(a.root), W.dn(b.root)
        if Ra.shape != Rb.shape:
            return False
        d = torch.minimum((Ra - Rb).abs().amax(-2), (Ra + Rb).abs().amax(-2))
        return bool(d.max() <= tol * max(1.0, float(Rb.abs().max())))
    except Exception:
        return False


def same_precond(a, b, tol=1e-6):
    """two answers of _preconditioner(): both (None, None, None), or the same matrix P"""
    from . import c12_world as W
    try:
        na, nb = a[1] is None, b[1] is None
        if na or nb:
            return na == nb
        return W.close(W.dn(a[1]), W.dn(b[1]), tol)
    except Exception:
        return False


def same_answer(a, b, tol=1e-7):
    import torch
    from . import c12_world as W
    if torch.is_tensor(a) and torch.is_tensor(b):
        return W.close(a, b, tol)
    if isinstance(a, tuple) and isinstance(b, tuple) and len(a) == len(b):
        return all(same_answer(x, y, tol) for x, y in zip(a, b))
    return False


def fresh_query(w, i, q, si, precond_env=None):
    """same query on a freshly constructed copy of object i (no cache), same settings, same RNG seed.
    precond_env: build the copy's out-of-dict preconditioner cache first, under the given (earlier) settings - the
    state a stochastic estimate legitimately depends on"""
    from . import c12_world as W
    try:
        clone = w.objs[i].clone()
    except Exception:
        return None, None, None
    if precond_env is not None:
        try:
            from linear_operator import settings as S
            with S.min_preconditioning_size(1), S.max_preconditioner_size(int(precond_env["precond_size"])):
                clone._preconditioner()
        except Exception:
            return None, None, None
    w2 = object.__new__(W.World)
    w2.O = w.O
    w2.objs, w2.ids, w2.dense, w2.tensors = [clone], {id(clone): 0}, [w.dense[i]], []
    return w2.do_query(0, q, seed=si)


def fresh_bad_keys(w, i, q, si):
    """keys (structural form, JSON) of the cache entries that are invalid on a FRESH copy of object i after the same
    query under the same settings and seed"""
    from . import c12_world as W
    try:
        clone = w.objs[i].clone()
        w2 = object.__new__(W.World)
        w2.O = w.O
        w2.objs, w2.ids, w2.dense, w2.tensors = [clone], {id(clone): 0}, [w.dense[i]], []
        w2._entry_memo, w2._keep = {}, []
        w2.do_query(0, q, seed=si)
        ks = w2.keys()[0]
        return [json.dumps(ks[p_]) for (o_, p_, _) in w2.bad_entries(tol=TOL) if o_ == 0 and p_ < 990]
    except Exception:
        return []


def counterfactual_query(w, i, q, si, cache, asp):
    """the same query on a copy of object i whose cache holds the given entries (the original's without the ones the
    oracle had rejected): True = the answer is fine then (the failure was a consequence of those entries)"""
    from . import c12_world as W
    try:
        clone = w.objs[i].clone()
        clone._memoize_cache = dict(cache)
        w2 = object.__new__(W.World)
        w2.O = w.O
        w2.objs, w2.ids, w2.dense, w2.tensors = [clone], {id(clone): 0}, [w.dense[i]], []
        raised, ans, ctx = w2.do_query(0, q, seed=si)
        if raised:
            return False
        return bool(W.valid(asp, w.dense[i], ans, TOL, ctx)[0])
    except Exception:
        return None


def root_route(prev_keys, d, cur, n, kid_keys=()):
    """how the (root, inverse root) pair of a transplanting derivation came about:
       cached-before           one of the two requests was already answered from the cache (computed earlier, possibly
                               by another method / under other settings / as a Lanczos by-product)
       explicit-methods-differ the caller asked for two different methods (or for one, leaving the other to the default)
       lanczos                 Lanczos is involved: two independent runs
       computed-together       both computed now through the same default choice: they belong together"""
    if d[0] == "add_low_rank":
        m1, m2 = d[2], d[3]
        kr = ["full", ["str", "root_decomposition"], [], [["method", m1]]]
        ki = ["full", ["str", "root_inv_decomposition"], [], [["method", m2]]]
    else:
        m1 = m2 = NONE
        kr = ["full", ["str", "root_decomposition"], [], []]
        ki = ["full", ["str", "root_inv_decomposition"], [], []]
    if kr in prev_keys or ki in prev_keys:
        return "cached-before"
    if any(k_[0] == "full" and k_[1] in (["str", "root_decomposition"], ["str", "root_inv_decomposition"])
           for ks_ in kid_keys for k_ in ks_):
        return "cached-before"      # on a factor / base operator the class delegates to
    e1 = m1[1] if m1[0] == "str" else None
    e2 = m2[1] if m2[0] == "str" else None
    if e1 != e2 and not ({e1, e2} <= {"symeig", "svd"}):
        return "explicit-methods-differ"
    if "lanczos" in (e1, e2) or (n > cur["max_chol"] and cur["fc_root"]):
        # (in the Lanczos regime also with explicit methods: "diagonalization" is a Lanczos run there, and classes that
        # delegate to children - Kron, ConstantMul - follow the children's defaults)
        return "lanczos"
    return "computed-together"


def fresh_derive_bad(w, i, d, si):
    """does the same derivation on a FRESH copy of object i leave invalid entries on the new operator as well?
    (True: the transplant is wrong whatever the history; False: only after this history; None: could not be decided)"""
    from . import c12_world as W
    try:
        clone = w.objs[i].clone()
        w2 = object.__new__(W.World)
        w2.O = w.O
        w2.objs, w2.ids, w2.dense, w2.tensors = [clone], {id(clone): 0}, [w.dense[i]], []
        w2._entry_memo, w2._keep = {}, []
        raised, j, _ = w2.do_derive(0, d, seed=si)
        if raised:
            return None
        return any(o_ == j and p_ < 990 for (o_, p_, _) in w2.bad_entries(tol=TOL))
    except Exception:
        return None


def fresh_derive_raises(w, i, d, si):
    from . import c12_world as W
    try:
        clone = w.objs[i].clone()
    except Exception:
        return None
    w2 = object.__new__(W.World)
    w2.O = w.O
    w2.objs, w2.ids, w2.dense, w2.tensors = [clone], {id(clone): 0}, [w.dense[i]], []
    raised, _, _ = w2.do_derive(0, d, seed=si)
    return raised


# ------------------------------------------------------------------------------------------ Coq literals

def cstr(s):
    return '"%s"' % s.replace('"', '""')


def pyv_lit(v):
    k = v[0]
    if k == "none":
        return "PNone"
    if k == "bool":
        return "(PBool %s)" % ("true" if v[1] else "false")
    if k == "str":
        return "(PStr %s)" % cstr(v[1])
    if k == "int":
        return "(PInt %s)" % common.zlit(v[1])
    if k == "ten":
        return "(PTen %d)" % v[1]
    raise ValueError(v)


def args_lit(a):
    return "[" + "; ".join(pyv_lit(x) for x in a) + "]"


def kw_lit(kw):
    return "[" + "; ".join("(%s, %s)" % (cstr(k), pyv_lit(v)) for k, v in kw) + "]"


def name_lit(nm):
    return "(%s %s)" % ("NStr" if nm[0] == "str" else "NFun", cstr(nm[1]))


def key_lit(k):
    if k[0] == "name":
        return "(KName %s)" % name_lit(k[1])
    return "(KFull %s %s %s)" % (name_lit(k[1]), args_lit(k[2]), kw_lit(k[3]))


def nlist(xs):
    return "[" + "; ".join(str(int(x)) for x in xs) + "]"


def pf_lit(p):
    td = "(Some %s)" % cstr(p["td_name"]) if p["td_name"] else "None"
    eig = "(EigShift %d)" % p["eig"] if p["eig"] is not None else "EigBase"
    if p.get("kron") is not None:
        eig = "(EigKron %s)" % nlist(p["kron"])
    cm = "(Some %d)" % p["cm_root"] if p["cm_root"] is not None else "None"
    dg = "None" if p.get("deleg") is None else "(Some %s)" % common.coq_bool(p["deleg"])
    return "(pf %s %s %s %s %s %s %s %s %s %s %s %s)" % (
        td, nlist(p["td_kids"]), common.coq_bool(p["chol_ignore"]), eig, cm, common.coq_bool(p["precond"]),
        common.coq_bool(p["sum"]), common.coq_bool(p["iqld_to"]), dg, common.coq_bool(p.get("q_norhs", False)),
        common.coq_bool(p.get("q_nologdet", False)), common.coq_bool(p.get("q_lanczos1", False)))


def st_lit(s):
    return "(Build_settings %d %s %s %s %s %d %d)" % (
        s["max_chol"], common.coq_bool(s["fc_root"]), common.coq_bool(s["fc_logprob"]), common.coq_bool(s["fc_solves"]),
        common.coq_bool(s["ciq"]), s["precond_size"], s["min_precond"])


def query_lit(q):
    k = q[0]
    if k == "to_dense":
        return "QToDense"
    if k in ("cholesky", "root_decomposition", "root_inv_decomposition", "diagonalization"):
        c = {"cholesky": "QCholesky", "root_decomposition": "QRootDecomp", "root_inv_decomposition": "QRootInv",
             "diagonalization": "QDiagz"}[k]
        return "(%s %s %s)" % (c, args_lit(q[1]), kw_lit(q[2]))
    if k in ("svd", "eigh", "eigvalsh", "logdet", "diagonal", "precond"):
        return {"svd": "QSvd", "eigh": "QEigh", "eigvalsh": "QEigvalsh", "logdet": "QLogdet", "diagonal": "QDiagonal",
                "precond": "QPrecond"}[k]
    if k == "solve":
        return "(QSolve %d)" % q[1]
    if k == "inv_quad_logdet":
        return "(QIqld %d %s)" % (q[1], common.coq_bool(q[2]))
    if k == "sample":
        return "(QSample %d)" % q[1]
    raise ValueError(q)


def deriv_lit(d, stp=None):
    k = d[0]
    if k == "add_jitter":
        return "(DAddJitter %d)" % d[1]
    if k == "add_diagonal":
        return "(DAddDiagonal %d)" % (100 + d[1])
    if k == "add_low_rank":
        return "(DAddLowRank %d %s %s %s)" % (d[1], pyv_lit(d[2]), pyv_lit(d[3]), common.coq_bool(d[4]))
    if k == "cat_rows":
        return "(DCatRows %d %d %d %s %s)" % (d[1], d[2], 1 + d[1] % 2, common.coq_bool(d[3]), common.coq_bool(d[4]))
    if k == "getitem":
        return "(DGetItem %d)" % d[1]
    if k == "transpose":
        return "DTranspose"
    if k == "scale":
        return "(DScale %d)" % d[1]
    if k == "expand":
        return "(DExpand %d)" % d[1]
    raise ValueError(d)


class Interner:
    """shard-level sharing of repeated sub-terms (keys, key lists, heap key lists, events): the elaboration time of
    a Coq literal is linear in its size, and the same few keys occur thousands of times"""

    def __init__(self):
        self.defs = []
        self.tab = {}

    def get(self, prefix, typ, body):
        k = (typ, body)
        if k not in self.tab:
            nm = "%s%d" % (prefix, len(self.tab))
            self.tab[k] = nm
            self.defs.append("Definition %s : %s := %s." % (nm, typ, body))
        return self.tab[k]


def expect_lit(stp, I):
    ks = []
    for obj_keys in stp["keys"]:
        kl = "[" + "; ".join(I.get("k", "key", key_lit(k)) for k in obj_keys) + "]"
        ks.append(I.get("ks", "list key", kl))
    keys = I.get("hk", "list (list key)", "[" + "; ".join(ks) + "]")
    bad = "[" + "; ".join("(%d, %d)" % (b[0], b[1]) for b in stp["bad"]) + "]"
    return I.get("x", "expect", "X %s %s %s %s" % (common.coq_bool(stp["raised"]), common.coq_bool(stp["transparent"]), keys, bad))


def case_lit(rec, I=None):
    """Coq literal of one executed history (None when it left the modelled universe)"""
    I = I or Interner()
    if any(p.get("opaque") for p in rec["init"]):
        return None
    sym = [0]

    def fresh():
        sym[0] += 1
        return "(SBase %d)" % (1000 + sym[0])

    def mk(c, p):
        return "(%s %s %d %s %s)" % (c, I.get("p", "profile", pf_lit(p)[1:-1]), p["n"], common.coq_bool(p["square"]), fresh())
    objs = [mk("mko", p) for p in rec["init"]]
    profs = list(rec["init"])
    evs = []
    for stp in rec["steps"]:
        if stp.get("skipped"):
            break
        ev = stp["ev"]
        if ev[0] in ("q", "seed") and ev[1] < len(profs) and profs[ev[1]].get("child_only"):
            break       # a Diag-family child: only its to_dense is transcribed
        if ev[0] == "q":
            qname = {"inv_quad_logdet": "inv_quad_logdet"}.get(ev[2][0], ev[2][0])
            if ev[1] < len(profs) and qname in profs[ev[1]].get("queries_off", ()):
                break   # this class overrides the query (not transcribed): the comparable part of the history ends here
            e = "EQuery %d %s" % (ev[1], I.get("q", "query", query_lit(ev[2])))
        elif ev[0] == "d":
            if ev[2][0] not in MODEL_DERIVS:
                break       # a derivation the model does not transcribe (direct predicates only from here on)
            if stp["raised"]:
                # the model needs the description of the objects that WOULD have been built: none is available;
                # a raising derivation ends the comparable part of the history
                break
            ps = stp["profiles"]
            if any(p.get("opaque") for p in ps):
                break       # the derivation produced an object of a class outside the transcription: the comparable part ends
            kids = [mk("mkn", p) for p in ps[:-1]]
            res = mk("mkn", ps[-1])
            profs.extend(ps)
            e = "EDerive %d %s [%s] %s" % (ev[1], deriv_lit(ev[2], stp), "; ".join(kids), res)
        elif ev[0] == "set":
            e = "ESet %s" % I.get("st", "settings", st_lit(ev[1])[1:-1])
        elif ev[0] == "seed":
            e = "ESeedSymeig %d" % ev[1]
        else:
            e = "EClear %d" % ev[1]
        evs.append("(%s, %s)" % (I.get("e", "event K", e), expect_lit(stp, I)))
    init = I.get("o", "list (obj K)", "[%s]" % "; ".join(objs))
    return "(%s, st0, [%s])" % (init, "; ".join(evs))


HEADER = ("From Coq Require Import List String Bool Arith ZArith.\nImport ListNotations.\n"
          "Require Import C12.MemoBase C12.Model C12.Sym C12.Check.\nOpen Scope string_scope.\nOpen Scope nat_scope.\n")


def shard_src(recs):
    """recs: executed histories; returns (source, indices of the records that are cases of this shard)"""
    I = Interner()
    lits, idx = [], []
    for k, rec in enumerate(recs):
        l = case_lit(rec, I)
        if l is not None:
            lits.append(l)
            idx.append(k)
    src = (HEADER + "Definition st0 : settings := %s.\n" % st_lit(ST_DEFAULT)[1:-1] + "\n".join(I.defs)
           + "\nDefinition cases : list case := [\n %s].\nEval vm_compute in (bad_cases cases 0).\n" % ";\n ".join(lits))
    return src, idx


# ------------------------------------------------------------------------------------------ histories

def enum_histories(alphabet_q, alphabet_d, length):
    """all histories of exactly `length` events; an event addresses the newest object (or, once something was
    derived, also the root: both variants are generated for the LAST event)"""
    syms = [("q", q) for q in alphabet_q] + [("d", d) for d in alphabet_d]
    for combo in itertools.product(syms, repeat=length):
        nder = sum(1 for s in combo[:-1] if s[0] == "d")
        variants = [False, True] if nder else [False]
        for last_on_root in variants:
            yield [(s[0], s[1], (last_on_root and k == length - 1)) for k, s in enumerate(combo)]


def random_hist(rng, length, wide=True):
    h = []
    nder = 0
    for _ in range(length):
        r = rng.random()
        on_root = nder > 0 and rng.random() < 0.3
        if r < 0.15:
            h.append(("set", rng.choice(SETTINGS), False))
        elif r < 0.2:
            h.append(("seed", None, on_root))
        elif r < 0.22:
            h.append(("clear", None, on_root))
        elif r < 0.45 and nder < 3:
            h.append(("d", rng.choice(D_WIDE if wide else D_CORE), on_root))
            nder += 1
        else:
            h.append(("q", rng.choice(Q_WIDE if wide else Q_CORE), on_root))
    return h


# worker entry points (top level for pickling)
def _work(job):
    label, expr, hist = job
    try:
        rec = run_history(expr, hist)
        return label, hist, rec["events"], rec, None
    except Exception:
        return label, hist, None, None, traceback.format_exc()[-1500:]


def plan(ctx, exprs):
    """(label, expr, hist) jobs: the deterministic grid + seeded random histories"""
    rng = random.Random(ctx.seed)
    jobs = []
    counts = {}
    for label, expr in exprs:
        n0 = len(jobs)
        if ctx.quick:
            full2 = label in ("Dense", "AddedDiag(Dense,ConstantDiag)", "AddedDiag(Dense,Diag)", "Kron(Dense,Dense)",
                              "BlockDiag(Dense)", "BatchRepeat(Dense)")
            if full2:
                for h in enum_histories(Q_CORE, D_CORE, 2):
                    jobs.append((label, expr, h))
            else:
                for h in enum_histories(Q_CORE, D_CORE, 1):
                    jobs.append((label, expr, h))
            # length 3: every (cache-writing query | derivation) x derivation x query, and query x query x query on
            # the cache-relevant sub-alphabet
            if label in ("Dense", "AddedDiag(Dense,ConstantDiag)"):
                writers = [q for q in Q_CORE if q[0] in ("cholesky", "root_decomposition", "root_inv_decomposition",
                                                          "diagonalization", "svd", "sample", "logdet")]
                for a in writers:
                    for d in D_CORE:
                        for c in Q_CORE:
                            jobs.append((label, expr, [("q", a, False), ("d", d, False), ("q", c, False)]))
                    for b in writers:
                        for c in writers:
                            jobs.append((label, expr, [("q", a, False), ("q", b, False), ("q", c, False)]))
            if full2:
                # every derivation of the wide alphabet (all method pairs of add_low_rank, cat_rows flag combinations)
                # followed by every core query on the derived operator
                for d in D_WIDE[len(D_CORE):]:
                    for c in Q_CORE:
                        jobs.append((label, expr, [("d", d, False), ("q", c, False)]))
            for h in switch_histories(label, True):
                jobs.append((label, expr, h))
            for h in shared_base_histories(label, True):
                jobs.append((label, expr, h))
            for h in explicit_then_default(label, True):
                jobs.append((label, expr, h))
            if label in ("Dense", "AddedDiag(Dense,ConstantDiag)", "AddedDiag(Dense,Diag)", "Kron(Dense,Dense)", "BlockDiag(Dense)",
                         "BatchRepeat(Dense)", "Toeplitz", "Dense[2]x3"):
                for h in derive_after_queries(label, True):
                    jobs.append((label, expr, h))
            nr = 60
        else:
            L = 3 if label in ("Dense", "AddedDiag(Dense,ConstantDiag)", "AddedDiag(Dense,Diag)", "Toeplitz") else 2
            for h in enum_histories(Q_CORE, D_CORE, L):
                jobs.append((label, expr, h))
            for d in D_WIDE[len(D_CORE):]:
                for c in Q_CORE:
                    jobs.append((label, expr, [("d", d, False), ("q", c, False)]))
            for h in switch_histories(label, False):
                jobs.append((label, expr, h))
            for h in shared_base_histories(label, False):
                jobs.append((label, expr, h))
            for h in explicit_then_default(label, False):
                jobs.append((label, expr, h))
            for h in derive_after_queries(label, False):
                jobs.append((label, expr, h))
            nr = 600
        for _ in range(nr):
            jobs.append((label, expr, random_hist(rng, rng.randrange(4, 13))))
        counts[label] = len(jobs) - n0
    return jobs, counts


def execute(jobs, workers=None):
    out = []
    if workers is None:
        workers = int(os.environ.get("C12_WORKERS", "6"))
    if workers <= 1:
        return [_work(j) for j in jobs]
    with ProcessPoolExecutor(max_workers=workers) as ex:
        for r in ex.map(_work, jobs, chunksize=40):
            out.append(r)
    return out


# ------------------------------------------------------------------------------------------ triage

OUTSIDE_HYPOTHESES = ("kernel", "add_low_rank:invalid-source-roots", "cat_rows:invalid-source-roots")


def why_class(why):
    if "labelled triangular" in why or "not triangular as labelled" in why:
        return "triangular-label"
    return "invalid-factor"


def problems_of(label, rec):
    """direct evaluation of the property on the implementation's run.  Yields every NEW problem of the history in
    order: a non-transparent answer / raise, or a cache entry that is not valid for its object's matrix, each with a
    structural key.  `cause` names the event and mechanism where the invalid state originated; problems that are
    consequences of an earlier invalid entry of the addressed object inherit its cause."""
    events = rec["events"]
    classes = rec.get("classes") or []
    origin = {}            # cause -> class of the object on which it first arose (consequences keep it)
    cause_of = {}          # (obj, pos) -> cause of a known bad entry
    seeded = set()         # objects whose ("symeig", eigenvectors=True) entry was put there by a caller (event "seed")
    out = []
    for si, stp in enumerate(rec["steps"]):
        if stp.get("skipped"):
            break
        ev = events[si]
        op = ev[2][0] if ev[0] in ("q", "d") else ev[0]
        tgt = ev[1] if ev[0] in ("q", "d", "seed", "clear") else None
        prev_keys = rec["steps"][si - 1]["keys"] if si else []
        inherited = None
        if tgt is not None:
            cs = [c for (o, p_), c in sorted(cause_of.items()) if o == tgt]
            inherited = cs[0] if cs else None
            if inherited and inherited.startswith("kernel") and any(not c.startswith("kernel") for c in cs):
                inherited = [c for c in cs if not c.startswith("kernel")][0]
        if not stp.get("settings_ok", True):
            out.append((si, {"cause": "settings-not-applied", "op": op, "fail": "settings", "root": label}, "settings"))
        def had(nm):
            return tgt is not None and tgt < len(prev_keys) and any(
                k[0] == "full" and k[1] == ["str", nm] for k in prev_keys[tgt])
        had_symeig = had("symeig")
        if tgt is not None and not had_symeig:
            seeded.discard(tgt)
        via = "add_to_cache-by-caller" if tgt in seeded else "library"
        if ev[0] == "seed" and not stp.get("raised"):
            seeded.add(tgt)
        # _choose_root_method prefers a method whose result is already cached: symeig > diagonalization > lanczos
        chosen = "symeig" if had_symeig else ("diagonalization" if had("diagonalization") else None)
        explicit = None
        if ev[0] == "q" and op in ("root_decomposition", "root_inv_decomposition"):
            pos = 0 if op == "root_decomposition" else 2
            if len(ev[2][1]) > pos and ev[2][1][pos] != ["none"]:
                explicit = ev[2][1][pos][1]
            for k_, v_ in ev[2][2]:
                if k_ == "method" and v_ != ["none"]:
                    explicit = v_[1]
        by_choice = (chosen is not None and ev[0] in ("q", "d")
                     and op in ("root_decomposition", "root_inv_decomposition", "sample", "add_low_rank", "cat_rows")
                     and explicit in (None, "pinverse", chosen))
        choice_cause = None
        for (xc, xw) in stp.get("extra", []):
            # direct predicates about facets the model abstracts from (never arbitrated by the model)
            out.append((si, {"cause": xc, "op": op, "fail": "answer-vs-fresh", "root": label,
                             "cls": (rec.get("classes") or [])[tgt] if tgt is not None and tgt < len(rec.get("classes") or []) else None}, xw))
        via_ = None
        if not stp["transparent"]:
            if inherited and not inherited.startswith("kernel") and stp.get("cf_transparent") is not False:
                cause = inherited
            elif op in ("eigh", "eigvalsh") and had_symeig:
                cause = "%s:symeig-entry" % op
                via_ = via
            elif by_choice and stp.get("fresh_valid") is True:
                # the answer is invalid only because the cache made _choose_root_method pick a method whose result
                # is invalid for this class (a fresh object picks another one)
                cause = choice_cause = "cache-chosen-method"
            elif inherited and inherited.startswith("kernel"):
                # the object holds an entry that is invalid on a fresh copy as well (e.g. a low-rank Lanczos factor computed
                # under a small max_root_decomposition_size, or on close eigenvalues) - but THIS answer is invalid where a
                # fresh object's is valid: the entry was handed out for another request / under other settings
                _, w_op, w_entry = (inherited.split(":") + ["?", "?"])[:3]
                cause = "stale-entry:%s-wrote-%s" % (w_op, w_entry)
            else:
                cause = "%s:%s" % (op, "raised" if stp.get("raised") else "invalid-answer")
            out.append((si, {"cause": cause, "op": op, "fail": "answer", "root": label, "method": chosen,
                             "cls": origin.get(cause) or (classes[tgt] if tgt is not None and tgt < len(classes) else None),
                             "consequence": bool(inherited) and cause == inherited, "via": via_},
                        stp.get("why") or stp.get("exc") or ""))
        cur = {}
        for (bi, bp, why) in stp["bad"]:
            kk = stp["keys"][bi][bp] if bp < 990 else ["adhoc", ["str", {999: "_q_cache", 998: "_sparse_interp_t_memo"}.get(bp, "unknown-cache-attribute")]]
            ident = (bi, json.dumps(kk))
            cur[ident] = (bi, bp, why, kk)
        # entries are identified by (object, key): positions shift when an entry is popped
        known = {(o, kj) for (o, kj) in cause_of}
        newc = {}
        for ident, (bi, bp, why, kk) in cur.items():
            if ident in cause_of:
                newc[ident] = cause_of[ident]
                continue
            wc = why_class(why)
            if choice_cause and bi == tgt:
                newc[ident] = choice_cause
                out.append((si, {"cause": choice_cause, "op": op, "fail": "entry", "entry": kk[1][1], "root": label,
                                 "method": chosen, "consequence": False}, why))
                continue
            if ev[0] == "q" and bi == tgt and ((stp.get("valid") is False and stp.get("fresh_valid") is False)
                                               or json.dumps(kk) in (stp.get("bad_on_fresh") or [])):
                # the query's own answer is invalid on a fresh clone as well: the class's factorization itself is
                # wrong (C04-C06), the entry it leaves behind is no cache effect (recorded, so that the triage knows the
                # step is explained; never reported: OUTSIDE_HYPOTHESES)
                newc[ident] = "kernel:%s:%s" % (op, kk[1][1])
                out.append((si, {"cause": "kernel", "op": op, "fail": "entry", "root": label}, why))
                continue
            if inherited and not inherited.startswith("kernel"):
                cause = inherited
            elif ev[0] == "d" and op in ("add_low_rank", "cat_rows"):
                if wc == "triangular-label":
                    cause = "%s:triangular-label" % op
                else:
                    rc = stp.get("roots_compatible")
                    cause = "%s:%s" % (op, {"incompatible": "incompatible-roots", "invalid-source": "invalid-source-roots",
                                            "compatible": "invalid-update"}.get(rc, "invalid-update"))
                    if rc == "incompatible" and stp.get("root_route") == "computed-together" and stp.get("fresh_derive_bad") is False:
                        # no listed route to an incompatible pair: both factors were computed within this call through
                        # the same default choice, and the same derivation on a fresh copy of self transplants valid factors
                        cause += "-computed-together"
            else:
                cause = "%s:wrote-%s" % (op, wc)
            newc[ident] = cause
            origin.setdefault(cause, classes[tgt] if tgt is not None and tgt < len(classes) else None)
            ename = kk[1][1]
            out.append((si, {"cause": cause, "op": op, "fail": "entry", "entry": ename, "root": label,
                             "cls": origin.get(cause),
                             "consequence": bool(inherited)}, why))
        cause_of = newc
    return out


def report(ctx, label, expr, events, rec, si, key, why):
    replay = {"kind": "history-dependence", "root": label, "expr": expr, "events": events[:si + 1],
              "why": why, "step": si,
              "observed": {k: rec["steps"][si].get(k) for k in ("raised", "valid", "transparent", "why", "exc", "bad",
                                                                 "fresh_valid", "fresh_raised", "roots_compatible",
                                                                 "method_same_as_fresh", "extra", "root_route", "cf_transparent")}}
    return ctx.violation(replay, key=key)


# ------------------------------------------------------------------------------------------ main

def parse_triples(out):
    xs = common.parse_coq_list_of_nat(out)
    if xs is None:
        return None
    return [tuple(xs[i:i + 3]) for i in range(0, len(xs), 3)]


def search_real(ctx, width="thorough", limit=6):
    """evaluate the property directly on the implementation (used when a proof obligation broke)"""
    class Q:
        quick = (width == "quick")
        seed = ctx.seed
    exprs = root_exprs(False) + other_exprs()
    jobs, _ = plan(Q, exprs)
    if width == "quick":
        random.Random(ctx.seed).shuffle(jobs)
        jobs = jobs[:4000]
    found = 0
    seen = set()
    ex = dict(exprs)
    for label, hist, events, rec, err in execute(jobs):
        if err or rec is None:
            continue
        for (si, key, why) in problems_of(label, rec):
            if key.get("cause") in OUTSIDE_HYPOTHESES:
                continue
            sig = json.dumps(key, sort_keys=True)
            if sig in seen:
                continue
            seen.add(sig)
            if report(ctx, label, ex.get(label), events, rec, si, key, why):
                found += 1
        if found >= limit:
            break
    return found


def run(ctx):
    t0 = time.time()
    tr_err = None
    try:
        regenerate()
    except c12_memo_tr.Untranslatable as ex:
        tr_err = str(ex)
    if tr_err is not None:
        ctx.say("translator rejected memoize.py:", tr_err)
        found = 0
        try:
            found = search_real(ctx, "quick")
        except Exception:
            ctx.say(traceback.format_exc()[-800:])
        if not found:
            ctx.violation({"kind": "translator-rejected-source", "error": tr_err,
                           "obligation": "coq/C12/gen/Memoize.v could not be regenerated; the memoize laws and the "
                                         "history theorems are not re-proved"}, no_input=True)
        ctx.coverage.update({"obligations": len(common.property_obligations(PROP)), "discharged": 0,
                             "checker_cmd": "translator failed", "trusted_base": common.COQ_TRUSTED,
                             "evaluations": 0, "distinct_nontrivial": 0, "rule": "", "samples": [tr_err]})
        return

    def on_fail(info):
        return search_real(ctx, "quick") > 0
    ok = common.proof_stage(ctx, on_fail)

    exact = root_exprs(ctx.quick)
    others = other_exprs()
    jobs, counts = plan(ctx, exact)
    ojobs = []
    rng = random.Random(ctx.seed + 1)
    for label, expr in others:
        for h in enum_histories(Q_CORE, D_CORE, 1):
            ojobs.append((label, expr, h))
        for d in D_CORE:
            for c in (Q_CORE if not ctx.quick else [Q_CORE[k] for k in (1, 3, 4, 6, 10, 11, 14)]):
                ojobs.append((label, expr, [("d", d, False), ("q", c, False)]))
        # cache-driven method choice: a query that leaves an eigen-decomposition / a Cholesky factor in some cache, then
        # a factorization whose parts are fetched through _choose_root_method
        for q in (["logdet"], ["diagonalization", [], []], ["svd"], ["cholesky", [], []]):
            for c in (["root_decomposition", [], []], ["root_inv_decomposition", [], []],
                      ["root_decomposition", [], [["method", S("lanczos")]]],
                      ["root_inv_decomposition", [], [["method", S("lanczos")]]], ["sample", 0]):
                ojobs.append((label, expr, [("q", q, False), ("q", c, False)]))
        if not ctx.quick:
            for q in Q_CORE:
                for c in Q_CORE:
                    ojobs.append((label, expr, [("q", q, False), ("q", c, False)]))
        for _ in range(12 if ctx.quick else 300):
            ojobs.append((label, expr, random_hist(rng, rng.randrange(3, 9))))
    fjobs = factor_jobs(ctx.quick)
    ojobs += fjobs
    others = others + factor_exprs()
    ojobs += kernel_jobs()
    for label, expr in others:
        if not label.startswith("Triangular"):
            for h in derive_after_queries(label, ctx.quick):
                ojobs.append((label, expr, h))
    others = others + kernel_exprs()
    for label, expr in others:
        if label.startswith(("Triangular", "Kernel")):
            continue        # not positive definite: the factorization queries of the family are undefined
        for h in explicit_then_default(label, ctx.quick):
            ojobs.append((label, expr, h))
    results = execute(jobs + ojobs)
    t_exec = time.time() - t0

    exprs = dict(exact + others)
    cand = []
    exact_labels = set(l for l, _ in exact)
    stats = {"histories": 0, "steps": 0, "crashed": 0, "outside_model": 0, "model_cases": 0, "direct_problems": 0,
             "raised_steps": 0, "histories_with_problem": 0}
    distinct = set()
    by_cause = {}
    probs = {}
    for idx, (label, hist, events, rec, err) in enumerate(results):
        if err is not None:
            stats["crashed"] += 1
            ctx.violation({"kind": "harness-crash", "root": label, "history": hist, "trace": err}, no_input=True)
            continue
        stats["histories"] += 1
        stats["steps"] += len(rec["steps"])
        stats["raised_steps"] += sum(1 for s_ in rec["steps"] if s_.get("raised"))
        if len(events) >= 2:
            distinct.add(json.dumps([label, events], sort_keys=True))
        ps = problems_of(label, rec)
        probs[idx] = ps
        if ps:
            stats["histories_with_problem"] += 1
            stats["direct_problems"] += len(ps)
        if label in exact_labels and not any(p_.get("opaque") for p_ in rec["init"]):
            cand.append(idx)
        else:
            stats["outside_model"] += 1

    # the transcription must still apply to the classes it was written for: a root class that drops out of the
    # modelled universe (its protocol methods were overridden / re-decorated) silently disables the comparison
    lost = sorted({results[i_][0] for i_ in range(len(results)) if results[i_][4] is None and results[i_][0] in exact_labels
                   and any(p_.get("opaque") for p_ in results[i_][3]["init"])})
    if lost:
        ctx.violation({"kind": "model-universe-lost", "classes": lost,
                       "obligation": "coq/C12/Model.v transcribes the base-class protocol for these classes; harness/c12_world.py "
                                     "no longer recognises their cached methods (overrides / decorators changed)"}, no_input=True)

    # model correspondence
    mism = []
    if ok and cand:
        SH = 400
        shards, maps = [], []
        for k in range(0, len(cand), SH):
            part = cand[k:k + SH]
            try:
                src, idxs = shard_src([results[i_][3] for i_ in part])
            except Exception:
                ctx.violation({"kind": "harness-crash", "trace": traceback.format_exc()[-800:]}, no_input=True)
                continue
            shards.append(("c12_%d" % (k // SH), src))
            maps.append([part[i_] for i_ in idxs])
            stats["model_cases"] += len(idxs)
            stats["outside_model"] += len(part) - len(idxs)
        res = common.run_shards(ctx, shards, timeout=900)
        for si_, (name, _) in enumerate(shards):
            rc, out = res[name]
            tri = parse_triples(out) if rc == 0 else None
            if tri is None:
                ctx.violation({"kind": "shard-failed", "shard": name, "out": out[-800:]}, no_input=True)
                continue
            for (c, j, code) in tri:
                mism.append((maps[si_][c], j, code))
    soft = [m for m in mism if m[2] in (4, 6)]
    hard = {m[0]: m for m in mism if m[2] not in (4, 6)}
    # a validity disagreement at a step at which the direct triage found that the class's own numerics are invalid on
    # a fresh object too (kernel hypothesis of the theorems fails: e.g. a Lanczos factor of a matrix with close
    # eigenvalues, or of rank max_root_decomposition_size < n - a setting the model does not read), or that such an
    # entry was handed out later ("stale-entry:..."), is explained by that: the model assumes valid kernels.  The
    # direct problem itself is still reported under its own key
    explained = [idx for idx, (_, j, code) in hard.items()
                 if code in (3, 5) and any(si == j and (k_.get("cause") in OUTSIDE_HYPOTHESES
                                                        or str(k_.get("cause")).startswith("stale-entry:"))
                                           for (si, k_, _) in probs.get(idx, []))]
    for idx in explained:
        del hard[idx]
    stats["model_mismatches_explained_by_invalid_kernel"] = len(explained)

    # triage.  (a) every direct problem is a failing input of the property: reported under its structural key
    # (a listed known finding swallows it) - unless the model, which transcribes the listed defects, does NOT predict
    # it: then it is a different defect and is reported under a key no finding can match.
    reported = set()
    for idx in sorted(probs):
        label, hist, events, rec, _ = results[idx]
        for (si, key, why) in probs[idx]:
            if key.get("cause") in OUTSIDE_HYPOTHESES:
                # the class's own factorization is invalid for this matrix even on a fresh object (C04-C06): the
                # kernel hypothesis of the theorems fails, what follows from such an entry is not a cache defect
                by_cause[key["cause"]] = by_cause.get(key["cause"], 0) + 1
                continue
            contradicted = idx in hard and hard[idx][1] <= si
            if contradicted:
                key = {"fail": "not-predicted-by-model", "op": key["op"], "root": label, "what": key["fail"],
                       "model_code": hard[idx][2]}
            by_cause[key.get("cause", "not-predicted-by-model")] = by_cause.get(key.get("cause", "not-predicted-by-model"), 0) + 1
            sig = json.dumps(key, sort_keys=True)
            if sig in reported:
                continue
            reported.add(sig)
            report(ctx, label, exprs.get(label), events, rec, si, key, why)
    # (b) model and implementation disagree where the property itself holds: keys / raised-or-not
    shown = 0
    for idx, (_, j, code) in sorted(hard.items()):
        label, hist, events, rec, _ = results[idx]
        if code in (3, 5) and any(si <= j for (si, _, _) in probs.get(idx, [])) and any(si == j for (si, _, _) in probs.get(idx, [])):
            continue      # reported in (a)
        if shown < 5:
            ctx.violation({"kind": "model-implementation-disagreement", "root": label, "expr": exprs.get(label),
                           "events": events[:j + 1], "step": j, "code": code,
                           "codes": "1 key lists differ | 2 raised-or-not differs | 3 model: answer valid, oracle: invalid | "
                                    "5 oracle rejects an entry the model holds valid",
                           "observed": {k: rec["steps"][j].get(k) for k in ("raised", "transparent", "why", "exc", "keys", "bad")}
                           if j < len(rec["steps"]) else None}, no_input=True)
        shown += 1

    ctx.coverage.update({
        "trusted_base": common.COQ_TRUSTED + [
            "translator harness/c12_memo_tr.py (Python ast -> Gallina; fail-closed) and the Python semantics of dict / "
            "hasattr / tuple equality / pickle.dumps(kwargs) / try-except as modelled in coq/C12/MemoBase.v",
            "hand transcription of the cache-relevant control flow of LinearOperator (and of the Sum/AddedDiag/ConstantMul/"
            "Cat/KroneckerProduct overrides) in coq/C12/Model.v - validated by the exact key-list correspondence, not "
            "derived from the source",
            "object profiles read by introspection in harness/c12_world.py (which class caches to_dense under which name, "
            "which children it densifies); numerical kernels (cholesky, eigh, Lanczos, CG, pivoted Cholesky, SVD) are assumed "
            "valid (hypotheses of the theorems), the oracle checks them with plain torch",
            "correspondence harness harness/c12.py, c12_world.py and the comparator coq/C12/Check.v"],
        "evaluations": stats["steps"], "distinct_nontrivial": len(distinct),
        "rule": "event histories on real operator objects; grid: exhaustive short histories over %d queries + %d derivations "
                "per root class (see per_class), every wide derivation x core query, settings-switch families "
                "[set, writer, set, reader] / [set, writer, derivation, reader] / [set, writer, set, derivation, reader], "
                "shared-base families [derive, writer on derived, query on base | derive again, query], random histories of "
                "length 4-12 over the wide alphabet (%d queries, %d derivations, %d settings regimes, seed_symeig, clear); "
                "non-trivial = at least 2 events; distinct by (root class, event list)"
                % (len(Q_CORE), len(D_CORE), len(Q_WIDE), len(D_WIDE), len(SETTINGS)),
        "per_class": counts, "other_classes": [l for l, _ in others], "stats": stats,
        "problems_by_cause": by_cause,
        "model_hard_mismatches": len(hard), "model_pessimistic_steps": len(soft),
        "exec_seconds": round(t_exec, 1),
        "samples": [results[len(results) // 3][2], results[-1][2]] if results else [],
    })
    ctx.assumptions = [
        "operator objects are immutable: the matrix an object denotes never changes (C13)",
        "numerical kernels are valid for positive definite inputs with well separated eigenvalues (C04-C06, C08-C10)",
        "single-threaded use; settings change only between calls",
        "cache keys contain None / bool / str / int argument values (tensor-valued arguments are not exercised)"]


def replay(rp):
    events = rp.get("events") or []
    expr = rp.get("expr")
    if expr is None:
        print("replay file has no operator expression")
        return 2
    rec = run_history(expr, events)
    ps = problems_of(rp.get("root", "?"), rec)
    for stp in rec["steps"]:
        print(json.dumps({k: stp.get(k) for k in ("ev", "raised", "valid", "transparent", "why", "exc", "bad")}, default=str)[:400])
    for (si, key, why) in ps:
        print("property failure at step %d: %s (%s)" % (si, json.dumps(key), why))
    if not ps:
        print("property holds on this history")
    return 1 if ps else 0
