"""C20 — "large size" input family and source scan of the anchored utility files.

The correspondence grid of harness/c20.py uses sizes 1..8 (every case is also evaluated by the Coq model).  Code with
loops, chunking, zero padding or size thresholds (e.g. "pad the FFT to a power of two when the embedding is longer than
64") is not exercised by such sizes.  This module adds, on EVERY run:

* `source_scan()` — an `ast` scan of the anchored files listing integer literals >= 16 (also constant-folded
  expressions such as `1 << 6`, and integer defaults of `settings.X.value()` thresholds), the operators `//`, `%`, `**`,
  `<<`, `>>` and calls whose name looks like a power-of-two / padding / chunking computation.  Items not in
  `harness/c20_scan_baseline.json` (the scan of the tree the check was written against) are NEW: they are reported in
  the evidence and every new literal T widens the size family of the kernels of that file by
  {T/2, T/2+1, T-1, T, T+1, 2T+1} (capped per kernel); a new power-of-two style operator adds the straddles of 16..256.
* `run(ctx, ...)` — the large family: every kernel at sizes that straddle powers of two (Toeplitz 31..100 resp. ..1025,
  interpolation / sparse index ranges 1023..1025, permutations 100..1025, QR at the settings threshold 127..129), compared
  with the dense definition by the direct predicate only (no Coq shard: the theorems hold for all n, the small grid ties
  the model; these cells look for size-dependent behaviour of the implementation).  FFT results are rounded to integers
  only after checking |x - round x| < 1e-6 (float64) / 2e-3 (float32) — `c20.tns`.
"""
import ast
import json
import math
import os
import random
import re
import sys

from . import common

HERE = os.path.dirname(os.path.abspath(__file__))
BASELINE_PATH = os.path.join(HERE, "c20_scan_baseline.json")

# anchored file -> kernels of the large family whose size parameter a literal of that file may compare against
ANCHORED = {
    "linear_operator/utils/toeplitz.py": ["toeplitz", "toeplitz_getitem", "toeplitz_matmul", "sym_toeplitz_derivative_quadratic_form"],
    "linear_operator/utils/interpolation.py": ["left_interp", "left_t_interp"],
    "linear_operator/utils/sparse.py": ["make_sparse_from_indices_and_values", "bdsmm", "dsmm_backward", "sparse_eye", "sparse_getitem",
                                        "sparse_repeat", "to_sparse", "left_t_interp"],
    "linear_operator/utils/permutation.py": ["apply_permutation", "inverse_permutation"],
    "linear_operator/utils/qr.py": ["stable_qr", "stable_pinverse"],
    "linear_operator/utils/pinverse.py": ["stable_pinverse"],
    "linear_operator/utils/broadcasting.py": ["_matmul_broadcast_shape", "_pad_with_singletons"],
    "linear_operator/functions/_dsmm.py": ["bdsmm", "dsmm_backward", "left_t_interp"],
}
CALL_RE = re.compile(r"(bit_length|next_pow|next_fast|pow2|power_of|log2|ceil|floor|chunk|split|pad|block|tile|unfold|stride)", re.I)
POW2_OPS = {"<<", ">>", "**"}
POW2_STRADDLE = [15, 16, 17, 31, 32, 33, 63, 64, 65, 127, 128, 129, 255, 256, 257]
LIT_MIN, LIT_MAX = 16, 4096

OPS = {ast.FloorDiv: "//", ast.Mod: "%", ast.Pow: "**", ast.LShift: "<<", ast.RShift: ">>"}


def _fold(node):
    """value of a constant integer expression, else None"""
    if isinstance(node, ast.Constant) and isinstance(node.value, int) and not isinstance(node.value, bool):
        return node.value
    if isinstance(node, ast.UnaryOp) and isinstance(node.op, ast.USub):
        v = _fold(node.operand)
        return None if v is None else -v
    if isinstance(node, ast.BinOp):
        a, b = _fold(node.left), _fold(node.right)
        if a is None or b is None:
            return None
        try:
            if isinstance(node.op, ast.Add):
                return a + b
            if isinstance(node.op, ast.Sub):
                return a - b
            if isinstance(node.op, ast.Mult):
                return a * b
            if isinstance(node.op, ast.Pow) and 0 <= b <= 64:
                return a ** b
            if isinstance(node.op, ast.LShift) and 0 <= b <= 64:
                return a << b
            if isinstance(node.op, ast.FloorDiv) and b:
                return a // b
        except Exception:
            return None
    return None


def scan_file(path, settings_defaults=None):
    """-> sorted list of items [kind, token, source line]; independent of line numbers"""
    try:
        src = open(path).read()
        tree = ast.parse(src)
    except Exception as ex:
        return [["unreadable", type(ex).__name__, ""]]
    lines = src.splitlines()
    items = set()

    def line_of(node):
        ln = getattr(node, "lineno", 0)
        return " ".join(lines[ln - 1].split()) if 0 < ln <= len(lines) else ""

    folded_children = set()
    for node in ast.walk(tree):
        if isinstance(node, ast.BinOp):
            v = _fold(node)
            if v is not None:
                for ch in ast.walk(node):
                    if ch is not node:
                        folded_children.add(id(ch))
    for node in ast.walk(tree):
        if id(node) in folded_children:
            continue
        v = _fold(node) if isinstance(node, (ast.Constant, ast.BinOp, ast.UnaryOp)) else None
        if v is not None and abs(v) >= LIT_MIN:
            items.add(("int", str(abs(v)), line_of(node)))
        if isinstance(node, (ast.BinOp, ast.AugAssign)) and type(node.op) in OPS and v is None:
            left = node.left if isinstance(node, ast.BinOp) else None
            if isinstance(node.op, ast.Mod) and isinstance(left, (ast.Constant, ast.JoinedStr)) and \
                    (isinstance(left, ast.JoinedStr) or isinstance(left.value, str)):
                continue        # string formatting
            items.add(("op", OPS[type(node.op)], line_of(node)))
        if isinstance(node, ast.Call):
            f = node.func
            name = f.attr if isinstance(f, ast.Attribute) else (f.id if isinstance(f, ast.Name) else "")
            if name and CALL_RE.search(name):
                items.add(("call", name, line_of(node)))
            if name == "value" and isinstance(f, ast.Attribute):     # settings.<x>.value() thresholds
                base = f.value
                sname = base.attr if isinstance(base, ast.Attribute) else (base.id if isinstance(base, ast.Name) else "")
                dv = (settings_defaults or {}).get(sname)
                items.add(("setting", "%s=%s" % (sname, dv), line_of(node)))
    return sorted([list(t) for t in items])


def settings_defaults():
    """integer defaults of linear_operator.settings value contexts, read from the SOURCE of the tree under test"""
    out = {}
    try:
        tree = ast.parse(open(os.path.join(common.REPO, "linear_operator", "settings.py")).read())
        for node in tree.body:
            if isinstance(node, ast.ClassDef):
                for st in node.body:
                    if isinstance(st, ast.Assign) and any(isinstance(t, ast.Name) and t.id == "_global_value" for t in st.targets):
                        v = _fold(st.value)
                        if v is not None:
                            out[node.name] = v
    except Exception:
        pass
    return out


def source_scan():
    sd = settings_defaults()
    cur = {f: scan_file(os.path.join(common.REPO, f), sd) for f in ANCHORED}
    try:
        base = json.load(open(BASELINE_PATH))
    except Exception:
        base = {}
    new = {}
    extra = {}          # kernel -> set of extra sizes
    notes = []
    for f, items in cur.items():
        known = {tuple(t) for t in base.get(f, [])}
        fresh = [t for t in items if tuple(t) not in known]
        if not fresh:
            continue
        new[f] = fresh
        sizes = set()
        for kind, tok, _ in fresh:
            T = None
            if kind == "int":
                T = int(tok)
            elif kind == "setting" and tok.split("=")[-1].isdigit():
                T = int(tok.split("=")[-1])
            if T is not None:
                if LIT_MIN <= T <= LIT_MAX:
                    sizes |= {T // 2, T // 2 + 1, T - 1, T, T + 1, 2 * T + 1}
                else:
                    notes.append("%s: literal %d outside [%d, %d] is not straddled" % (f, T, LIT_MIN, LIT_MAX))
            if (kind == "op" and tok in POW2_OPS) or (kind == "call" and re.search(r"bit_length|pow|log2|fast", tok, re.I)):
                sizes |= set(POW2_STRADDLE)
        for k in ANCHORED[f]:
            extra.setdefault(k, set()).update(sizes)
    # thresholds that are present in the baseline too are always straddled (they are part of the base families below)
    return {"files": len(cur), "items": sum(len(v) for v in cur.values()), "current": cur, "new": new,
            "extra_sizes": {k: sorted(v) for k, v in extra.items() if v}, "notes": notes,
            "baseline": os.path.relpath(BASELINE_PATH, common.VERIF) if os.path.exists(BASELINE_PATH) else None}


# ------------------------------------------------------------------------------------------------ generators

def pat(rng, shape, lo=-3, hi=3, nonzero=False):
    n = int(math.prod(shape))
    if nonzero:
        ch = [v for v in range(lo, hi + 1) if v != 0]
        return {"shape": list(shape), "data": [ch[rng.randrange(len(ch))] for _ in range(n)]}
    w = hi - lo + 1
    return {"shape": list(shape), "data": [lo + rng.randrange(w) for _ in range(n)]}


def big_sparse(rng, shape, k, dups=True):
    idx = [[rng.randrange(d) for d in shape] for _ in range(k)]
    # make sure the extreme indices occur
    idx.append([d - 1 for d in shape])
    idx.append([0 for _ in shape])
    if dups:
        idx += [list(idx[rng.randrange(len(idx))]) for _ in range(3)]
    rng.shuffle(idx)
    return {"shape": list(shape), "idx": idx, "val": [rng.choice([-3, -2, -1, 1, 2, 3]) for _ in idx]}


def sizes(base, extra, cap, lo=1):
    return sorted({n for n in list(base) + list(extra or []) if lo <= n <= cap})


POW2_THOROUGH = [127, 128, 129, 255, 256, 257, 511, 512, 513, 1023, 1024, 1025]
BIG = [1023, 1024, 1025]
COMBOS_TM = [((), (), "mat"), ((), (), "vec"), ((2,), (), "mat"), ((), (2,), "mat1"), ((2,), (2,), "mat"), ((2, 1), (3,), "mat")]


def build_cases(ctx, scan):
    """-> list of (kernel object, case).  The structure is deterministic; the seed only draws values."""
    from . import c20 as C
    KS = {k.name: k for k in C.KERNELS}
    ex = {k: v for k, v in scan.get("extra_sizes", {}).items()}
    quick = ctx.quick
    out = []

    def add(name, cell, maker):
        rng = random.Random("%s/large/%s/%d" % (ctx.seed, name, len(out)))
        cell = dict(cell)
        cell["family"] = "large"
        case = maker(cell, rng)
        case["kernel"] = name
        case["cell"] = cell
        out.append((KS[name], case))

    # ---- Toeplitz
    def mk_tm(cell, rng):
        n, tb, mb = cell["n"], tuple(cell["tb"]), tuple(cell["mb"])
        c, r = pat(rng, tb + (n,)), pat(rng, tb + (n,))
        for b in range(int(math.prod(tb))):
            r["data"][b * n] = c["data"][b * n]
        p = {"vec": None, "mat1": 1, "mat": 2}[cell["rhs"]]
        return {"c": c, "r": r, "M": pat(rng, mb + ((n,) if p is None else (n, p)))}
    base = [31, 32, 33, 64, 65, 100] + ([] if quick else POW2_THOROUGH)
    for sym in (False, True):
        for q, n in enumerate(sizes(base, ex.get("toeplitz_matmul"), 2100, lo=2)):
            combos = [COMBOS_TM[(q + int(sym)) % len(COMBOS_TM)], COMBOS_TM[(q + 3 + int(sym)) % len(COMBOS_TM)]] if quick or n > 300 \
                else COMBOS_TM
            for (tb, mb, rhs) in combos:
                add("toeplitz_matmul", {"sym": sym, "tb": list(tb), "mb": list(mb), "rhs": rhs, "n": n, "bad": None}, mk_tm)

    def mk_dqf(cell, rng):
        shp = (cell["m"],) if cell["kind"] == "vec" else tuple(cell["b"]) + (cell["m"], cell["s"])
        return {"left": pat(rng, shp), "right": pat(rng, shp)}
    base = [31, 32, 33, 64, 65, 100] + ([] if quick else [127, 128, 129, 257])
    for q, m in enumerate(sizes(base, ex.get("sym_toeplitz_derivative_quadratic_form"), 600, lo=2)):
        kinds = [("vec", (), None), ("mat", (), 3), ("mat", (2,), 1)]
        for (kind, b, s) in ([kinds[q % 3], kinds[(q + 1) % 3]] if quick else kinds):
            add("sym_toeplitz_derivative_quadratic_form", {"kind": kind, "b": list(b), "m": m, "s": s}, mk_dqf)

    def mk_t(cell, rng):
        n = cell["n"]
        c, r = pat(rng, (n,), -9, 9), pat(rng, (n,), -9, 9)
        r["data"][0] = c["data"][0]
        return {"c": c, "r": r}
    for sym in (False, True):
        for n in sizes([33, 65] + ([] if quick else [100, 129]), ex.get("toeplitz"), 200, lo=2):
            add("toeplitz", {"sym": sym, "n": n, "bad": None}, mk_t)
        for n in sizes([33] + ([] if quick else [65, 100]), ex.get("toeplitz_getitem"), 130, lo=2):
            add("toeplitz_getitem", {"sym": sym, "n": n}, mk_t)

    # ---- interpolation: rows / num_data / columns large
    def mk_interp(cell, rng):
        t = cell["kernel_t"]
        rows, ndata, cols, ni = cell["rows"], cell["n"], cell["cols"], cell["ninterp"]
        idx, val = C.rand_interp(rng, cell["ib"], rows, ni, ndata, cell["dup"], cell["zeros"])
        # the extreme indices occur
        idx["data"][0] = ndata - 1
        idx["data"][-1] = 0
        inner = rows if t else ndata
        x = pat(rng, tuple(cell["rb"]) + ((inner,) if cols is None else (inner, cols)))
        case = {"idx": idx, "val": val, "x": x}
        if t:
            case["output_dim"] = ndata
        return case
    bpairs = [((), ()), ((2,), (2,)), ((2,), ()), ((), (2,)), ((2, 1), (3,))]
    for name, t in (("left_interp", False), ("left_t_interp", True)):
        big = sizes(BIG, ex.get(name), 4200, lo=2)
        q = 0
        for which in ("rows", "ndata", "cols"):
            for L in big:
                for rhs in (("vec", "mat") if which != "cols" else ("mat",)):
                    pairs = [bpairs[q % len(bpairs)]] if quick else bpairs[:3] + [bpairs[3 + q % 2]]
                    for (ib, rb) in pairs:
                        if rhs == "vec" and rb != ():
                            ib, rb = ib, ()
                        dims = {"rows": 3, "n": 7, "cols": 2}
                        dims[{"rows": "rows", "ndata": "n", "cols": "cols"}[which]] = L
                        if rhs == "vec":
                            dims["cols"] = None
                        add(name, {"rhs": rhs, "ib": list(ib), "rb": list(rb), "dup": q % 2 == 0, "zeros": ("none", "some")[q % 3 == 0],
                                   "bad": None, "large": which, "ninterp": 2 + q % 3, "kernel_t": t, **dims}, mk_interp)
                        q += 1

    # ---- sparse
    def mk_ms(cell, rng):
        idx, val = C.rand_interp(rng, cell["b"], cell["rows"], cell["ninterp"], cell["n"], cell["dup"], cell["zeros"])
        idx["data"][0] = cell["n"] - 1
        return {"idx": idx, "val": val, "num_rows": cell["n"]}
    q = 0
    for which in ("n", "rows"):
        for L in sizes(BIG, ex.get("make_sparse_from_indices_and_values"), 4200, lo=2):
            for b in ([[(), (2,), (2, 3)][q % 3]] if quick else [(), (2,), (2, 3)]):
                dims = {"n": 6, "rows": 4}
                dims[which] = L
                add("make_sparse_from_indices_and_values", {"b": list(b), "dup": q % 2 == 0, "zeros": ("none", "some")[q % 3 == 0], "bad": None,
                                                            "ninterp": 2 + q % 2, "large": which, **dims}, mk_ms)
                q += 1

    def mk_bd(cell, rng):
        m, n, p = cell["m"], cell["n"], cell["p"]
        sp = big_sparse(rng, tuple(cell["sb"]) + (m, n), 200, cell["dups"])
        d = pat(rng, tuple(cell["db"]) + (n, p))
        case = {"S": sp, "D": d}
        if cell.get("grad"):
            case["G"] = pat(rng, tuple(C.bshape(tuple(cell["sb"]), tuple(cell["db"]))) + (m, p))
        return case
    sbdb = [((), ()), ((2,), (2,)), ((), (2,)), ((2,), ()), ((2, 1), (1, 3))]
    q = 0
    for which in ("m", "n"):
        for L in sizes(BIG, ex.get("bdsmm"), 4200, lo=2):
            for (sb, db) in ([sbdb[q % len(sbdb)], sbdb[(q + 2) % len(sbdb)]] if quick else sbdb):
                dims = {"m": 5, "n": 6, "p": 2}
                dims[which] = L
                branch = "sparse_batched" if sb else ("dense_batched" if db else "plain")
                add("bdsmm", {"via": ("bdsmm", "dsmm")[q % 2], "sb": list(sb), "db": list(db), "branch": branch, "fill": "sparse",
                              "dups": q % 2 == 0, "bad": None, "large": which, **dims}, mk_bd)
                ob = C.bshape(tuple(sb), tuple(db))
                add("dsmm_backward", {"sb": list(sb), "db": list(db), "branch": branch, "fill": "sparse", "dups": True, "grad": True,
                                      "dense_is_broadcast": tuple(db) != tuple(ob), "large": which, **dims}, mk_bd)
                q += 1

    for n in sizes([100] + BIG, ex.get("sparse_eye"), 4200):
        add("sparse_eye", {"n": n}, lambda cell, rng: {})

    def mk_gi(cell, rng):
        shape = tuple(cell["shape"])
        sp = big_sparse(rng, shape, 150, cell["dups"])
        kn = KS["sparse_getitem"]
        idxs = []
        for i, k in enumerate(cell["combo"]):
            ix = kn.mk_index(k, shape[i], rng)
            if k in ("int", "negint") and cell["edge"]:
                ix = ("int", shape[i] - 1) if k == "int" else ("int", -shape[i])
            idxs.append(ix)
        return {"S": sp, "idxs": idxs, "as_tuple": len(idxs) > 1 or rng.random() < 0.5}
    kinds = ["int", "negint", "full", "slice", "negslice", "open_lo", "open_hi", "overlong", "empty_slice", "step1"]
    q = 0
    for L in sizes(BIG, ex.get("sparse_getitem"), 2100, lo=2):
        for shape in ((L,), (L, 9), (9, L)):
            combos = [(k,) for k in kinds] + ([(a, b) for a in ("int", "slice", "negint", "full") for b in ("int", "slice", "negslice", "open_hi")]
                                              if len(shape) == 2 else [])
            if quick:
                combos = combos[q % 3::3]
            for combo in combos:
                index = "empty_slice" if "empty_slice" in combo else ("negint" if "negint" in combo else "ok")
                add("sparse_getitem", {"nd": len(shape), "shape": list(shape), "combo": list(combo), "fill": "sparse", "dups": q % 2 == 0,
                                       "index": index, "bad": None, "edge": q % 2 == 1}, mk_gi)
                q += 1

    def mk_rep(cell, rng):
        return {"S": big_sparse(rng, tuple(cell["shape"]), 60, True)}
    q = 0
    for L in sizes([257] + ([] if quick else BIG), ex.get("sparse_repeat"), 2100, lo=2):
        for shp, reps_list in (((1, L), [(3, 1), (2, 1, 1), (1, 1)]), ((L, 1), [(1, 3), (2, 1, 2)]), ((L,), [(2,), (3, 1)]),
                               ((3, L), [(2, 2), (1, 3), (2, 1, 1)])):
            for reps in reps_list:
                padded = (1,) * (len(reps) - len(shp)) + tuple(shp)
                gt1 = any(r > 1 and s > 1 for r, s in zip(reps, padded))
                as_tuple = (q % 2 == 0) or len(reps) == 1
                add("sparse_repeat", {"shape": list(shp), "reps": list(reps), "fill": "sparse", "repeats_dim_gt1": gt1, "as_tuple": as_tuple,
                                      "call": "ok"}, mk_rep)
                q += 1

    def mk_ts(cell, rng):
        d = C.rand_ints(rng, tuple(cell["shape"]), 1, 5, zero_p={"none": 0.0, "some": 0.6, "all": 1.0}[cell["zeros"]])
        d["data"] = [v if rng.random() < 0.5 else -v for v in d["data"]]
        return {"D": d}
    for L in sizes([1025] + ([] if quick else [1023, 1024]), ex.get("to_sparse"), 4200, lo=2):
        for shp in ((L,), (3, L), (L, 2), (2, 33, 17)):
            add("to_sparse", {"shape": list(shp), "zeros": "some"}, mk_ts)

    # ---- permutations
    def mk_ap(cell, rng):
        n = cell["n"]
        M = pat(rng, tuple(cell["mb"]) + (n, n), -9, 9)
        kl = n if cell["part"] == "full" else rng.randint(n // 2, n - 1)
        kr = n if cell["part"] == "full" else rng.randint(1, n // 2)
        left = C.rand_perm(rng, cell["pb"], n, kl) if cell["which"] in ("left", "both") else None
        rpb = cell["pb"] if cell["which"] != "both" or len(cell["pb"]) < 2 else cell["pb"][1:]
        right = C.rand_perm(rng, rpb, n, kr) if cell["which"] in ("right", "both") else None
        return {"M": M, "left": left, "right": right}
    pairs = [((), ()), ((2,), (2,)), ((), (2,)), ((2,), ()), ((2, 1), (1, 3)), ((3,), (2, 3))]
    q = 0
    for n in sizes([100, 127, 128, 129] + ([] if quick else [255, 256, 257]), ex.get("apply_permutation"), 600, lo=2):
        for which in ("left", "right", "both"):
            for part in ("full", "partial"):
                for (mb, pb) in ([pairs[q % len(pairs)]] if quick else pairs[:2] + [pairs[2 + q % 4]]):
                    add("apply_permutation", {"input": ("tensor", "dense_operator")[q % 4 == 3], "which": which, "mb": list(mb), "pb": list(pb),
                                              "part": part, "n": n}, mk_ap)
                    q += 1
    q = 0
    for n in sizes([100, 255, 256, 257, 1025] + ([] if quick else [1023, 1024, 2049]), ex.get("inverse_permutation"), 8200, lo=2):
        for b in ([[(), (2,), (2, 3), (3, 1, 2)][q % 4]] if quick else [(), (2,), (2, 3), (3, 1, 2)]):
            add("inverse_permutation", {"b": list(b), "n": n}, lambda cell, rng: {"perm": C.rand_perm(rng, cell["b"], cell["n"], cell["n"])})
            q += 1

    # ---- broadcasting helpers: large batch / matrix dimensions
    for L in sizes([1025], ex.get("_matmul_broadcast_shape"), 4200, lo=2):
        for (a, b) in (([L, 2, 3], [L, 3, 2]), ([L, 2, 3], [1, 3, 2]), ([1, 2, 3], [L, 3, 2]), ([L, 2, 3], [L - 1, 3, 2]), ([2, L], [L, 3]),
                       ([2, L], [L + 1, 3]), ([2, 2, L], [L]), ([L, 1, 2, 3], [4, 3, 2])):
            add("_matmul_broadcast_shape", {"ab": a[:-2], "bb": "vec" if len(b) == 1 else b[:-2], "inner_ok": None, "bad": None},
                lambda cell, rng, a=a, b=b: {"a": a, "b": b})
        for shp in ((L,), (3, L)):
            add("_pad_with_singletons", {"shape": list(shp), "before": 2, "after": 1}, lambda cell, rng: {"x": pat(rng, tuple(cell["shape"]), -9, 9)})
    return out


# ------------------------------------------------------------------------------------------------ QR at the threshold

def qr_member(rng, m, n, singular):
    """banded, strictly diagonally dominant (cond <= 3) dyadic m x n matrix; `singular`: one zero column / row"""
    A = [[0.0] * n for _ in range(m)]
    for i in range(m):
        for j in range(max(0, i - 2), min(n, i + 3)):
            A[i][j] = (8.0 if i == j else 0.0) + rng.randint(-8, 8) / 8.0
    if singular:
        if m >= n:
            j = rng.randrange(n)
            for i in range(m):
                A[i][j] = 0.0
        else:
            r = rng.randrange(m)
            for j in range(n):
                A[r][j] = 0.0
    return A


def build_qr_cases(ctx, scan):
    ex = scan.get("extra_sizes", {})
    out = []
    base = [127, 128, 129]         # settings.stable_qr_cpu_threshold (default 128) compares with mat.shape[-1]
    for fn in ("stable_qr", "stable_pinverse"):
        q = 0
        for n in sizes(base, ex.get(fn), 300, lo=2):
            for (m, k) in ((n + 3, n), (n, n)) + (((n - 5, n),) if fn == "stable_pinverse" else ()):
                for fam in ("generic", "zero_col", "one_member_singular"):
                    b = [2] if fam == "one_member_singular" else ([] if q % 2 == 0 else [2])
                    for dt in (("float64", "float32") if not ctx.quick or q % 3 == 0 else ("float64",)):
                        rng = random.Random("%s/large/qr/%s/%d" % (ctx.seed, fn, len(out)))
                        cell = {"fn": fn, "m": m, "n": k, "b": b, "family": fam, "dtype": dt, "family_size": "large",
                                "shape_kind": "tall" if m > k else ("square" if m == k else "fat")}
                        nb = int(math.prod(b))
                        mats = [qr_member(rng, m, k, fam == "zero_col" or (fam == "one_member_singular" and i == nb - 1)) for i in range(nb)]
                        out.append({"kernel": fn, "cell": cell, "mats": mats})
                    q += 1
    return out


# ------------------------------------------------------------------------------------------------ running

def first_differences(obs, exp, limit=6):
    if "err" in obs or "err" in exp or "nonint" in obs or obs.get("shape") != exp.get("shape"):
        return None
    out = []
    mx = 0
    for i, (a, b) in enumerate(zip(obs["data"], exp["data"])):
        if a != b:
            mx = max(mx, abs(a - b))
            if len(out) < limit:
                out.append({"flat_index": i, "observed": a, "expected": b})
    return {"count": sum(1 for a, b in zip(obs["data"], exp["data"]) if a != b), "max_abs_err": mx, "first": out}


def compact(obs, limit=400):
    o = {k: v for k, v in obs.items() if k != "msg"}
    for k in ("data", "nonint"):
        if k in o and len(o[k]) > limit:
            o[k] = o[k][:limit] + ["... %d more" % (len(o[k]) - limit)]
    return o


def run(ctx, scan, transcribed_keys=()):
    """direct predicate on every large cell.  `transcribed_keys`: structural failure keys (json) that the small grid of THIS run
    found to be exactly a transcribed pinned defect (Coq-evaluated); only those may be absorbed by a known finding."""
    from . import c20 as C
    from . import c20_qr as Q
    cases = build_cases(ctx, scan)
    per_kernel, fails, evals, maxdim = {}, 0, 0, 0
    distinct = set()
    for kn, case in cases:
        exp = kn.oracle(case)
        for dn, obs in C.run_impl(kn, case):
            evals += 1
            per_kernel[kn.name] = per_kernel.get(kn.name, 0) + 1
            if C.same_obs(obs, exp):
                continue
            fails += 1
            key = C.full_key(kn, case, obs, exp)
            key["matches_transcribed_defect"] = json.dumps(dict(key, matches_transcribed_defect=True), sort_keys=True) in transcribed_keys
            key["size_family"] = "large"
            ctx.violation({"kind": "kernel-differs-from-dense-definition", "family": "large sizes (direct predicate, no Coq evaluation)",
                           "case": case, "dtype": dn, "observed": compact(obs), "expected_dense_definition": compact(exp),
                           "differences": first_differences(obs, exp)}, key=key)
        distinct.add(json.dumps(case["cell"], sort_keys=True))
    qr_cases = build_qr_cases(ctx, scan)
    qr_fail = 0
    for case in qr_cases:
        oracle, obs = Q.run_impl(case)
        evals += 1
        per_kernel[case["kernel"]] = per_kernel.get(case["kernel"], 0) + 1
        reason = Q.predicate(case, oracle, obs)
        if reason is not None:
            qr_fail += 1
            key = Q.key_of(case, reason)
            key["size_family"] = "large"
            ctx.violation({"kind": "qr-utility-violates-its-definition", "family": "large sizes", "case": case, "reason": reason,
                           "observed": {"err": obs.get("err"), "msg": obs.get("msg")} if "err" in obs else "see replay"}, key=key)
        distinct.add(json.dumps(case["cell"], sort_keys=True))
    sample = None
    for kn, case in cases:
        if kn.name == "toeplitz_matmul" and case["cell"]["n"] == 33:
            sample = {"kernel": kn.name, "cell": case["cell"], "c_first_8": case["c"]["data"][:8], "M_shape": case["M"]["shape"]}
            break
    return {"evaluations": evals, "cells": len(cases) + len(qr_cases), "distinct_cells": len(distinct), "failures": fails + qr_fail,
            "per_kernel": per_kernel, "sample": sample,
            "sizes": {"toeplitz_matmul": sorted({c["cell"]["n"] for k, c in cases if k.name == "toeplitz_matmul"}),
                      "sym_toeplitz_derivative_quadratic_form": sorted({c["cell"]["m"] for k, c in cases if k.name.startswith("sym_toeplitz_d")}),
                      "interpolation_large_dims": sorted({c["cell"][{"rows": "rows", "ndata": "n", "cols": "cols"}[c["cell"]["large"]]]
                                                          for k, c in cases if k.name in ("left_interp", "left_t_interp")}),
                      "apply_permutation": sorted({c["cell"]["n"] for k, c in cases if k.name == "apply_permutation"}),
                      "inverse_permutation": sorted({c["cell"]["n"] for k, c in cases if k.name == "inverse_permutation"}),
                      "qr_columns": sorted({c["cell"]["n"] for c in qr_cases})}}


def evidence_scan(scan):
    """the part of the scan that goes into the evidence"""
    cur = scan["current"]
    return {"files_scanned": scan["files"], "items": scan["items"], "baseline": scan["baseline"],
            "literals_ge_16": {f: sorted({int(t[1]) for t in v if t[0] == "int"}) for f, v in cur.items() if any(t[0] == "int" for t in v)},
            "operators_and_calls": {f: sorted({"%s %s" % (t[0], t[1]) for t in v if t[0] != "int"}) for f, v in cur.items()
                                    if any(t[0] != "int" for t in v)},
            "NEW_items_not_in_baseline": scan["new"], "size_family_widened_by": scan["extra_sizes"], "notes": scan["notes"]}


if __name__ == "__main__":
    if "--write-baseline" in sys.argv:
        sd = settings_defaults()
        cur = {f: scan_file(os.path.join(common.REPO, f), sd) for f in ANCHORED}
        with open(BASELINE_PATH, "w") as f:
            json.dump(cur, f, indent=1, sort_keys=True)
        print("baseline written:", BASELINE_PATH, sum(len(v) for v in cur.values()), "items")
    else:
        print(json.dumps(evidence_scan(source_scan()), indent=1))
