"""C07 part (c): the direct property predicate as a failing-input search.

    grid(quick)                      deterministic list of structural cells (JSON-able dicts; no values)
    run_grid(seed, quick, workers)   runs every cell: generate an operator expression, build the real operator and the
                                     dense assembly from the SAME leaf tensors, compare torch.autograd.grad of the
                                     scalarised entry point on both sides (all requires_grad subsets of the cell,
                                     memory_efficient on/off, max_cholesky_size default/0), shrink failures
    replay_case(replay)              one comparison from a self-contained replay dict
    plain_repro(replay)              stand-alone python snippet (text) reproducing a comparison

The seed only picks values; the set of cells is fixed.  Never writes files, never raises out of run_grid.
See c07_predlib.py for the comparison itself (tolerances, symmetric perturbations, deterministic probe vectors).
"""
import copy
import json
import random
import signal
import time
import traceback

import torch

from . import c07_predlib as L
from . import opbuild as ob

# ------------------------------------------------------------------------------------------------- the grid

NOT_ROOT = ("Zero", "Permutation", "TransposePermutation")
ROOTS = [c for c in ob.ALL if c not in NOT_ROOT]
# roots whose generator honours `child=`
CHILD_ROOTS = ["Kron", "KronAddedDiag", "AddedDiag", "Sum", "PsdSum", "Matmul", "ConstantMul", "BlockDiag",
               "BlockInterleaved", "SumBatch", "BatchRepeat", "Cat", "Interpolated", "Masked"]
PSD_CHILD_ROOTS = ["Kron", "KronAddedDiag", "AddedDiag", "Sum", "PsdSum", "ConstantMul", "BlockDiag",
                   "BlockInterleaved", "SumBatch", "BatchRepeat"]
CHILDREN = ["Dense", "Identity", "Toeplitz", "Diag", "ConstantDiag", "Kron", "Interpolated", "ConstantMul", "Matmul",
            "Sum", "BlockDiag", "BatchRepeat", "Chol", "Root", "Masked", "Kernel", "Triangular"]
CHILDREN_MORE = ["Mul", "Cat", "SumBatch", "LowRankRoot", "UserMinimal", "KronDiag", "AddedDiag", "BlockInterleaved",
                 "PsdSum", "LowRankRootAddedDiag"]
LEAF_CHILDREN = ["Dense", "Toeplitz", "Diag", "Root", "Kernel", "Chol", "ConstantDiag", "Triangular", "UserMinimal",
                 "LowRankRoot"]
PSD_LEAF_CHILDREN = ["Dense", "Toeplitz", "Diag", "Root", "Chol", "ConstantDiag", "LowRankRoot"]
PSD_ROOTS = list(ob.PSD_CAPABLE)
# psd instances of classes that are not in PSD_CAPABLE are obtained by wrapping:  AddedDiag(<X psd-ish>, Diag)
PSD_SPECIAL_ROOTS = ["psd_added_interp", "psd_added_kernel", "psd_added_masked", "psd_sum_interp", "psd_usermin",
                     "psd_interp"]
WRAP_ROOTS = ["Sum", "ConstantMul", "Matmul", "BatchRepeat", "AddedDiag", "Interpolated", "BlockDiag", "Masked"]

BATCHES_Q = [[], [2]]
BATCHES_T = [[], [2], [2, 1], [1, 3]]

GEN_FNS = [("matmul", "mat"), ("matmul", "vec"), ("matmul", "batched"), ("matmul", "bcast"), ("matmul", "smaller"),
           ("rmatmul", "mat"), ("rmatmul", "vec"), ("rmatmul", "batched"), ("rmatmul", "bcast"),
           ("diagonal", None), ("to_dense", None),
           ("getitem", "row_slice"), ("getitem", "int_row"), ("getitem", "tensor_idx"), ("getitem", "batch_idx"),
           ("getitem", "col_slice"),
           ("sum", "-1"), ("sum", "-2"), ("sum", "batch")]
SYM_FNS = [("solve", "mat"), ("solve", "vec"), ("solve", "batched"), ("solve", "bcast"), ("solve_lhs", "batched"),
           ("solve_lhs", "mat"),
           ("inv_quad", "mat"), ("inv_quad", "batched"), ("inv_quad", "noreduce"), ("inv_quad", "vec"),
           ("logdet", None), ("inv_quad_logdet", "batched"),
           ("root_decomposition", None), ("root_inv_decomposition", None), ("cholesky", None),
           ("pivoted_cholesky", None), ("sqrt_inv_matmul", "batched"), ("sqrt_inv_matmul_lhs", "batched")]
OTHER_GEN = [f for f in GEN_FNS if f != ("matmul", "mat")]

SPECIALS = ["sum_bcast_dense", "sum_expand_dense", "dense_expand", "diag_expand", "toeplitz_expand", "constmul_scalar",
            "constmul_21", "constmul_expand", "matmul_diag1", "matmul_nobatch_left", "batchrepeat_nobatch",
            "batchrepeat_b1", "batchrepeat_toeplitz", "interp_bcast_base", "interp_bcast_values", "kernel_bcast",
            "addeddiag_diag_nobatch", "addeddiag_base_nobatch", "kron_bcast", "blockdiag_expand", "root_expand",
            "chol_expand", "constdiag_expand", "sumbatch_expand", "mul_bcast", "cat_bcast", "masked_expand",
            "triangular_expand", "kernel_param_bcast", "lowrank_expand"]
# witnesses of defects of the pinned tree (always run, both tiers): see known_findings.d/C07-*.json
G_SPECIALS = ["constmul_identity", "sum_identity_first", "sum_interp_rect", "kron_interp_batched", "cat_interp_batched",
              "toeplitz_mid1", "chol_upper", "dense_batch3"]
SPECIALS_PSD = ["sum_bcast_dense", "sum_expand_dense", "dense_expand", "diag_expand", "toeplitz_expand",
                "constmul_scalar", "constmul_21", "constmul_expand", "batchrepeat_nobatch", "batchrepeat_b1",
                "batchrepeat_toeplitz", "addeddiag_diag_nobatch", "addeddiag_base_nobatch", "kron_bcast",
                "blockdiag_expand", "root_expand", "chol_expand", "constdiag_expand", "sumbatch_expand", "mul_bcast",
                "lowrank_expand"]


# ---- family I: entry points with several outputs / cache by-products x which outputs the loss uses
MULTI = [("diag_lanczos", "matfun"), ("diag_lanczos", "evecs_only"), ("diag_lanczos", "evals_only"), ("diag_lanczos", "all"),
         ("diag_symeig", "matfun"), ("diag_symeig", "evecs_only"), ("diag_default", "all"), ("eigh", "matfun"),
         ("eigh", "evecs_only"), ("eigh", "all"), ("svd", "matfun"), ("svd", "all"),
         ("root_inv_root", "both"), ("root_inv_root", "root_only"), ("root_inv_root", "inv_only"), ("root_inv_root", "rev_both"),
         ("iql_split", "iq_only"), ("iql_split", "ld_only"), ("chol_seq", "all"), ("chol_seq", "later_only"),
         ("chol_seq", "chol_only")]
SPECTRAL = {"diag_lanczos", "diag_symeig", "diag_default", "eigh", "svd"}
GAPS = ["1e-2", "5e-4", "1e-4"]          # relative gap (to the largest eigenvalue) of the closest eigenvalue pair
GAP_CLS = ["dense", "sum", "cmul", "added_diag", "kron1", "root"]
MULTI_ROOTS = ["Dense", "Toeplitz", "Sum", "AddedDiag", "Kron", "ConstantMul", "Diag", "SumBatch"]


def _fspec(x):
    return {"shape": list(x.shape), "data": [float(v) for v in x.reshape(-1).tolist()]}


def gap_expr(rng, name, batch):
    """positive definite 4 x 4 operators with a prescribed spectrum: one pair of distinct eigenvalues at relative distance
    `gap` (of the largest eigenvalue), all others well separated; random orthogonal eigenvectors; float leaves"""
    _, g, cls = name.split(":")
    g = float(g)
    mats, roots = [], []
    for bi in range(2 if batch else 1):
        sv = [3.0, 3.0 * (1 - g), 1.9, 1.1] if bi == 0 else [2.6, 1.5, 1.5 - 2.6 * g, 0.7]
        M = torch.tensor([[rng.uniform(-1, 1) for _ in range(4)] for _ in range(4)], dtype=torch.float64)
        Q, _ = torch.linalg.qr(M)
        S = torch.tensor(sv, dtype=torch.float64)
        A = Q @ torch.diag(S) @ Q.mT
        mats.append((A + A.mT) / 2)
        roots.append(Q * S.sqrt())
    A = torch.stack(mats) if batch else mats[0]
    R = torch.stack(roots) if batch else roots[0]
    b = [2] if batch else []
    if cls == "dense":
        return {"cls": "Dense", "t": _fspec(A)}
    if cls == "sum":
        A2 = ob.tt(ob.rand_t(rng, b + [4, 4], -1, 1)) * 0.25
        A2 = (A2 + A2.mT) / 2
        return {"cls": "Sum", "ops": [{"cls": "Dense", "t": _fspec(A - A2)}, {"cls": "Dense", "t": _fspec(A2)}]}
    if cls == "cmul":
        return {"cls": "ConstantMul", "base": {"cls": "Dense", "t": _fspec(A / 2.0)}, "c": _fspec(torch.full(b, 2.0, dtype=torch.float64))}
    if cls == "added_diag":
        return {"cls": "AddedDiag", "base": {"cls": "Dense", "t": _fspec(A - 0.5 * torch.eye(4, dtype=torch.float64))},
                "diag": {"cls": "ConstantDiag", "c": _fspec(torch.full(b + [1], 0.5, dtype=torch.float64)), "n": 4}}
    if cls == "kron1":
        return {"cls": "Kron", "ops": [{"cls": "Dense", "t": _fspec(A)}, {"cls": "Dense", "t": _fspec(torch.ones(b + [1, 1], dtype=torch.float64))}]}
    if cls == "root":
        return {"cls": "Root", "root": _fspec(R)}
    raise ValueError(name)


def _cell(part, root, child, psd, batch, fn, kind, rg, chol0, m=3, special=None, wrap=None):
    return {"part": part, "root": root, "child": child, "psd": bool(psd), "batch": list(batch), "m": m,
            "fn": fn, "kind": kind, "rg": rg, "chol0": chol0, "special": special, "wrap": wrap}


def _takes_child(root):
    return root in CHILD_ROOTS


def grid(quick):
    """deterministic enumeration of the structural cells. rg: 'all' | 'rot' (all + one rotating single/complement) |
    'enum' (every subset demanded by the property's quantifier, plus rhs-off / only-rhs).  chol0: 'no' | 'both' | 'rot'"""
    B = BATCHES_Q if quick else BATCHES_T
    cells = []
    ctr = [0]

    def rot(lst, salt=0):
        ctr[0] += 1
        return lst[(ctr[0] + salt) % len(lst)]

    def chol_mode(fn):
        return "both" if fn in L.CHOL0_FNS else "no"

    # ---- C: every root x general entry points (leaf children rotate)
    for ri, root in enumerate(ROOTS):
        ch = (lambda: rot(LEAF_CHILDREN)) if _takes_child(root) else (lambda: None)
        if quick:
            cells.append(_cell("C", root, ch(), False, B[ri % len(B)], "matmul", "mat", "rot", "no"))
            for j in range(2):
                fn, kind = OTHER_GEN[(ri * 2 + j * 7 + j) % len(OTHER_GEN)]
                cells.append(_cell("C", root, ch(), False, B[(ri + 1 + j) % len(B)], fn, kind, "all", "no"))
        else:
            for bi, b in enumerate(B):
                cells.append(_cell("C", root, ch(), False, b, "matmul", "mat", "enum" if bi < 2 else "rot", "no"))
            for fi, (fn, kind) in enumerate(OTHER_GEN):
                for bb in (B[(ri + fi) % len(B)], B[(ri + fi + 2) % len(B)]):
                    cells.append(_cell("C", root, ch(), False, bb, fn, kind, "rot", "no"))
    # ---- D: every psd root x symmetric-only entry points
    proots = PSD_ROOTS + PSD_SPECIAL_ROOTS
    for ri, root in enumerate(proots):
        special = root if root in PSD_SPECIAL_ROOTS else None
        rname = "AddedDiag" if special else root
        ch = (lambda: rot(PSD_LEAF_CHILDREN)) if (_takes_child(root) and not special) else (lambda: None)
        if quick:
            for j in range(3):
                fn, kind = SYM_FNS[(ri * 3 + j * 5) % len(SYM_FNS)]
                cells.append(_cell("D", rname, ch(), True, B[(ri + j) % len(B)], fn, kind, "all",
                                   "both" if fn in L.CHOL0_FNS else "no", special=special))
        else:
            for fi, (fn, kind) in enumerate(SYM_FNS):
                for bb in ((B[(ri + fi) % len(B)], B[(ri + fi + 1) % len(B)]) if fi % 2 == 0 else (B[(ri + fi) % len(B)],)):
                    cells.append(_cell("D", rname, ch(), True, bb, fn, kind,
                                       "enum" if (fn, kind) in (("solve", "mat"), ("inv_quad_logdet", "batched")) else "rot",
                                       chol_mode(fn), special=special))
    # ---- A: nestings x general entry points
    kids = CHILDREN if quick else CHILDREN + CHILDREN_MORE
    for ci, child in enumerate(kids):
        roots = [CHILD_ROOTS[(ci * 3 + j * 5) % len(CHILD_ROOTS)] for j in range(2)] if quick else CHILD_ROOTS
        for ri, root in enumerate(roots):
            b = B[(ci + ri) % len(B)]
            mk = [k for k in ("mat", "batched", "bcast", "smaller", "vec")][(ci + ri) % 5]
            cells.append(_cell("A", root, child, False, b, "matmul", mk, "rot", "no"))
            if not quick:
                fn, kind = OTHER_GEN[(ci * 5 + ri * 3) % len(OTHER_GEN)]
                cells.append(_cell("A", root, child, False, B[(ci + ri + 1) % len(B)], fn, kind, "rot", "no"))
    # ---- B: psd nestings x symmetric entry points
    pkids = [c for c in kids if c in ob.PSD_CAPABLE]
    for ci, child in enumerate(pkids):
        roots = [PSD_CHILD_ROOTS[(ci * 3) % len(PSD_CHILD_ROOTS)]] if quick else PSD_CHILD_ROOTS
        for ri, root in enumerate(roots):
            nf = 1 if quick else 3
            for j in range(nf):
                fn, kind = SYM_FNS[(ci * 7 + ri * 3 + j * 5) % len(SYM_FNS)]
                cells.append(_cell("B", root, child, True, B[(ci + ri + j) % len(B)], fn, kind,
                                   "all" if quick else "rot", ("rot" if quick else "both") if fn in L.CHOL0_FNS else "no"))
    # ---- E: nestings that opbuild.gen does not produce (child generated first, then wrapped)
    wkids = [c for c in ROOTS if c not in ("Identity",)] + ["Identity"]
    for wi, w in enumerate(WRAP_ROOTS):
        ks = [wkids[(wi * 4 + j * 9) % len(wkids)] for j in range(2)] if quick else wkids
        for ki, k in enumerate(ks):
            b = B[(wi + ki) % len(B)]
            cells.append(_cell("E", w, k, False, b, "matmul", "mat" if (wi + ki) % 2 else "batched", "rot", "no", wrap=w))
            if not quick and k in ob.PSD_CAPABLE and w in ("Sum", "ConstantMul", "BatchRepeat", "AddedDiag", "BlockDiag"):
                fn, kind = SYM_FNS[(wi * 5 + ki * 7) % len(SYM_FNS)]
                cells.append(_cell("E", w, k, True, b, fn, kind, "rot", chol_mode(fn), wrap=w))
    # ---- F: broadcast / expanded parameters (gradients have to be summed back)
    sp = SPECIALS[::3] if quick else SPECIALS
    for si, s in enumerate(sp):
        fns = [("matmul", "batched")] if quick else [("matmul", "batched"), ("matmul", "mat"), ("to_dense", None),
                                                    ("diagonal", None), ("rmatmul", "batched"), ("sum", "batch"),
                                                    ("getitem", "batch_idx")]
        for fn, kind in fns:
            cells.append(_cell("F", "special", None, False, [2], fn, kind, "rot" if quick else "enum", "no", special=s))
    sp = SPECIALS_PSD[1::4] if quick else SPECIALS_PSD
    for si, s in enumerate(sp):
        fns = [SYM_FNS[(si * 5) % len(SYM_FNS)]] if quick else [("solve", "batched"), ("solve", "mat"), ("inv_quad", "mat"),
                                                               ("inv_quad_logdet", "batched"), ("logdet", None),
                                                               ("root_decomposition", None), ("cholesky", None),
                                                               ("sqrt_inv_matmul", "batched")]
        for fn, kind in fns:
            cells.append(_cell("F", "special", None, True, [2], fn, kind, "rot", chol_mode(fn), special=s))
    # ---- H: right-hand sides / left-hand sides whose batch shape is broadcast against a two-dimensional operator batch in
    # every way (interior / leading singleton, fewer dimensions, fewer dimensions + singleton): the gradient has to be
    # summed back over exactly the broadcast dimensions
    hroots = ["Dense", "Toeplitz", "Sum", "Matmul", "ConstantMul", "Diag", "Kron", "BlockDiag", "Interpolated", "BatchRepeat",
              "Masked", "Triangular"]
    hkinds = [("matmul", "inner1"), ("matmul", "lead1"), ("matmul", "mid1"), ("matmul", "smaller"), ("rmatmul", "inner1"),
              ("rmatmul", "mid1"), ("rmatmul", "lead1")]
    for ri, root in enumerate(hroots):
        ks = [hkinds[(ri + j * 3) % len(hkinds)] for j in range(2)] + [("matmul", "inner1")] if quick else hkinds
        seen_k = set()
        for fn, kind in ks:
            if (fn, kind) in seen_k:
                continue
            seen_k.add((fn, kind))
            cells.append(_cell("H", root, (rot(LEAF_CHILDREN) if _takes_child(root) else None), False, [2, 3], fn, kind,
                               "all" if quick else "rot", "no", m=2))
    # ---- I: multi-output entry points and sequences on one object x every choice of outputs the loss depends on;
    # spectra with a close-but-distinct eigenvalue pair (float leaves) and ordinary integer instances
    for gi, g in enumerate(GAPS):
        for fi, (fn, kind) in enumerate(MULTI):
            clss = [GAP_CLS[(gi + fi) % len(GAP_CLS)]] if quick else GAP_CLS
            if quick and fn in ("diag_lanczos", "diag_default") and "dense" not in clss:
                clss = ["dense"] + clss      # Diagonalization.backward of the pinned tree only serves a single dense leaf
            for ci, cl in enumerate(clss):
                for bt in ([[] if (gi + fi) % 3 else [2]] if quick else [[], [2]]):
                    cells.append(_cell("I", "special", None, True, bt, fn, kind, "all", chol_mode(fn), m=4,
                                       special="gap:%s:%s" % (g, cl)))
    for ri, root in enumerate(MULTI_ROOTS):
        fks = [MULTI[(ri * 5 + j * 8) % len(MULTI)] for j in range(3)] if quick else MULTI
        for j, (fn, kind) in enumerate(fks):
            ch = rot(PSD_LEAF_CHILDREN) if _takes_child(root) else None
            cells.append(_cell("I", root, ch, True, B[(ri + j) % len(B)], fn, kind, "all", chol_mode(fn)))
    # ---- J: the CG / stochastic-Lanczos-quadrature path (max_cholesky_size 0) with an ACTIVE preconditioner (AddedDiag-type
    # operators, min_preconditioning_size lowered, pivoted-Cholesky rank 2 < n); every output carries random weights, so the
    # upstream gradients of logdet / inv_quad are != 1 and differ per batch member
    jroots = [("AddedDiag", c) for c in ("Dense", "Toeplitz", "Root", "Kron", "ConstantMul")] + \
             [("KronAddedDiag", "Dense"), ("LowRankRootAddedDiag", None)]
    jspecials = ["psd_added_interp", "psd_added_kernel", "psd_added_masked"]
    jfns = [("logdet", None), ("inv_quad_logdet", "batched"), ("iql_split", "ld_only"), ("iql_split", "iq_only"),
            ("solve", "batched"), ("inv_quad", "batched")]
    jcells = [(r, c, None) for r, c in jroots] + [("AddedDiag", None, sp_) for sp_ in jspecials]
    for ji, (root, child, sp_) in enumerate(jcells):
        fks = [jfns[(ji + j * 2) % len(jfns)] for j in range(2)] + ([("logdet", None)] if ji % 2 else []) if quick else jfns
        done_j = set()
        for j, (fn, kind) in enumerate(fks):
            if (fn, kind) in done_j:
                continue
            done_j.add((fn, kind))
            for bt in ([B[(ji + j) % len(B)]] if quick else B):
                c_ = _cell("J", root, child, True, bt, fn, kind, "all" if quick else "rot", "no", m=4, special=sp_)
                c_["chol0"], c_["precond"] = "yes", True
                cells.append(c_)
    # ---- G: witnesses of the pinned tree's defects (dedicated cells; the seed only picks values)
    for s in G_SPECIALS:
        kinds = {"toeplitz_mid1": [("matmul", "batched"), ("matmul", "bcast3")],
                 "dense_batch3": [("matmul", "mid1"), ("matmul", "smaller")]}.get(s, [("matmul", "batched")])
        for fn, kind in kinds:
            cells.append(_cell("G", "special", None, False, [2], fn, kind, "all", "no", special=s))
    for i, c in enumerate(cells):
        c["idx"] = i
    return cells


# ------------------------------------------------------------------------------------------------- expressions

def _psd_dense(rng, batch, m):
    return {"cls": "Dense", "t": ob.psd_int(rng, list(batch), m)}


def _expanded(spec, target):
    s = dict(spec)
    s["expand"] = list(target)
    return s


def special_expr(rng, name, psd, m):
    """hand-made expressions with broadcast (smaller-batch) or expanded float leaves. Operator batch is [2] (or [2,3])."""
    g = lambda cls, batch, **kw: ob.gen(rng, cls, batch=batch, m=kw.pop("m", m), psd=psd, **kw)
    dense = lambda batch, mm=m, nn=None: g("Dense", batch, m=mm) if psd or nn is None else ob.gen(rng, "Dense", batch=batch, m=mm, n=nn)
    if name == "sum_bcast_dense":
        return {"cls": "Sum", "ops": [dense([1]), dense([2])]}
    if name == "sum_expand_dense":
        a = dense([1])
        a["t"] = _expanded(a["t"], [2, m, m])
        return {"cls": "Sum", "ops": [a, dense([2])]}
    if name == "dense_expand":
        a = dense([])
        a["t"] = _expanded(a["t"], [2, m, m])
        return a
    if name == "diag_expand":
        a = g("Diag", [])
        a["d"] = _expanded(a["d"], [2, m])
        return a
    if name == "constdiag_expand":
        a = g("ConstantDiag", [])
        a["c"] = _expanded(a["c"], [2, 1])
        return a
    if name == "toeplitz_expand":
        a = g("Toeplitz", [])
        a["col"] = _expanded(a["col"], [2, m])
        return a
    if name == "root_expand":
        a = g("Root", [])
        a["root"] = _expanded(a["root"], [2] + a["root"]["shape"])
        return a
    if name == "lowrank_expand":
        a = g("LowRankRoot", [])
        a["root"] = _expanded(a["root"], [2] + a["root"]["shape"])
        return {"cls": "LowRankRootAddedDiag", "root": a, "diag": ob.gen(rng, "Diag", batch=[2], m=m, psd=True)}
    if name == "chol_expand":
        a = g("Chol", [])
        a["t"] = _expanded(a["t"], [2, m, m])
        return a
    if name == "triangular_expand":
        a = ob.gen(rng, "Triangular", batch=[], m=m)
        a["t"] = _expanded(a["t"], [2, m, m])
        return a
    if name == "constmul_scalar":
        return {"cls": "ConstantMul", "base": dense([2, 3]), "c": ob.rand_t(rng, [], 1, 3)}
    if name == "constmul_21":
        return {"cls": "ConstantMul", "base": dense([2, 3]), "c": ob.rand_t(rng, [2, 1], 1, 3)}
    if name == "constmul_expand":
        return {"cls": "ConstantMul", "base": dense([2]), "c": _expanded(ob.rand_t(rng, [], 1, 3), [2])}
    if name == "matmul_diag1":
        return {"cls": "Matmul", "l": ob.gen(rng, "Diag", batch=[1], m=m), "r": ob.gen(rng, "Dense", batch=[2], m=m, n=2)}
    if name == "matmul_nobatch_left":
        return {"cls": "Matmul", "l": ob.gen(rng, "Dense", batch=[], m=m, n=2), "r": ob.gen(rng, "Dense", batch=[2], m=2, n=m)}
    if name == "batchrepeat_nobatch":
        return {"cls": "BatchRepeat", "base": dense([]), "rep": [2]}
    if name == "batchrepeat_b1":
        return {"cls": "BatchRepeat", "base": dense([1]), "rep": [2]}
    if name == "batchrepeat_toeplitz":
        return {"cls": "BatchRepeat", "base": g("Toeplitz", [1]), "rep": [2]}
    if name == "interp_bcast_base":
        e = ob.gen(rng, "Interpolated", batch=[2], m=m, child="Dense")
        e["base"] = ob.gen(rng, "Dense", batch=[], m=e["base"]["t"]["shape"][-2], n=e["base"]["t"]["shape"][-1])
        return e
    if name == "interp_bcast_values":
        e = ob.gen(rng, "Interpolated", batch=[], m=m, child="Dense")
        e["base"] = ob.gen(rng, "Dense", batch=[2], m=e["base"]["t"]["shape"][-2], n=e["base"]["t"]["shape"][-1])
        return e
    if name == "kernel_bcast":
        return {"cls": "Kernel", "x1": ob.rand_t(rng, [2, m, 2], -2, 2), "x2": ob.rand_t(rng, [m, 2], -2, 2),
                "square": True, "c": None}
    if name == "kernel_param_bcast":
        return {"cls": "Kernel", "x1": ob.rand_t(rng, [2, m, 2], -2, 2), "x2": ob.rand_t(rng, [2, m, 2], -2, 2),
                "square": False, "c": ob.rand_t(rng, [1, 1, 1], 1, 3)}
    if name == "addeddiag_diag_nobatch":
        return {"cls": "AddedDiag", "base": dense([2]), "diag": ob.gen(rng, "Diag", batch=[], m=m, psd=True)}
    if name == "addeddiag_base_nobatch":
        return {"cls": "AddedDiag", "base": dense([]), "diag": ob.gen(rng, "ConstantDiag", batch=[2], m=m, psd=True)}
    if name == "kron_bcast":
        return {"cls": "Kron", "ops": [dense([2], 2), dense([], 2)]}
    if name == "blockdiag_expand":
        a = dense([])
        a["t"] = _expanded(a["t"], [2, 2, m, m])
        return {"cls": "BlockDiag", "base": a, "block_dim": -3}
    if name == "sumbatch_expand":
        a = dense([])
        a["t"] = _expanded(a["t"], [2, 3, m, m])
        return {"cls": "SumBatch", "base": a, "block_dim": -3}
    if name == "mul_bcast":
        return {"cls": "Mul", "l": g("Root", [2]), "r": g("Root", [1])}
    if name == "cat_bcast":
        a = ob.gen(rng, "Dense", batch=[], m=m, n=2)
        a["t"] = _expanded(a["t"], [2, m, 2])
        return {"cls": "Cat", "ops": [a, ob.gen(rng, "Dense", batch=[2], m=m, n=1)], "dim": -1}
    if name == "constmul_identity":
        return {"cls": "ConstantMul", "base": {"cls": "Identity", "n": m, "batch": [2]}, "c": ob.rand_t(rng, [2], 1, 3)}
    if name == "sum_identity_first":
        return {"cls": "Sum", "ops": [{"cls": "Identity", "n": m, "batch": [2]}, dense([2])]}
    if name == "sum_interp_rect":
        it = ob.gen(rng, "Interpolated", batch=[2], m=m, child="Dense")
        it["base"] = ob.gen(rng, "Dense", batch=[2], m=2, n=3)
        for k, sz in (("li", 2), ("ri", 3)):
            it[k] = dict(it[k], data=[v % sz for v in it[k]["data"]])
        return {"cls": "Sum", "ops": [it, ob.gen(rng, "Dense", batch=[2], m=ob.shape_of(it)[-2], n=ob.shape_of(it)[-1])]}
    if name in ("kron_interp_batched", "cat_interp_batched"):
        it = ob.gen(rng, "Interpolated", batch=[2], m=2, child="Dense")
        if name == "kron_interp_batched":
            return {"cls": "Kron", "ops": [it, ob.gen(rng, "Dense", batch=[2], m=2, n=2)]}
        return {"cls": "Cat", "ops": [it, ob.gen(rng, "Dense", batch=[2], m=1, n=ob.shape_of(it)[-1])], "dim": -2}
    if name == "toeplitz_mid1":
        return ob.gen(rng, "Toeplitz", batch=[2, 1], m=m)
    if name == "dense_batch3":
        return ob.gen(rng, "Dense", batch=[2, 2, 3], m=2, n=2)
    if name == "chol_upper":
        a = ob.gen(rng, "Chol", batch=[2], m=m)
        if not a["upper"]:
            a = {"cls": "Chol", "t": ob.from_torch(ob.tt(a["t"]).mT.contiguous()), "upper": True}
        return a
    if name == "masked_expand":
        e = ob.gen(rng, "Masked", batch=[], m=m, child="Dense")
        e["base"]["t"] = _expanded(e["base"]["t"], [2] + e["base"]["t"]["shape"])
        return e
    raise ValueError("unknown special %s" % name)


def psd_special(rng, name, batch, m):
    batch = list(batch)
    if name in ("psd_added_interp", "psd_sum_interp", "psd_interp"):
        ch = {"psd_added_interp": "Dense", "psd_sum_interp": "Toeplitz", "psd_interp": "Dense"}[name]
        base = ob.gen(rng, "Interpolated", batch=batch, m=(2 if name == "psd_interp" else m), psd=True, child=ch)
        if name == "psd_interp":
            return base
        N = ob.shape_of(base)[-1]
        if name == "psd_added_interp":
            return {"cls": "AddedDiag", "base": base, "diag": ob.gen(rng, "Diag", batch=batch, m=N, psd=True)}
        return {"cls": "Sum", "ops": [base, ob.gen(rng, "Diag", batch=batch, m=N, psd=True)]}
    if name == "psd_added_kernel":
        x = ob.rand_t(rng, batch + [m, 2], -2, 2)
        base = {"cls": "Kernel", "x1": x, "x2": x, "square": False, "c": None}
        return {"cls": "AddedDiag", "base": base, "diag": ob.gen(rng, "Diag", batch=batch, m=m, psd=True)}
    if name == "psd_added_masked":
        inner = ob.gen(rng, "Dense", batch=batch, m=m + 1, psd=True)
        keep = list(range(m + 1))
        rng.shuffle(keep)
        ks = set(keep[:m])
        mask = {"shape": [m + 1], "data": [1 if i in ks else 0 for i in range(m + 1)], "bool": True}
        base = {"cls": "Masked", "base": inner, "row_mask": mask, "col_mask": dict(mask)}
        return {"cls": "AddedDiag", "base": base, "diag": ob.gen(rng, "ConstantDiag", batch=batch, m=m, psd=True)}
    if name == "psd_usermin":
        return ob.gen(rng, "UserMinimal", batch=batch, m=m, psd=True)
    raise ValueError(name)


def wrap_expr(rng, w, child, psd):
    """root class `w` around an already generated child expression"""
    shp = ob.shape_of(child)
    batch, m, n = shp[:-2], shp[-2], shp[-1]
    if w == "Sum":
        other = _psd_dense(rng, batch, m) if psd else ob.gen(rng, "Dense", batch=batch, m=m, n=n)
        return {"cls": "Sum", "ops": [child, other] if rng.random() < 0.5 else [other, child]}
    if w == "ConstantMul":
        return {"cls": "ConstantMul", "base": child,
                "c": ob.rand_t(rng, rng.choice([[], batch]) if batch else [], 1, 3) if psd else
                ob.rand_t(rng, rng.choice([[], batch]) if batch else [], nonzero=True)}
    if w == "Matmul":
        if rng.random() < 0.5:
            return {"cls": "Matmul", "l": child, "r": ob.gen(rng, "Dense", batch=batch, m=n, n=rng.choice([1, 2, 3]))}
        return {"cls": "Matmul", "l": ob.gen(rng, "Dense", batch=batch, m=rng.choice([1, 2, 3]), n=m), "r": child}
    if w == "BatchRepeat":
        return {"cls": "BatchRepeat", "base": child, "rep": [2] + [1] * len(batch)}
    if w == "AddedDiag":
        if m != n:
            raise L.Ungenerated("AddedDiag needs a square child")
        return {"cls": "AddedDiag", "base": child,
                "diag": ob.gen(rng, rng.choice(["Diag", "ConstantDiag"]), batch=batch, m=m, psd=True)}
    if w == "Interpolated":
        k = rng.choice([1, 2])
        mm, nn = rng.choice([2, 3]), rng.choice([2, 3])
        import math as _m
        li = {"shape": batch + [mm, k], "data": [rng.randrange(m) for _ in range(int(_m.prod(batch + [mm, k])))], "long": True}
        ri = {"shape": batch + [nn, k], "data": [rng.randrange(n) for _ in range(int(_m.prod(batch + [nn, k])))], "long": True}
        return {"cls": "Interpolated", "base": child, "li": li, "lv": ob.rand_t(rng, batch + [mm, k], -2, 2),
                "ri": ri, "rv": ob.rand_t(rng, batch + [nn, k], -2, 2)}
    if w == "BlockDiag":
        if not batch:
            raise L.Ungenerated("BlockDiag needs a batch dimension to consume")
        if m != n:
            raise L.Ungenerated("BlockDiag needs square blocks")
        return {"cls": "BlockDiag", "base": child, "block_dim": -3}
    if w == "Masked":
        def mask(sz):
            idx = list(range(sz))
            rng.shuffle(idx)
            ks = set(idx[:max(1, sz - 1)])
            return {"shape": [sz], "data": [1 if i in ks else 0 for i in range(sz)], "bool": True}
        return {"cls": "Masked", "base": child, "row_mask": mask(m), "col_mask": mask(n)}
    raise ValueError(w)


def gen_expr(rng, cell):
    root, child, psd, batch, m = cell["root"], cell["child"], cell["psd"], cell["batch"], cell["m"]
    if cell.get("wrap"):
        inner_batch = list(batch) + ([2] if cell["wrap"] == "BlockDiag" else [])
        c = ob.gen(rng, child, batch=inner_batch, m=m, psd=psd, depth=1)
        return wrap_expr(rng, cell["wrap"], c, psd)
    sp = cell.get("special")
    if sp and sp.startswith("gap:"):
        return gap_expr(rng, sp, batch)
    if sp and sp.startswith("psd_"):
        return psd_special(rng, sp, batch, m)
    if sp:
        return special_expr(rng, sp, psd, m)
    depth = 2 if child in ob.COMPOSITE else 1
    return ob.gen(rng, root, batch=batch, m=m, depth=depth, psd=psd, child=child)


def validate(e, cell, fn):
    """-> None or a reason why this expression is not usable for the cell"""
    Lv = L.Leaves(e)
    if Lv.build_err is not None:
        return "build raises: " + Lv.build_err[0]
    op = Lv.op
    if not L.valid_shapes(e):
        return "generator artefact: child shapes do not match what the class documents"
    try:
        rep = op.representation()
        op.representation_tree()
    except Exception as ex:  # noqa
        return "representation raises: " + L.exc_str(ex)
    with torch.no_grad():
        D = Lv.dense()
    if list(op.shape) != list(D.shape):
        return "operator shape %s != dense shape %s" % (list(op.shape), list(D.shape))
    sq = D.shape[-1] == D.shape[-2]
    if fn in L.SYM_FNS or fn == "diagonal":
        if not sq:
            return "not square"
    if D.shape[-1] == 0 or D.shape[-2] == 0:
        return "empty"
    if D.shape[-1] > 12 or D.shape[-2] > 12:
        return "too large"
    if fn in L.SYM_FNS:
        Dd = D.detach()
        if float((Dd - Dd.mT).abs().max()) > 1e-13 * max(1.0, float(Dd.abs().max())):
            return "not symmetric"
        ev = torch.linalg.eigvalsh(Dd)
        if float(ev.min()) <= 0.05 or float(ev.max() / ev.min().clamp_min(1e-12)) > 2e3:
            return "not (well conditioned) positive definite: eig range [%.3g, %.3g]" % (float(ev.min()), float(ev.max()))
    return None


def rg_plan(k, mode, salt, has_rhs):
    """[(kind, mask, rhs_rg)] over k float leaves"""
    out = []
    full = [True] * k
    if k == 0:
        return [("only_rhs", [], True)] if has_rhs else []
    out.append(("all", full, True))
    if mode == "all":
        return out
    singles = [("single", [i == j for i in range(k)], True) for j in range(k)] if k > 1 else []
    compls = [("compl", [i != j for i in range(k)], True) for j in range(k)] if k > 2 else []
    if mode == "rot":
        pool = singles + compls
        if has_rhs:
            pool = pool + [("rhs_off", full, False), ("only_rhs", [False] * k, True)]
        if pool:
            out.append(pool[salt % len(pool)])
        return out
    # enum
    if k <= 3:
        for bits in range(1, 2 ** k - 1):
            mask = [bool(bits >> i & 1) for i in range(k)]
            nm = "single" if sum(mask) == 1 else ("compl" if sum(mask) == k - 1 else "mixed")
            out.append((nm, mask, True))
    else:
        out += singles + compls
    if has_rhs:
        out.append(("rhs_off", full, False))
        out.append(("only_rhs", [False] * k, True))
        if k > 1:
            out.append(("single_rhs_off", [i == salt % k for i in range(k)], False))
    return out


def sanitize(e, cell):
    """CholLinearOperator(upper=True) differentiates the wrong matrix on the pinned tree (known finding, C14/C01): it is
    exercised in the cells dedicated to Chol (root / child / special names it) and replaced by the equal lower-factor
    instance elsewhere, so that it cannot mask other failures of the composite around it."""
    chol_cell = "Chol" in (cell.get("root"), cell.get("child")) or "chol" in str(cell.get("special") or "")
    id_cell = "Identity" in (cell.get("root"), cell.get("child")) or "identity" in str(cell.get("special") or "")
    if chol_cell and id_cell:
        return e

    def walk(x):
        if x["cls"] == "Identity" and not id_cell:     # same matrix without the pinned tree's spurious gradient slot
            b = list(x.get("batch", []))
            n1 = 1
            for d in b:
                n1 *= d
            return {"cls": "ConstantDiag", "c": ob.T(b + [1], [1] * n1), "n": x["n"]}
        if x["cls"] == "Chol" and x.get("upper") and not x["t"].get("expand") and not chol_cell:
            t = ob.tt(x["t"]).mT.contiguous()
            return {"cls": "Chol", "t": ob.from_torch(t), "upper": False}
        y = dict(x)
        if "ops" in y:
            y["ops"] = [walk(k) for k in y["ops"]]
        for k in L.CHILD_KEYS:
            if isinstance(y.get(k), dict) and "cls" in y[k]:
                y[k] = walk(y[k])
        return y
    return walk(e)


def make_case(cell, seed):
    """cell + seed -> {expr, fn, fn_args, seed}; raises Ungenerated"""
    struct = {k: v for k, v in cell.items() if k != "idx"}
    s0 = L.mix(seed, struct)
    rng = random.Random(s0)
    last = None
    for attempt in range(10):
        try:
            e = gen_expr(rng, cell)
            if isinstance(e, tuple):
                e = e[0]
            e = L.reshare(sanitize(e, cell))
            why = validate(e, cell, cell["fn"])
            if why is None:
                shape = ob.shape_of(e)
                if cell["kind"] == "vec" and len(shape) > 2 and cell["fn"] in L.SYM_FNS:
                    raise L.Ungenerated("needs no batch: 1-D right-hand side with a batched operator (convention is C05's)")
                fa = L.gen_fn_args(rng, cell["fn"], cell["kind"], shape)
                if cell["fn"] in SPECTRAL:
                    with torch.no_grad():
                        ev = torch.linalg.eigvalsh(L.Leaves(e).dense())
                    dist = (ev.unsqueeze(-1) - ev.unsqueeze(-2)).abs() + torch.eye(ev.shape[-1], dtype=ev.dtype) * 1e9
                    gap = float((dist.flatten(-2).min(-1)[0] / ev.abs().max(-1)[0]).min())
                    if gap < 1e-6:
                        raise L.Ungenerated("needs distinct eigenvalues: eigenvector derivatives are undefined at repeated ones")
                    fa["gap"] = gap
                return {"expr": e, "fn": cell["fn"], "fn_args": fa, "seed": s0 % (2 ** 31)}
            last = why
        except L.Ungenerated as ex:
            last = str(ex)
            if "needs" in last:
                break
        except Exception as ex:  # noqa  (opbuild.gen / build raise for some combinations)
            last = "gen raises: " + L.exc_str(ex)
    raise L.Ungenerated(last or "?")


# ------------------------------------------------------------------------------------------------- evaluation

def tree_flags(e):
    has_up = any(x["cls"] == "Chol" and x.get("upper") for x in L.walk(e))
    has_id = any(x["cls"] == "Identity" for x in L.walk(e))
    return has_up, has_id


def batch_of(e):
    try:
        return ob.shape_of(e)[:-2]
    except Exception:  # noqa
        return None


def key_of(case, raw, rgkind):
    e = case["expr"]
    has_up, has_id = tree_flags(e)
    off = raw.get("offender") or {}
    return {"layer": "autograd", "fn": case["fn"], "fn_kind": case["fn_args"].get("kind"), "root": e["cls"],
            "tree": ob.describe(e), "leaf_cls": off.get("owner", "?"), "fail": raw.get("fail"),
            "me": bool(case["me"]), "chol0": bool(case["chol0"]), "precond": bool(case.get("precond")),
            "batch": str(batch_of(e)), "rg": rgkind,
            "forward_agrees": bool(raw.get("forward_agrees")) if raw.get("forward_agrees") is not None else False,
            "has_chol_upper": has_up, "has_identity": has_id, "classes": ",".join(L.classes_of(e)),
            "phase": raw.get("phase"), "exc": (raw.get("error") or "").split(":")[0] or None,
            "where": raw.get("where"),
            "rhs_1d_batched_op": bool(case["fn_args"].get("kind") == "vec" and batch_of(e))}


def rg_kind_of(mask, rhs_rg, has_rhs):
    k = len(mask)
    s = sum(bool(x) for x in mask)
    if k == 0 or s == 0:
        return "only_rhs"
    if s == k:
        base = "all"
    elif s == 1:
        base = "single"
    elif s == k - 1:
        base = "compl"
    else:
        base = "mixed"
    if has_rhs and not rhs_rg:
        return "rhs_off" if base == "all" else base + "_rhs_off"
    return base


def replay_of(case):
    return {"expr": copy.deepcopy(case["expr"]), "fn": case["fn"], "fn_args": copy.deepcopy(case["fn_args"]),
            "rg_mask": [bool(x) for x in (case.get("rg_mask") or [])], "rhs_rg": bool(case.get("rhs_rg", True)),
            "me": bool(case["me"]), "chol0": bool(case["chol0"]), "seed": int(case["seed"]),
            "precond": bool(case.get("precond"))}


def evaluate(case, check_memeff=False):
    """-> (raw result dict, op-side grads).  With check_memeff the comparison is also run with the other
    memory_efficient setting and the two operator-side gradients are compared (fail='memeff')."""
    raw, leaves, opr, ref = L.compare(case)
    if check_memeff and raw["status"] == "ok":
        other = dict(case)
        other["me"] = not case["me"]
        raw2, _, opr2, _ = L.compare(other)
        if raw2["status"] == "ok" or opr2.get("grads") is not None:
            if opr.get("grads") is not None and opr2.get("grads") is not None:
                nm, err, det = L.memeff_compare(raw["inputs"], opr["grads"], opr2["grads"])
                if nm is not None:
                    raw = dict(raw)
                    raw.update(status="fail", fail="memeff", offender=nm, detail=det, max_err=err)
    return raw, opr


def finish_result(case, raw):
    has_rhs = case["fn"] in L.RHS_FNS
    k = L.count_leaves(case["expr"]) if raw.get("inputs") is None else None
    mask = case.get("rg_mask")
    if mask is None:
        mask = [True] * (k if k is not None else L.count_leaves(case["expr"]))
    rgk = rg_kind_of(mask, case.get("rhs_rg", True), has_rhs)
    res = {"status": raw["status"], "fail": raw.get("fail"), "forward_agrees": raw.get("forward_agrees"),
           "forward_differs_nearby": raw.get("forward_differs_nearby"),
           "max_err": raw.get("max_err"), "tol": raw.get("tol")}
    c2 = dict(case)
    c2["rg_mask"] = mask
    if raw["status"] == "fail":
        res["key"] = key_of(case, raw, rgk)
        res["replay"] = replay_of(c2)
        res["offender"] = raw.get("offender")
        res["detail"] = raw.get("detail")
        res["error"] = raw.get("error")
        res["phase"] = raw.get("phase")
        res["forward_err"] = raw.get("forward_err")
    elif raw["status"] == "skip":
        res["reason"] = raw.get("reason")
        res["key"] = key_of(case, raw, rgk)
        res["replay"] = replay_of(c2)
    res["dk"] = "|".join(str(x) for x in (case["expr"]["cls"], ob.describe(case["expr"]), case["fn"],
                                          case["fn_args"].get("kind"), case["me"], case["chol0"], rgk,
                                          batch_of(case["expr"])))
    return res


def replay_case(replay):
    """one comparison from a self-contained replay dict -> result dict (same format as run_grid's results)"""
    e = L.reshare(copy.deepcopy(replay["expr"]))
    case = {"expr": e, "fn": replay["fn"], "fn_args": copy.deepcopy(replay["fn_args"]),
            "rg_mask": list(replay["rg_mask"]) if replay.get("rg_mask") is not None else None,
            "rhs_rg": replay.get("rhs_rg", True), "me": bool(replay["me"]), "chol0": bool(replay["chol0"]),
            "precond": bool(replay.get("precond")),
            "seed": int(replay["seed"])}
    try:
        raw, _ = evaluate(case, check_memeff=True)
        return finish_result(case, raw)
    except Exception:  # noqa
        return {"status": "fail", "fail": "harness-error", "error": traceback.format_exc()[-1500:],
                "replay": replay, "key": {"layer": "autograd", "fail": "harness-error", "fn": replay.get("fn")}}


# ------------------------------------------------------------------------------------------------- shrinking

def _same_failure(raw, want):
    if raw["status"] != "fail" or raw.get("fail") != want["fail"]:
        return False
    if want["fail"] in ("raises", "count", "shape"):
        return (raw.get("error") or "").split(":")[0] == (want.get("error") or "").split(":")[0] and \
            raw.get("phase") == want.get("phase") and raw.get("where") == want.get("where")
    return True


def _replace_at(e, path, new):
    e = copy.deepcopy(e)
    if not path:
        return new
    x = e
    for (k, i) in path[:-1]:
        x = x[k] if i is None else x[k][i]
    k, i = path[-1]
    if i is None:
        x[k] = new
    else:
        x[k][i] = new
    return e


# children that must keep their class (the parent's constructor demands it)
_FIXED_CHILD = {("KronAddedDiag", "kron"), ("KronAddedDiag", "diag"), ("SumKron", "a"), ("SumKron", "b"),
                ("KronTriangular", "ops"), ("KronDiag", "ops"), ("LowRankRootAddedDiag", "root"),
                ("LowRankRootAddedDiag", "diag"), ("AddedDiag", "diag"), ("Mul", "l"), ("Mul", "r")}


def _paths(e, prefix=(), fixed=False):
    for k, i, c in L.children(e):
        p = prefix + ((k, i),)
        fx = (e["cls"], k) in _FIXED_CHILD
        yield p, c, fx
        yield from _paths(c, p)


def expr_candidates(e):
    """simpler expressions of the same shape: drop summands; replace a nested child by its dense value"""
    out = []
    nodes = [((), e, True)] + list(_paths(e))
    for p, x, _ in nodes:
        if x["cls"] in ("Sum", "PsdSum") and len(x["ops"]) > 2:
            for j in range(len(x["ops"])):
                y = copy.deepcopy(x)
                del y["ops"][j]
                out.append(_replace_at(e, list(p), y))
    for p, x, fx in nodes:
        if not p or fx or x["cls"] == "Dense":
            continue
        try:
            with torch.no_grad():
                d = ob.dense(x)
            if x["cls"] in ("Triangular",):
                continue
            out.append(_replace_at(e, list(p), {"cls": "Dense", "t": ob.from_torch(d)}))
        except Exception:  # noqa
            pass
    return out


def shrink(case, raw, cell, seed, limit=60):
    """greedy: keep the first simpler variant that fails with the same kind; repeat"""
    best_case, best_raw = case, raw
    memeff = raw.get("fail") == "memeff"
    evals = [0]

    def try_case(c):
        if evals[0] >= limit:
            return None
        evals[0] += 1
        try:
            r, _ = evaluate(c, check_memeff=memeff)
        except Exception:  # noqa
            return None
        return r if _same_failure(r, raw) else None

    def from_cell(c2):
        try:
            base = make_case(c2, seed)
        except Exception:  # noqa
            return None
        k = L.count_leaves(base["expr"])
        nc = dict(base)
        nc.update(rg_mask=[True] * k, rhs_rg=best_case.get("rhs_rg", True), me=best_case["me"], chol0=best_case["chol0"])
        if best_case.get("rg_mask") is not None and not any(best_case["rg_mask"]):
            nc["rg_mask"] = [False] * k
        return nc

    # 1. structural cell parameters (regenerate)
    cur_cell = dict(cell) if cell else None
    if cur_cell is not None:
        progress = True
        while progress and evals[0] < limit:
            progress = False
            variants = []
            if cur_cell["batch"]:
                variants.append(dict(cur_cell, batch=[]))
                if len(cur_cell["batch"]) > 1:
                    variants.append(dict(cur_cell, batch=cur_cell["batch"][:1]))
            for mm in (1, 2):
                if cur_cell["m"] > mm:
                    variants.append(dict(cur_cell, m=mm))
            if cur_cell.get("child") not in (None, "Dense") and not cur_cell.get("wrap"):
                variants.append(dict(cur_cell, child="Dense"))
            for v in variants:
                if v.get("special") and not str(v["special"]).startswith("psd_") and v["batch"] != cur_cell["batch"]:
                    continue
                nc = from_cell(v)
                if nc is None:
                    continue
                r = try_case(nc)
                if r is not None:
                    best_case, best_raw, cur_cell, progress = nc, r, v, True
                    break
    # 2. expression-level simplifications (shape preserving)
    progress = True
    while progress and evals[0] < limit:
        progress = False
        for e2 in expr_candidates(best_case["expr"]):
            e2 = L.reshare(e2)
            try:
                k = L.count_leaves(e2)
            except Exception:  # noqa
                continue
            nc = dict(best_case, expr=e2, rg_mask=[True] * k)
            if best_case.get("rg_mask") is not None and not any(best_case["rg_mask"]):
                nc["rg_mask"] = [False] * k
            r = try_case(nc)
            if r is not None:
                best_case, best_raw, progress = nc, r, True
                break
    # 3. requires_grad: a single leaf
    mask = best_case.get("rg_mask")
    if mask is not None and sum(mask) > 1:
        for j in range(len(mask)):
            nc = dict(best_case, rg_mask=[i == j for i in range(len(mask))])
            r = try_case(nc)
            if r is not None:
                best_case, best_raw = nc, r
                break
    # 4. right-hand side without grad / fewer columns are not attempted (keeps the entry point's signature)
    return best_case, best_raw, evals[0]


# ------------------------------------------------------------------------------------------------- running cells

class _Timeout(Exception):
    pass


def _alarm(signum, frame):
    raise _Timeout()


def run_cell(cell, seed, want_sample=False, do_shrink=True):
    """-> {"idx", "ungenerated": reason|None, "results": [result dicts], "sample": dict|None}"""
    out = {"idx": cell.get("idx"), "ungenerated": None, "results": [], "sample": None, "root": cell["root"],
           "fn": cell["fn"]}
    try:
        base = make_case(cell, seed)
    except L.Ungenerated as ex:
        out["ungenerated"] = str(ex)
        return out
    k = L.count_leaves(base["expr"])
    has_rhs = cell["fn"] in L.RHS_FNS
    plan = rg_plan(k, cell["rg"], cell.get("idx", 0), has_rhs)
    if not plan:
        out["ungenerated"] = "no differentiable input (no float leaf, no right-hand side)"
        return out
    if cell["chol0"] == "yes":
        chols = [True]
    elif cell["chol0"] == "both":
        chols = [False, True]
    elif cell["chol0"] == "rot":
        chols = [bool(cell.get("idx", 0) % 2)]
    else:
        chols = [False]
    for (rgk, mask, rhs_rg) in plan:
        for chol0 in chols:
            grads = {}
            for me in (False, True):
                case = dict(base, rg_mask=list(mask), rhs_rg=rhs_rg, me=me, chol0=chol0, precond=bool(cell.get("precond")))
                try:
                    raw, opr = evaluate(case)
                    grads[me] = (raw, opr)
                    if me and raw["status"] == "ok" and grads.get(False) and grads[False][0]["status"] == "ok":
                        nm, err, det = L.memeff_compare(raw["inputs"], grads[False][1]["grads"], opr["grads"])
                        if nm is not None:
                            raw = dict(raw)
                            raw.update(status="fail", fail="memeff", offender=nm, detail=det, max_err=err)
                    if raw["status"] == "fail" and do_shrink:
                        n0 = ob.describe(case["expr"])
                        case2, raw2, nev = shrink(case, raw, cell, seed)
                        res = finish_result(case2, raw2)
                        res["shrunk_from"] = {"tree": n0, "batch": str(batch_of(case["expr"])), "evals": nev,
                                              "cell": {kk: vv for kk, vv in cell.items()}}
                    else:
                        res = finish_result(case, raw)
                    if want_sample and out["sample"] is None and raw["status"] == "ok" and not me:
                        out["sample"] = {"tree": ob.describe(case["expr"]), "replay": replay_of(case),
                                         "inputs": raw["inputs"], "max_rel_err": raw.get("max_err"),
                                         "forward_rel_err": raw.get("forward_err"), "tol": raw.get("tol"),
                                         "op_grads": [None if g is None else L._small(g, 16) for g in opr["grads"]]}
                except _Timeout:
                    raise
                except Exception:  # noqa
                    res = {"status": "fail", "fail": "harness-error", "error": traceback.format_exc()[-1500:],
                           "key": {"layer": "autograd", "fail": "harness-error", "fn": cell["fn"], "root": cell["root"]},
                           "replay": {"cell": cell, "seed": seed}, "dk": "harness-error"}
                res["cell"] = cell.get("idx")
                out["results"].append(res)
    return out


def _winit():
    torch.set_num_threads(1)
    import warnings
    warnings.filterwarnings("ignore")
    L.lo()


def _wrun(task):
    cell, seed, want_sample = task
    t0 = time.time()
    old = None
    try:
        try:
            old = signal.signal(signal.SIGALRM, _alarm)
            signal.alarm(90)
        except Exception:  # noqa
            old = None
        r = run_cell(cell, seed, want_sample)
    except _Timeout:
        r = {"idx": cell.get("idx"), "ungenerated": None, "sample": None, "root": cell["root"], "fn": cell["fn"],
             "results": [{"status": "skip", "reason": "cell exceeded 90 s", "cell": cell.get("idx"), "dk": "timeout",
                          "key": {"layer": "autograd", "fn": cell["fn"], "root": cell["root"]}, "replay": {"cell": cell, "seed": seed}}]}
    except Exception:  # noqa
        r = {"idx": cell.get("idx"), "ungenerated": None, "sample": None, "root": cell["root"], "fn": cell["fn"],
             "results": [{"status": "fail", "fail": "harness-error", "error": traceback.format_exc()[-1500:],
                          "cell": cell.get("idx"), "dk": "harness-error",
                          "key": {"layer": "autograd", "fail": "harness-error", "fn": cell["fn"], "root": cell["root"]},
                          "replay": {"cell": cell, "seed": seed}}]}
    finally:
        try:
            signal.alarm(0)
            if old is not None:
                signal.signal(signal.SIGALRM, old)
        except Exception:  # noqa
            pass
    r["wall"] = time.time() - t0
    return r


def run_grid(seed, quick, workers=4, budget_s=None):
    t0 = time.time()
    summary = {"results": [], "n_cells": 0, "n_comparisons": 0, "n_ok": 0, "n_fail": 0, "n_skip": 0, "ungenerated": 0,
               "ungenerated_reasons": {}, "by_fn": {}, "by_root": {}, "by_part": {}, "distinct_keys": 0, "samples": [],
               "max_rel_err_ok": {}, "not_run": 0, "wall_s": 0.0, "seed": seed, "quick": bool(quick)}
    try:
        cells = grid(quick)
        summary["n_cells"] = len(cells)
        sample_cells = set()
        seen = set()
        for c in cells:       # one sample each from the parts C, D, B
            if c["part"] in ("C", "D", "B") and c["part"] not in seen and c["rg"] != "all":
                seen.add(c["part"])
                sample_cells.add(c["idx"])
        tasks = [(c, seed, c["idx"] in sample_cells) for c in cells]
        outs = []
        if workers and workers > 1:
            import multiprocessing as mp
            ctx = mp.get_context("spawn")
            pool = ctx.Pool(workers, initializer=_winit)
            try:
                it = pool.imap_unordered(_wrun, tasks, chunksize=1)
                while True:
                    try:
                        left = None if budget_s is None else max(1.0, budget_s - (time.time() - t0))
                        r = it.next(timeout=left if left is not None else 600)
                        outs.append(r)
                    except StopIteration:
                        break
                    except mp.TimeoutError:
                        break
                    if budget_s is not None and time.time() - t0 > budget_s:
                        break
            finally:
                pool.terminate()
                pool.join()
        else:
            _winit()
            for t in tasks:
                outs.append(_wrun(t))
                if budget_s is not None and time.time() - t0 > budget_s:
                    break
        outs.sort(key=lambda r: r["idx"])
        summary["not_run"] = len(cells) - len(outs)
        dks = set()
        cellmap = {c["idx"]: c for c in cells}
        for r in outs:
            c = cellmap[r["idx"]]
            if r["ungenerated"] is not None:
                summary["ungenerated"] += 1
                rs = r["ungenerated"][:60]
                summary["ungenerated_reasons"][rs] = summary["ungenerated_reasons"].get(rs, 0) + 1
                continue
            if r.get("sample"):
                summary["samples"].append(r["sample"])
            for res in r["results"]:
                summary["n_comparisons"] += 1
                summary["by_fn"][c["fn"]] = summary["by_fn"].get(c["fn"], 0) + 1
                summary["by_root"][c["root"]] = summary["by_root"].get(c["root"], 0) + 1
                summary["by_part"][c["part"]] = summary["by_part"].get(c["part"], 0) + 1
                dks.add(res.pop("dk", None))
                st = res["status"]
                if st == "ok":
                    summary["n_ok"] += 1
                    if res.get("max_err") is not None:
                        tk = "%g" % res["tol"]
                        summary["max_rel_err_ok"][tk] = max(summary["max_rel_err_ok"].get(tk, 0.0), res["max_err"])
                elif st == "skip":
                    summary["n_skip"] += 1
                    summary["results"].append(res)
                else:
                    summary["n_fail"] += 1
                    summary["results"].append(res)
        summary["distinct_keys"] = len(dks)
    except Exception:  # noqa
        summary["results"].append({"status": "fail", "fail": "harness-error", "error": traceback.format_exc()[-2000:],
                                   "key": {"layer": "autograd", "fail": "harness-error", "fn": "run_grid"},
                                   "replay": {"seed": seed, "quick": bool(quick)}})
        summary["n_fail"] += 1
    summary["wall_s"] = round(time.time() - t0, 2)
    return summary


# ------------------------------------------------------------------------------------------------- plain repro

def plain_repro(replay):
    return L.emit(replay)
