"""C03 — correspondence layers L2 / L3: the Gallina transcriptions of the library code against the real functions.

  L2  utils/getitem.py: _compute_getitem_size, _is_tensor_index_moved_to_start, _convert_indices_to_tensors,
      and LinearOperator.__getitem__ on a DenseLinearOperator (pinned and repaired transcription)
  L3  per-class _get_indices arithmetic (Toeplitz, Kronecker, BlockDiag, BlockInterleaved, BatchRepeat, Masked, Cat)
      and CatLinearOperator._split_slice, on operators over dense children

Every case carries its inputs and the observed output as literals; the comparison happens inside Coq (coq/C03/Check.v).
"""
import itertools
import math
import re

import torch

from . import common, c03_idx as ix
from .common import zlit, zlist, natlist

SH = 300

# Shard files are written to the shared directory coq/C03/gen; two runs of this check at the same time (e.g. the
# coordinator's seed tests and a builder's run) would overwrite each other's cases_<name>.v while coqc reads them.
# Every run therefore uses its own name prefix and removes its shard sources when they have been evaluated.
import os as _os
RUN = "p%d_" % _os.getpid()


def cleanup(ctx, names, res=None):
    for n in names:
        if res is not None and res.get(n, (1, ""))[0] != 0:
            continue                      # keep the source of a shard that failed to compile
        try:
            _os.remove(_os.path.join(ctx.gen, "cases_%s.v" % n))
        except OSError:
            pass



def oz(x):
    return "No" if x is None else "(So %s)" % zlit(x)


def item_lit(it):
    k = it["k"]
    if k == "int":
        return "NI %s" % zlit(it["v"])
    if k == "slice":
        return "NS %s %s %s" % (oz(it["a"]), oz(it["b"]), oz(it["s"]))
    if k == "t":
        return "NT %s %s" % (natlist(it["shape"]), zlist(it["data"]))
    raise ValueError(k)


def items_lit(items):
    return "[" + "; ".join(item_lit(i) for i in items) + "]"


def pairs_lit(ps):
    return "[" + "; ".join("(%s, %s)" % (zlit(a), zlit(b)) for a, b in ps) + "]"


def triples_lit(ps):
    return "[" + "; ".join("(%s, %s, %s)" % (zlit(a), zlit(b), zlit(c)) for a, b, c in ps) + "]"


def ints_of(x):
    return [int(round(float(v))) for v in x.reshape(-1).tolist()]


def integral(x):
    x = x.detach().to(torch.float64)
    return x.numel() == 0 or bool(((x - x.round()).abs().max() <= 1e-6).item())


# ------------------------------------------------------------------------------------------ generators

SLICE_KINDS_X = list(ix.SLICE_KINDS) + ["empty", "negstep"]


def gen_norm_item(rng, n, valid=True, allow_negstep=False, tshape=None):
    """a normalised index item (int / slice / tensor) for a dimension of size n"""
    r = rng.random()
    if r < 0.25:
        if valid or rng.random() < 0.7:
            return ix.I(rng.randrange(-n, n))
        return ix.I(rng.choice([n, -n - 1, n + 3]))
    if r < 0.65:
        kind = rng.choice(SLICE_KINDS_X if not valid else list(ix.SLICE_KINDS))
        if kind == "empty":
            a = rng.randrange(n + 1)
            return ix.S(a, rng.randint(0, a))
        if kind == "negstep":
            if not allow_negstep:
                return ix.S()
            return ix.S(rng.choice([None, n - 1, -1]), rng.choice([None, 0, -n - 1]), -rng.choice([1, 2]))
        return ix.gen_slice(rng, kind, n)
    shp = tshape if tshape is not None else rng.choice([[], [1], [2], [3], [2, 1], [1, 3], [2, 3]])
    cnt = int(math.prod(shp))
    return ix.TT(shp, [rng.randrange(n) for _ in range(cnt)])


def gen_norm_index(rng, shape, valid=True, allow_negstep=False):
    """normalised index (one item per dimension); tensor shapes broadcast when valid"""
    B = rng.choice([[2], [3], [2, 3], [3, 2]])

    def tsh():
        if not valid and rng.random() < 0.25:
            return rng.choice([[2], [3], [4], [2, 2]])
        full = list(B)
        cand = [full, full[-1:], [1] * len(full), [1]]
        if len(full) == 2:
            cand += [[full[0], 1], [1, full[1]]]
        return rng.choice(cand)
    return [gen_norm_item(rng, n, valid, allow_negstep, tsh()) for n in shape]


def to_py_norm(items):
    return ix.to_py(items, False)


SHAPES = [[4], [3, 4], [1, 3], [2, 3, 4], [2, 1, 3], [3, 3, 3], [2, 2, 3, 3], [1, 3, 2, 4], [2, 1, 2, 3, 2]]


# ------------------------------------------------------------------------------------------ shards

def hdr():
    return ("From Coq Require Import List ZArith Bool.\nImport ListNotations.\n"
            "Require Import C03.Model C03.Check.\nOpen Scope Z_scope.\n")


def mk_shards(tag, ctype, cases, fn):
    out = []
    for i in range(0, len(cases), SH):
        part = cases[i:i + SH]
        src = hdr() + "Definition cases : list %s := [\n %s].\nEval vm_compute in (%s cases).\n" % (
            ctype, ";\n ".join(part), fn)
        out.append(("%s_%d" % (tag, i // SH), src, len(part)))
    return out


class Jobs:
    """collects the shards of all L2 / L3 sub-stages so that they are compiled in one parallel batch"""

    def __init__(self):
        self.jobs = []

    def bad(self, tag, shards, then):
        self.jobs.append((tag, shards, "bad", then))

    def codes(self, tag, shards, then):
        self.jobs.append((tag, shards, "codes", then))

    def run(self, ctx):
        allsh = [(RUN + n, s) for _, shards, _, _ in self.jobs for n, s, _ in shards]
        res = common.run_shards(ctx, allsh)
        cleanup(ctx, [n for n, _ in allsh], res)
        for tag, shards, mode, then in self.jobs:
            vals, off, ok = [], 0, True
            for name, _, cnt in shards:
                rc, out = res[RUN + name]
                b = common.parse_coq_list_of_nat(out) if rc == 0 else None
                if b is None or (mode == "codes" and len(b) != cnt):
                    ctx.violation({"kind": "shard-failed", "layer": tag, "shard": name, "out": out[-700:]}, no_input=True)
                    ok = False
                elif mode == "bad":
                    vals += [off + i for i in b]
                else:
                    vals += b
                off += cnt
            then(vals if ok else None)


# ------------------------------------------------------------------------------------------ L2

def stage_getitem_py(ctx, rng, jobs):
    """utils/getitem.py functions vs their transcriptions"""
    from linear_operator import settings
    from linear_operator.utils import getitem as G
    n_each = 500 if ctx.quick else 5000
    stats = {}
    # ---- _compute_getitem_size
    cases, meta = [], []
    for j in range(n_each):
        shape = SHAPES[j % len(SHAPES)]
        valid = (j % 4 != 3)
        items = gen_norm_index(rng, shape, valid=valid, allow_negstep=True)
        if j % 37 == 36:
            items = items[:-1]                     # dimensionality mismatch -> RuntimeError
        dbg = bool(j % 2)
        obj = torch.zeros(shape)
        with settings.debug(dbg):
            try:
                r = list(G._compute_getitem_size(obj, to_py_norm(items)))
                obs = "(Some %s)" % natlist(r)
            except Exception:      # noqa
                r, obs = None, "None"
        cases.append("ZC %s %s %s %s" % (common.coq_bool(dbg), natlist(shape), items_lit(items), obs))
        meta.append({"fn": "_compute_getitem_size", "debug": dbg, "shape": shape, "index": ix.show(items), "observed": r, "items": items})
    jobs.bad("L2size", mk_shards("l2size", "size_case", cases, "bad_size"), lambda bad, meta=meta: report_lib(ctx, bad, meta, "compute_getitem_size"))
    stats["l2_size_cases"] = len(cases)
    stats["l2_size_raises"] = sum(1 for m in meta if m["observed"] is None)
    # ---- _is_tensor_index_moved_to_start
    cases, meta = [], []
    for j in range(n_each):
        shape = SHAPES[j % len(SHAPES)]
        items = gen_norm_index(rng, shape, valid=True)
        r = bool(G._is_tensor_index_moved_to_start(to_py_norm(items)))
        cases.append("MC %s %s" % (items_lit(items), common.coq_bool(r)))
        meta.append({"fn": "_is_tensor_index_moved_to_start", "shape": shape, "index": ix.show(items), "observed": r, "items": items})
    jobs.bad("L2moved", mk_shards("l2moved", "moved_case", cases, "bad_moved"), lambda bad, meta=meta: report_lib(ctx, bad, meta, "is_moved_to_start"))
    stats["l2_moved_cases"] = len(cases)
    stats["l2_moved_true"] = sum(1 for m in meta if m["observed"])
    # ---- _convert_indices_to_tensors
    cases, meta = [], []
    for j in range(n_each):
        shape = SHAPES[j % len(SHAPES)]
        items = gen_norm_index(rng, shape, valid=(j % 5 != 4))
        if j % 3 == 0:        # as __getitem__ calls it: tensor indices flattened to one common 1-d length
            L = rng.choice([1, 2, 4])
            items = [ix.TT([L], [rng.randrange(shape[d]) for _ in range(L)]) if it["k"] == "t" else it
                     for d, it in enumerate(items)]
        if not any(it["k"] == "t" for it in items):
            # the function is only ever called on the absorbed path, i.e. with at least one tensor index
            d = rng.randrange(len(shape))
            items[d] = ix.TT([2], [rng.randrange(shape[d]) for _ in range(2)])
        obj = torch.zeros(shape)
        try:
            r = G._convert_indices_to_tensors(obj, to_py_norm(items))
            r = [(list(t.shape), [int(v) for v in t.reshape(-1).tolist()]) for t in r]
            obs = "(Some [%s])" % "; ".join("(%s, %s)" % (natlist(s), zlist(d)) for s, d in r)
        except Exception:      # noqa
            r, obs = None, "None"
        cases.append("VC %s %s %s" % (natlist(shape), items_lit(items), obs))
        meta.append({"fn": "_convert_indices_to_tensors", "shape": shape, "index": ix.show(items), "observed": r, "items": items})
    jobs.bad("L2conv", mk_shards("l2conv", "conv_case", cases, "bad_conv"), lambda bad, meta=meta: report_lib(ctx, bad, meta, "convert_indices_to_tensors"))
    stats["l2_convert_cases"] = len(cases)
    return stats


TRIAGE = None      # set by harness/c03.py: (ctx, meta_case) -> True when a concrete failing input was reported


def report_lib(ctx, bad, meta, model_fn):
    bad = bad or []
    # triage with the independent oracle: the index of the disagreeing case is run through the real __getitem__ of a
    # DenseLinearOperator and compared with torch indexing of the dense tensor -> a concrete failing input if it differs
    found = 0
    if TRIAGE is not None:
        for b in bad[:60]:
            if found >= 3:
                break
            try:
                if TRIAGE(ctx, meta[b]):
                    found += 1
            except Exception:      # noqa  triage is best effort; the disagreement itself is reported below
                pass
    for b in bad[:3]:
        # a helper function of the library no longer computes what its transcription computes: the theorems about
        # the transcription do not speak about this code any more (whether an index then fails is decided by the triage
        # above and by layer L4)
        m = {k: v for k, v in meta[b].items() if k != "items"}
        ctx.violation({"kind": "model-implementation-disagreement", "layer": "L2/L3", "case": m,
                       "correspondence": "coq/C03/Model.v %s vs the real function" % model_fn}, no_input=True)


def stage_front(ctx, rng, jobs, run_index, tlit_of, idx_lit, otensor_lit):
    """DenseLinearOperator.__getitem__ vs getitem_model (pinned / repaired), debug on and off"""
    from linear_operator.operators import DenseLinearOperator
    shapes = [[3, 4], [1, 3], [2, 3, 3], [2, 1, 4], [2, 3, 2, 3]]
    per = 60 if ctx.quick else 400
    cases, meta = [], []
    for shp in shapes:
        nd = len(shp)
        D = (torch.arange(int(math.prod(shp)), dtype=torch.float64) * 2 - 5).reshape(shp)
        op = DenseLinearOperator(D)
        rows = ix.covering_array(nd)
        for j in range(per):
            row = rows[(j * 7) % len(rows)] if j < per // 2 else tuple(rng.choice(ix.KINDS) for _ in range(nd))
            if not ix.valid_kinds(row, nd):
                continue
            items, bare = ix.instantiate(rng, row, shp, form=j % 5)
            if bare:
                continue
            idx = ix.to_py(items, bare)
            for dbg in (True, False):
                r = run_index(op, idx, dbg)
                cases.append("FC %s %s %s %s" % (common.coq_bool(dbg), tlit_of(D), idx_lit(items), otensor_lit(r)))
                meta.append({"fn": "DenseLinearOperator.__getitem__", "shape": shp, "index": ix.show(items, bare), "debug": dbg,
                             "observed": list(r[1].shape) if r[0] == "ok" else r[1:]})
    stats = {"l2_front_cases": len(cases)}

    def on_codes(codes):
        neither = [i for i, c in enumerate(codes or []) if c == 0]
        for b in neither[:3]:
            ctx.violation({"kind": "model-implementation-disagreement", "layer": "L2", "case": meta[b],
                           "correspondence": "coq/C03/Model.v getitem_model (Pinned and Fixed) vs DenseLinearOperator.__getitem__"},
                          no_input=True)
        codes = codes or []
        stats.update({"l2_front_pinned_only": sum(1 for c in codes if c == 1),
                      "l2_front_fixed_only": sum(1 for c in codes if c == 2), "l2_front_both": sum(1 for c in codes if c == 3),
                      "l2_front_neither": len(neither)})

    def on_spec(bad):
        for b in (bad or [])[:3]:
            ctx.violation({"kind": "model-spec-disagreement", "layer": "L2", "case": meta[2 * b + 1],
                           "correspondence": "getitem_model Fixed vs torch_index (the repaired front end is not the SPEC)"}, no_input=True)
        stats["l2_front_fixed_vs_spec_mismatch"] = len(bad or [])
    jobs.codes("L2front", mk_shards("l2front", "front_case", cases, "front_codes"), on_codes)
    jobs.bad("L2frontspec", mk_shards("l2fspec", "front_case", cases[1::2], "bad_front_spec"), on_spec)
    return stats


# ------------------------------------------------------------------------------------------ L3

def rand_mat(rng, *shape):
    n = int(math.prod(shape))
    return torch.tensor([rng.randint(-4, 4) for _ in range(n)], dtype=torch.float64).reshape(shape)


def rand_pairs(rng, m, n, cnt):
    return [(rng.randrange(m), rng.randrange(n)) for _ in range(cnt)]


def stage_classes(ctx, rng, jobs):
    import linear_operator.operators as O
    reps = 40 if ctx.quick else 400
    stats = {}
    LT = lambda xs: torch.tensor(xs, dtype=torch.long)

    def observe(f):
        try:
            r = f()
            if not integral(r):
                return None
            return ints_of(r)
        except Exception:      # noqa
            return None
    # ---- Toeplitz
    cases, meta = [], []
    for j in range(reps):
        n = 1 + j % 6
        col = rand_mat(rng, n)
        rc = rand_pairs(rng, n, n, 8) + [(0, n - 1), (n - 1, 0)]
        op = O.ToeplitzLinearOperator(col)
        obs = observe(lambda: op._get_indices(LT([p[0] for p in rc]), LT([p[1] for p in rc])))
        if obs is None:
            obs = [99999]
        cases.append("TC %s %s %s" % (zlist(ints_of(col)), pairs_lit(rc), zlist(obs)))
        meta.append({"fn": "ToeplitzLinearOperator._get_indices", "n": n, "col": ints_of(col), "rc": rc, "observed": obs})
    jobs.bad("L3toep", mk_shards("l3toep", "toep_case", cases, "bad_toep"), lambda bad, meta=meta: report_lib(ctx, bad, meta, "toeplitz_index"))
    stats["l3_toeplitz_cases"] = len(cases)
    # ---- Kronecker (2-4 factors, rectangular)
    cases, meta = [], []
    for j in range(reps):
        k = 2 + j % 3
        dims = [(rng.choice([1, 2, 3]), rng.choice([1, 2, 3])) for _ in range(k)]
        mats = [rand_mat(rng, a, b) for a, b in dims]
        M, N = math.prod(a for a, _ in dims), math.prod(b for _, b in dims)
        rc = rand_pairs(rng, M, N, 10) + [(M - 1, N - 1), (0, 0)]
        op = O.KroneckerProductLinearOperator(*[O.DenseLinearOperator(m) for m in mats])
        obs = observe(lambda: op._get_indices(LT([p[0] for p in rc]), LT([p[1] for p in rc]))) or [99999]
        fl = "[" + "; ".join("(%s, %s, %s)" % (zlit(a), zlit(b), zlist(ints_of(m))) for (a, b), m in zip(dims, mats)) + "]"
        cases.append("KC %s %s %s" % (fl, pairs_lit(rc), zlist(obs)))
        meta.append({"fn": "KroneckerProductLinearOperator._get_indices", "dims": dims, "rc": rc, "observed": obs})
    jobs.bad("L3kron", mk_shards("l3kron", "kron_case", cases, "bad_kron"), lambda bad, meta=meta: report_lib(ctx, bad, meta, "kron_get_indices"))
    stats["l3_kron_cases"] = len(cases)
    # ---- BlockDiag / BlockInterleaved
    cases, meta = [], []
    for j in range(reps):
        il = bool(j % 2)
        k, m = rng.choice([1, 2, 3]), rng.choice([1, 2, 3])
        n = m if not il else rng.choice([1, 2, 3])
        base = rand_mat(rng, k, m, n)
        rc = rand_pairs(rng, k * m, k * n, 10) + [(k * m - 1, k * n - 1), (0, k * n - 1)]
        cls = O.BlockInterleavedLinearOperator if il else O.BlockDiagLinearOperator
        op = cls(O.DenseLinearOperator(base))
        obs = observe(lambda: op._get_indices(LT([p[0] for p in rc]), LT([p[1] for p in rc]))) or [99999]
        cases.append("BC %s %s %s %s %s %s %s" % (common.coq_bool(il), zlit(k), zlit(m), zlit(n), zlist(ints_of(base)),
                                                   pairs_lit(rc), zlist(obs)))
        meta.append({"fn": cls.__name__ + "._get_indices", "k": k, "m": m, "n": n, "rc": rc, "observed": obs})
    jobs.bad("L3block", mk_shards("l3block", "block_case", cases, "bad_block"), lambda bad, meta=meta: report_lib(ctx, bad, meta, "blockdiag_get_indices / blockinterleaved_get_indices"))
    stats["l3_block_cases"] = len(cases)
    # ---- BatchRepeat
    cases, meta = [], []
    for j in range(reps):
        size, rep, m, n = rng.choice([1, 2, 3]), rng.choice([1, 2, 3]), rng.choice([1, 2, 3]), rng.choice([1, 2, 3])
        base = rand_mat(rng, size, m, n)
        op = O.BatchRepeatLinearOperator(O.DenseLinearOperator(base), batch_repeat=torch.Size([rep]))
        brc = [(rng.randrange(size * rep), rng.randrange(m), rng.randrange(n)) for _ in range(10)] + [(size * rep - 1, m - 1, n - 1)]
        obs = observe(lambda: op._get_indices(LT([p[1] for p in brc]), LT([p[2] for p in brc]), LT([p[0] for p in brc]))) or [99999]
        cases.append("RC %s %s %s %s %s %s" % (zlit(size), zlit(m), zlit(n), zlist(ints_of(base)), triples_lit(brc), zlist(obs)))
        meta.append({"fn": "BatchRepeatLinearOperator._get_indices", "size": size, "rep": rep, "brc": brc, "observed": obs})
    jobs.bad("L3rep", mk_shards("l3rep", "rep_case", cases, "bad_rep"), lambda bad, meta=meta: report_lib(ctx, bad, meta, "batchrepeat_index"))
    stats["l3_batchrepeat_cases"] = len(cases)
    # ---- Masked
    cases, meta = [], []
    for j in range(reps):
        m, n = rng.choice([2, 3, 4]), rng.choice([2, 3, 4])
        base = rand_mat(rng, m, n)
        rm = [rng.random() < 0.6 for _ in range(m)]
        cm = [rng.random() < 0.6 for _ in range(n)]
        if not any(rm):
            rm[rng.randrange(m)] = True
        if not any(cm):
            cm[rng.randrange(n)] = True
        op = O.MaskedLinearOperator(O.DenseLinearOperator(base), torch.tensor(rm), torch.tensor(cm))
        rc = rand_pairs(rng, sum(rm), sum(cm), 8)
        obs = observe(lambda: op._get_indices(LT([p[0] for p in rc]), LT([p[1] for p in rc]))) or [99999]
        bl = lambda xs: "[" + "; ".join(common.coq_bool(x) for x in xs) + "]"
        cases.append("KM %s %s %s %s %s %s" % (zlit(n), zlist(ints_of(base)), bl(rm), bl(cm), pairs_lit(rc), zlist(obs)))
        meta.append({"fn": "MaskedLinearOperator._get_indices", "row_mask": rm, "col_mask": cm, "rc": rc, "observed": obs})
    jobs.bad("L3mask", mk_shards("l3mask", "mask_case", cases, "bad_mask"), lambda bad, meta=meta: report_lib(ctx, bad, meta, "mask_positions"))
    stats["l3_masked_cases"] = len(cases)
    # ---- Cat (last dimension): _get_indices and _split_slice
    cases, meta, scases, smeta = [], [], [], []
    for j in range(reps):
        k = 2 + j % 3
        rows = rng.choice([1, 2, 3])
        sizes = [rng.choice([1, 2, 3]) for _ in range(k)]
        mats = [rand_mat(rng, rows, s) for s in sizes]
        op = O.CatLinearOperator(*[O.DenseLinearOperator(m) for m in mats], dim=-1)
        total = sum(sizes)
        rx = [(rng.randrange(rows), rng.randrange(total)) for _ in range(10)] + [(rows - 1, total - 1), (0, 0)]
        if j % 2:
            rx.sort(key=lambda p: p[1])         # long runs
        obs = observe(lambda: op._get_indices(LT([p[0] for p in rx]), LT([p[1] for p in rx]))) or [99999]
        pl = "[" + "; ".join("(%s, %s)" % (zlit(s), zlist(ints_of(m))) for s, m in zip(sizes, mats)) + "]"
        cases.append("CC %s %s %s" % (pl, pairs_lit(rx), zlist(obs)))
        meta.append({"fn": "CatLinearOperator._get_indices", "sizes": sizes, "rx": rx, "observed": obs})
        for q in range(6):
            kind = ["ab", "neg", "long", "stopn", "a", "b"][q]
            sl = ix.gen_slice(rng, kind, total)
            try:
                ids, sls = op._split_slice(slice(sl["a"], sl["b"], None))
            except Exception:      # noqa
                continue
            tr = []
            for t, s in zip(ids, sls):
                tr.append((int(t), 0 if s.start is None else int(s.start), sizes[int(t)] if s.stop is None else int(s.stop)))
            scases.append("PC %s %s %s [%s]" % (natlist(sizes), oz(sl["a"]), oz(sl["b"]),
                                               "; ".join("(%d%%nat, %s, %s)" % (a, zlit(b), zlit(c)) for a, b, c in tr)))
            smeta.append({"fn": "CatLinearOperator._split_slice", "sizes": sizes, "slice": [sl["a"], sl["b"]], "observed": tr})
    cases_cat, meta_cat = cases, meta
    # ---- Interpolated._get_indices over a dense base; the default LinearOperator._get_indices (same formula, one point, weight 1)
    quad = lambda q: "(%s, %s, %s, %s)" % tuple(zlist(x) for x in q)
    cases, meta = [], []
    for j in range(reps):
        m, n, k = rng.choice([1, 2, 3]), rng.choice([1, 2, 3]), rng.choice([1, 2, 3])
        M, N = rng.choice([1, 2, 4]), rng.choice([1, 3])
        base = rand_mat(rng, m, n)
        li = [[rng.randrange(m) for _ in range(k)] for _ in range(M)]
        ri = [[rng.randrange(n) for _ in range(k)] for _ in range(N)]
        lv = [[rng.randint(-3, 3) for _ in range(k)] for _ in range(M)]
        rv = [[rng.randint(-3, 3) for _ in range(k)] for _ in range(N)]
        rc = rand_pairs(rng, M, N, 6) + [(M - 1, N - 1)]
        if j % 4 == 3:
            # the default implementation, called on an operator class that does not override it
            op = O.DenseLinearOperator(base)
            rc = rand_pairs(rng, m, n, 6) + [(m - 1, n - 1)]
            obs = observe(lambda: O.LinearOperator._get_indices(op, LT([p[0] for p in rc]), LT([p[1] for p in rc]))) or [99999]
            qs = [([r], [1], [c], [1]) for r, c in rc]
            fn = "LinearOperator._get_indices (default)"
        else:
            op = O.InterpolatedLinearOperator(O.DenseLinearOperator(base), LT(li), torch.tensor(lv, dtype=torch.float64),
                                              LT(ri), torch.tensor(rv, dtype=torch.float64))
            obs = observe(lambda: op._get_indices(LT([p[0] for p in rc]), LT([p[1] for p in rc]))) or [99999]
            qs = [(li[r], lv[r], ri[c], rv[c]) for r, c in rc]
            fn = "InterpolatedLinearOperator._get_indices"
        cases.append("IC %s %s [%s] %s" % (zlit(n), zlist(ints_of(base)), "; ".join(quad(q) for q in qs), zlist(obs)))
        meta.append({"fn": fn, "base": [m, n], "k": k, "rc": rc, "observed": obs})
    jobs.bad("L3interp", mk_shards("l3interp", "interp_case", cases, "bad_interp"), lambda bad, meta=meta: report_lib(ctx, bad, meta, "interp_get_indices"))
    stats["l3_interp_cases"] = len(cases)
    # ---- Interpolated._diagonal over a Root base with dense root (own shortcut): equal / different index tensors on the two sides
    cases, meta = [], []
    for j in range(reps):
        m, rk, k, M = rng.choice([2, 3]), rng.choice([1, 2, 3]), rng.choice([1, 2]), rng.choice([1, 2, 4])
        R = rand_mat(rng, m, rk)
        li = [[rng.randrange(m) for _ in range(k)] for _ in range(M)]
        ri = li if j % 2 else [[rng.randrange(m) for _ in range(k)] for _ in range(M)]
        lv = [[rng.randint(-3, 3) for _ in range(k)] for _ in range(M)]
        rv = [[rng.randint(-3, 3) for _ in range(k)] for _ in range(M)]
        op = O.InterpolatedLinearOperator(O.RootLinearOperator(R), LT(li), torch.tensor(lv, dtype=torch.float64),
                                          LT(ri), torch.tensor(rv, dtype=torch.float64))
        obs = observe(lambda: op._diagonal()) or [99999]
        qs = [(li[i], lv[i], ri[i], rv[i]) for i in range(M)]
        cases.append("IDC %s %s [%s] %s" % (zlit(rk), zlist(ints_of(R)), "; ".join(quad(q) for q in qs), zlist(obs)))
        meta.append({"fn": "InterpolatedLinearOperator._diagonal (Root base)", "root": [m, rk], "same_indices": bool(j % 2), "observed": obs})
    jobs.bad("L3idiag", mk_shards("l3idiag", "idiag_case", cases, "bad_idiag"), lambda bad, meta=meta: report_lib(ctx, bad, meta, "interp_root_diag"))
    stats["l3_interp_root_diag_cases"] = len(cases)
    # ---- _kron_diag (1-4 factors)
    from linear_operator.operators.kronecker_product_linear_operator import _kron_diag
    cases, meta = [], []
    for j in range(reps):
        sizes = [rng.choice([1, 2, 3]) for _ in range(1 + j % 4)]
        diags = [[rng.randint(-3, 3) for _ in range(sz)] for sz in sizes]
        ops = [O.DiagLinearOperator(torch.tensor(d, dtype=torch.float64)) for d in diags]
        obs = observe(lambda: _kron_diag(*ops)) or [99999]
        cases.append("KD [%s] %s" % ("; ".join(zlist(d) for d in diags), zlist(obs)))
        meta.append({"fn": "_kron_diag", "diags": diags, "observed": obs})
    jobs.bad("L3kdiag", mk_shards("l3kdiag", "kdiag_case", cases, "bad_kdiag"), lambda bad, meta=meta: report_lib(ctx, bad, meta, "kron_diag"))
    stats["l3_kron_diag_cases"] = len(cases)
    # ---- Diag / Root / Matmul / SumBatch _get_indices (element-level formulas; dense data)
    cases, meta = [], []
    for j in range(reps):
        n = rng.choice([1, 2, 3, 4])
        dg = [rng.randint(-4, 4) for _ in range(n)]
        rc = rand_pairs(rng, n, n, 6) + [(n - 1, n - 1), (0, n - 1)]
        op = O.DiagLinearOperator(torch.tensor(dg, dtype=torch.float64))
        obs = observe(lambda: op._get_indices(LT([p[0] for p in rc]), LT([p[1] for p in rc]))) or [99999]
        cases.append("DG %s %s %s" % (zlist(dg), pairs_lit(rc), zlist(obs)))
        meta.append({"fn": "DiagLinearOperator._get_indices", "diag": dg, "rc": rc, "observed": obs})
    jobs.bad("L3diagop", mk_shards("l3diagop", "diagop_case", cases, "bad_diagop"), lambda bad, meta=meta: report_lib(ctx, bad, meta, "diag_get_indices"))
    stats["l3_diag_cases"] = len(cases)
    cases, meta = [], []
    for j in range(reps):
        m, rk = rng.choice([1, 2, 3]), rng.choice([1, 2, 3])
        R = rand_mat(rng, m, rk)
        rc = rand_pairs(rng, m, m, 6) + [(m - 1, 0)]
        op = O.RootLinearOperator(R)
        obs = observe(lambda: op._get_indices(LT([p[0] for p in rc]), LT([p[1] for p in rc]))) or [99999]
        cases.append("RT0 %s %s %s %s" % (zlit(rk), zlist(ints_of(R)), pairs_lit(rc), zlist(obs)))
        meta.append({"fn": "RootLinearOperator._get_indices", "root": [m, rk], "rc": rc, "observed": obs})
    jobs.bad("L3root", mk_shards("l3root", "root_case", cases, "bad_root"), lambda bad, meta=meta: report_lib(ctx, bad, meta, "root_get_indices"))
    stats["l3_root_cases"] = len(cases)
    cases, meta = [], []
    for j in range(reps):
        m, k, n = rng.choice([1, 2, 3]), rng.choice([1, 2, 3]), rng.choice([1, 2, 3])
        Lm, Rm = rand_mat(rng, m, k), rand_mat(rng, k, n)
        rc = rand_pairs(rng, m, n, 6) + [(m - 1, n - 1)]
        op = O.MatmulLinearOperator(O.DenseLinearOperator(Lm), O.DenseLinearOperator(Rm))
        obs = observe(lambda: op._get_indices(LT([p[0] for p in rc]), LT([p[1] for p in rc]))) or [99999]
        cases.append("MM %s %s %s %s %s %s" % (zlit(k), zlit(n), zlist(ints_of(Lm)), zlist(ints_of(Rm)), pairs_lit(rc), zlist(obs)))
        meta.append({"fn": "MatmulLinearOperator._get_indices", "dims": [m, k, n], "rc": rc, "observed": obs})
    jobs.bad("L3mm", mk_shards("l3mm", "mm_case", cases, "bad_mm"), lambda bad, meta=meta: report_lib(ctx, bad, meta, "matmul_get_indices"))
    stats["l3_matmul_cases"] = len(cases)
    cases, meta = [], []
    for j in range(reps):
        nb, m, n = rng.choice([1, 2, 3]), rng.choice([1, 2, 3]), rng.choice([1, 2, 3])
        base = rand_mat(rng, nb, m, n)
        rc = rand_pairs(rng, m, n, 6) + [(m - 1, n - 1)]
        op = O.SumBatchLinearOperator(O.DenseLinearOperator(base))
        obs = observe(lambda: op._get_indices(LT([p[0] for p in rc]), LT([p[1] for p in rc]))) or [99999]
        cases.append("SB %s %s %s %s %s %s" % (zlit(nb), zlit(m), zlit(n), zlist(ints_of(base)), pairs_lit(rc), zlist(obs)))
        meta.append({"fn": "SumBatchLinearOperator._get_indices", "dims": [nb, m, n], "rc": rc, "observed": obs})
    jobs.bad("L3sb", mk_shards("l3sb", "sb_case", cases, "bad_sb"), lambda bad, meta=meta: report_lib(ctx, bad, meta, "sumbatch_get_indices"))
    stats["l3_sumbatch_cases"] = len(cases)
    jobs.bad("L3cat", mk_shards("l3cat", "cat_case", cases_cat, "bad_cat"), lambda bad, meta=meta_cat: report_lib(ctx, bad, meta_cat, "cat_locate"))
    def on_split(codes):
        codes = codes or []
        for b in [i for i, c in enumerate(codes) if c == 0][:3]:
            ctx.violation({"kind": "model-implementation-disagreement", "layer": "L3", "case": smeta[b],
                           "correspondence": "coq/C03/Model.v split_slice (Pinned and Fixed) vs CatLinearOperator._split_slice"}, no_input=True)
        stats["l3_split_pinned_only"] = sum(1 for c in codes if c == 1)
        stats["l3_split_fixed_only"] = sum(1 for c in codes if c == 2)
        stats["l3_split_both"] = sum(1 for c in codes if c == 3)
    jobs.codes("L3split", mk_shards("l3split", "split_case", scases, "split_codes"), on_split)
    stats["l3_cat_cases"] = len(cases_cat)
    stats["l3_split_cases"] = len(scases)
    return stats
