"""C06 — source flags read from the AST of the anchored code (fail-closed), written to coq/C06/gen/SrcFlags.v.

kron_rootinv_noargs : KroneckerProductLinearOperator.root_inv_decomposition, branch `shape[-1] <= max_cholesky_size`:
      return super().root_inv_decomposition()                                              -> True  (arguments dropped)
      return super().root_inv_decomposition(initial_vectors=initial_vectors,
                                            test_vectors=test_vectors, method=method)      -> False (arguments forwarded)
   Both are valid factorisations (the base-class algorithm, run with method None resp. the given method: theorems
   C06_kron_root_inv_small_is_base / C06_model_kron_root_inv_small_valid); they differ in WHICH solver primitives run, which
   the correspondence compares exactly — so the model (Model.kron_noargs) must follow the source.
   Any other shape of that call is outside what Model.v transcribes: Untranslatable (reported by the check).
"""
import ast
import os


class Untranslatable(Exception):
    pass


def _method(tree, cls, name):
    for node in tree.body:
        if isinstance(node, ast.ClassDef) and node.name == cls:
            for st in node.body:
                if isinstance(st, ast.FunctionDef) and st.name == name:
                    return st
    raise Untranslatable("%s.%s not found" % (cls, name))


def kron_rootinv_noargs(repo):
    p = os.path.join(repo, "linear_operator", "operators", "kronecker_product_linear_operator.py")
    try:
        tree = ast.parse(open(p).read())
    except (OSError, SyntaxError) as ex:
        raise Untranslatable("cannot parse kronecker_product_linear_operator.py: %s" % ex)
    f = _method(tree, "KroneckerProductLinearOperator", "root_inv_decomposition")
    # the first statement that tests the size must be `if <...> <= <...>: return super().root_inv_decomposition(...)`
    ifs = [st for st in f.body if isinstance(st, ast.If)]
    if len(ifs) != 1 or len(ifs[0].body) != 1 or not isinstance(ifs[0].body[0], ast.Return) or ifs[0].orelse:
        raise Untranslatable("KroneckerProductLinearOperator.root_inv_decomposition: unexpected control flow")
    test = ifs[0].test
    if not (isinstance(test, ast.Compare) and len(test.ops) == 1 and isinstance(test.ops[0], ast.LtE)
            and "max_cholesky_size" in ast.dump(test.comparators[0])):
        raise Untranslatable("KroneckerProductLinearOperator.root_inv_decomposition: size test is not `<= max_cholesky_size`")
    c = ifs[0].body[0].value
    if not (isinstance(c, ast.Call) and isinstance(c.func, ast.Attribute) and c.func.attr == "root_inv_decomposition"
            and isinstance(c.func.value, ast.Call) and isinstance(c.func.value.func, ast.Name) and c.func.value.func.id == "super"
            and not c.func.value.args):
        raise Untranslatable("KroneckerProductLinearOperator.root_inv_decomposition: small branch is not a super() call")
    if not c.args and not c.keywords:
        return True
    kws = sorted((k.arg, k.value.id if isinstance(k.value, ast.Name) else None) for k in c.keywords)
    if not c.args and kws == [("initial_vectors", "initial_vectors"), ("method", "method"), ("test_vectors", "test_vectors")]:
        return False
    raise Untranslatable("KroneckerProductLinearOperator.root_inv_decomposition: super() call with arguments the model does not transcribe")


def _forward(repo, rel, cls):
    p = os.path.join(repo, "linear_operator", "functions", rel)
    try:
        tree = ast.parse(open(p).read())
    except (OSError, SyntaxError) as ex:
        raise Untranslatable("cannot parse %s: %s" % (rel, ex))
    return _method(tree, cls, "forward")


def _names(node):
    return {n.id for n in ast.walk(node) if isinstance(n, ast.Name)}


def lanczos_jitter_relative(repo):
    """The tridiagonal jitter of the two Lanczos autograd functions must have the DOCUMENTED form
         jitter = settings.tridiagonal_jitter.value() * min(diag T)          (relative, per batch member)
       (`mins` = a `.min(` over the diagonal of t_mat; `jitter_mat` built from the product of the setting and `mins`):
       this is the jitter term of C06_lanczos_root_is_compression / C06_lanczos_root_relative_jitter.  The functions
       themselves are oracles of the model, so any other form (e.g. an absolute jitter) is Untranslatable: fail closed."""
    for rel, cls in (("_root_decomposition.py", "RootDecomposition"), ("_diagonalization.py", "Diagonalization")):
        f = _forward(repo, rel, cls)
        assigns = {}
        for st in ast.walk(f):
            if isinstance(st, ast.Assign) and len(st.targets) == 1 and isinstance(st.targets[0], ast.Name):
                assigns.setdefault(st.targets[0].id, []).append(st.value)
        mins = assigns.get("mins", [])
        if len(mins) != 1 or "t_mat" not in _names(mins[0]) or not any(
                isinstance(n, ast.Attribute) and n.attr == "min" for n in ast.walk(mins[0])):
            raise Untranslatable("%s.forward: `mins` is not the minimum of the diagonal of t_mat" % cls)
        jm = assigns.get("jitter_mat", [])
        if len(jm) != 1:
            raise Untranslatable("%s.forward: expected one assignment to jitter_mat" % cls)
        src = ast.dump(jm[0])
        setting = "tridiagonal_jitter" in src or ("jitter_val" in _names(jm[0]) and any(
            "tridiagonal_jitter" in ast.dump(v) for v in assigns.get("jitter_val", [])))
        prod = any(isinstance(n, ast.BinOp) and isinstance(n.op, ast.Mult) and "mins" in _names(n)
                   and ("tridiagonal_jitter" in ast.dump(n) or "jitter_val" in _names(n)) for n in ast.walk(jm[0]))
        if not (setting and prod):
            raise Untranslatable("%s.forward: the jitter added to the tridiagonal matrix is not tridiagonal_jitter * min(diag T) "
                                 "(the documented relative jitter)" % cls)
    return True


def translate(repo):
    """-> (Coq source of gen/SrcFlags.v, dict of flags)"""
    fl = {"kron_rootinv_noargs": kron_rootinv_noargs(repo)}
    try:
        fl["lanczos_jitter_relative"] = lanczos_jitter_relative(repo)
    except Untranslatable as ex:
        # not fatal for the model (the Lanczos functions are oracles): reported by the check, which goes on to search the
        # grid (SCALE family) for a concrete failing input
        fl["lanczos_jitter_relative"] = False
        fl["lanczos_jitter_note"] = str(ex)
    code = ("(* GENERATED by harness/c06_tr.py from linear_operator/operators/kronecker_product_linear_operator.py and "
            "linear_operator/functions/_{root_decomposition,diagonalization}.py - do not edit *)\n"
            "Definition src_kron_rootinv_noargs : bool := %s.\n"
            "Definition src_lanczos_jitter_relative : bool := %s.\n"
            % ("true" if fl["kron_rootinv_noargs"] else "false", "true" if fl["lanczos_jitter_relative"] else "false"))
    return code, fl


if __name__ == "__main__":
    import sys
    print(translate(sys.argv[1] if len(sys.argv) > 1 else "/repo"))
