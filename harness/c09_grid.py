"""C09: the structural grid of lanczos_tridiag cases.  The cells are enumerated deterministically (they do
not depend on the seed); the seed only picks the values (vseed of every cell) and, in the quick tier,
nothing else.  A cell is a dict (JSON-able):
   n, batch, nvec, fam, start, max_iter, dtype ('f64'|'f32'), tol (None = default), same_batch, vseed
"""

FAMS_WELL = ["uniform", "kappa10", "intgram"]                 # full Krylov space, kappa <= ~1e3
FAMS_ILL = ["geometric", "wide", "rbf"]                       # decaying spectra (numerically low rank)
FAMS_DEG = ["few2", "few3", "few4", "rank1", "rank2", "rank3", "rankhalf"]   # exact early breakdown
SIZES_Q = [2, 3, 4, 5, 8, 16, 32, 64]
BATCHES = [[], [2], [1], [2, 3], [3, 1]]


def max_iters(n):
    """the budgets of the property's quantifier: 1 .. n+2 (all of them for small n, representatives otherwise)"""
    if n <= 6:
        return list(range(1, n + 3))
    s = {1, 2, 3, 5, n // 2, n - 1, n, n + 1, n + 2}
    return sorted(x for x in s if x >= 1)


def cell(n, fam, max_iter, batch=(), nvec=1, start="random", dtype="f64", tol=None, same_batch=False, scale=1.0):
    return {"n": n, "batch": list(batch), "nvec": nvec, "fam": fam, "start": start, "max_iter": max_iter,
            "dtype": dtype, "tol": tol, "same_batch": same_batch, "scale": scale}


def grid(quick):
    cells = []
    # (1) every budget 1..n+2 for small sizes, all families, single vector, no batch, both dtypes
    for n in ([2, 3, 4, 5] if quick else [2, 3, 4, 5, 6]):
        for fam in FAMS_WELL[:2] + FAMS_DEG + ["geometric"]:
            for mi in max_iters(n):
                for dt in ("f64", "f32"):
                    if quick and dt == "f32" and (mi + n) % 2:
                        continue
                    cells.append(cell(n, fam, mi, dtype=dt))
    # (2) sizes x families with representative budgets
    for n in (SIZES_Q if quick else SIZES_Q + [6, 7, 12, 24, 48]):
        if n <= 5:
            continue
        for fi, fam in enumerate(FAMS_WELL + FAMS_ILL + FAMS_DEG):
            mis = max_iters(n)
            if quick:
                # rotate: three budgets per (n, fam), always including one >= n
                mis = sorted({mis[(fi + n) % len(mis)], mis[(2 * fi + 1) % len(mis)], n + (fi % 3)})
                if n >= 32:
                    mis = mis[-2:] if fam in FAMS_DEG else [min(mis[0], 12), mis[-1]]
                if n == 64 and fi % 3 != 0:
                    mis = [m for m in mis if m <= 12] or [8]
            for k, mi in enumerate(mis):
                dt = "f32" if (fi + k + n) % 3 == 0 else "f64"
                cells.append(cell(n, fam, mi, dtype=dt))
                if not quick:
                    cells.append(cell(n, fam, mi, dtype="f32" if dt == "f64" else "f64"))
    # (3) batches and several start vectors (the two global reductions, the permute/squeeze of the result)
    for n in ([3, 4, 8] if quick else [2, 3, 4, 8, 16]):
        for bi, batch in enumerate(BATCHES):
            for nvec in (1, 2, 3):
                if batch == [] and nvec == 1:
                    continue
                for fi, fam in enumerate(["uniform", "kappa10", "geometric", "few3", "rank2", "intgram"]):
                    if quick and (fi + bi + nvec + n) % 3 != 0:
                        continue
                    for mi in sorted({2, n - 1, n, n + 2} - {0, 1}):
                        if quick and (mi + fi) % 2 and n > 3:
                            continue
                        dt = "f32" if (fi + bi + nvec + mi) % 4 == 0 else "f64"
                        cells.append(cell(n, fam, mi, batch=batch, nvec=nvec, dtype=dt,
                                          same_batch=((fi + bi) % 5 == 0)))
    # (4) mixed batches: one member breaks down early, the other does not (break only when ALL betas are small)
    for n in ([4, 8] if quick else [4, 6, 8, 16]):
        for fams in (["rank1", "uniform"], ["few2", "kappa10"], ["rank2", "few3"], ["uniform", "rank1"]):
            for nvec in (1, 2):
                for mi in sorted({3, n, n + 1}):
                    cells.append(cell(n, fams, mi, batch=[2], nvec=nvec, dtype="f64"))
    # (5) start vectors: shared across the batch, badly scaled, all ones
    for n in ([4, 8] if quick else [3, 4, 8, 16]):
        for start in ("shared", "scaled", "ones"):
            for fam in ("uniform", "rank2", "geometric"):
                for batch, nvec in (([], 3), ([2], 2)):
                    cells.append(cell(n, fam, n, batch=batch, nvec=nvec, start=start,
                                      dtype="f32" if (n + len(start)) % 4 == 0 else "f64"))
    # (6) the tol argument (threshold of the extra re-orthogonalisation passes) and matrix scale
    for n in ([8] if quick else [4, 8, 16]):
        for tol in (1e-3, 1e-8, 1e-1):
            for fam in ("uniform", "rank2", "rbf"):
                cells.append(cell(n, fam, n, tol=tol, nvec=2))
        for scale in (1e-3, 1e3):
            for fam in ("uniform", "rank2", "few3"):
                cells.append(cell(n, fam, n, scale=scale, batch=[2]))
    # (7) Krylov dimension 1: the start vector is an eigenvector / the matrix is a multiple of the identity
    for n in ([2, 4, 8] if quick else [2, 3, 4, 8, 16]):
        for mi in sorted({1, 2, n, n + 2}):
            cells.append(cell(n, "scalar", mi))
            cells.append(cell(n, "uniform", mi, start="eigvec"))
        cells.append(cell(n, "kappa10", n, start="eigvec", nvec=2))
        cells.append(cell(n, "scalar", n, batch=[2], dtype="f32"))
    # (8) float32, norm ~1e2, fast decaying spectrum or rank deficient, budget past the numerical rank: one
    #     Gram-Schmidt pass is not enough there, the extra re-orthogonalisation passes do the work
    for n in ([16, 32] if quick else [12, 16, 32, 48]):
        for fam in ("rbf", "geometric", "wide", "rank3", "rankhalf"):
            for batch, nvec in (([], 1), ([2], 1), ([], 2)):
                if quick and (n + len(fam) + nvec + len(batch)) % 2:
                    continue
                cells.append(cell(n, fam, n, batch=batch, nvec=nvec, dtype="f32", scale=1e2))
    # (9) mixed breakdown: ONE degenerate member / start vector among generic ones, at every position.  degenerate = start
    #     vector an exact eigenvector, matrix an exact multiple of the identity, or Krylov dimension k < n (members break down
    #     at DIFFERENT steps).  Every generic member must still get its full decomposition (per-member predicates).
    for n in ([6, 8] if quick else [4, 6, 8, 12]):
        for batch in ([2], [3], [2, 2]):
            B = 1
            for x in batch:
                B *= x
            for pos in range(B):
                for kind in ("eigvec", "scalar", "lowk", "lowk2"):
                    for nvec in (1, 2):
                        if quick and (n + pos + nvec + len(kind)) % 2 and kind != "eigvec":
                            continue
                        gen = ["uniform", "kappa10", "intgram"]
                        fams = [gen[(b + pos) % 3] for b in range(B)]
                        c = None
                        if kind == "eigvec":
                            c = cell(n, fams, n, batch=batch, nvec=nvec, start="mixed-eig")
                            c["eig_at"] = [[pos, (pos + n) % nvec]]
                        elif kind == "scalar":
                            fams[pos] = "scalar"
                            c = cell(n, fams, n, batch=batch, nvec=nvec)
                        elif kind == "lowk":
                            fams[pos] = ["rank1", "few2", "rank2", "few3"][(pos + n) % 4]
                            c = cell(n, fams, n + (pos % 2), batch=batch, nvec=nvec)
                        else:
                            fams[pos] = "few2"
                            fams[(pos + 1) % B] = "few3"
                            c = cell(n, fams, n, batch=batch, nvec=nvec)
                        cells.append(c)
        # several start vectors of ONE matrix, one of them an eigenvector, at every position
        for nvec in (2, 3):
            for j in range(nvec):
                for fam in ("uniform", "kappa10"):
                    c = cell(n, fam, n, nvec=nvec, start="mixed-eig")
                    c["eig_at"] = [[0, j]]
                    cells.append(c)
    # n = 1 (every budget gives num_iter = 1)
    for mi in (1, 2, 3):
        cells.append(cell(1, "uniform", mi))
    return cells
