"""C03 — indexing and diagonal extraction match torch indexing of the dense matrix.

theorems : coq/C03/Property.v over coq/C03/Model.v (Python slice semantics, torch-index SPEC on dense tensors of
           any rank, transcription of __getitem__ / utils/getitem.py, per-class index arithmetic)
tie      : correspondence, four layers (all evaluated inside Coq by vm_compute on literals):
             L1 spec      torch_index (Coq)            vs real torch on dense tensors        (validates the SPEC)
             L2 frontend  getitem.py / __getitem__ model vs the real functions / DenseLinearOperator
             L3 classes   per-class _get_indices / _getitem / _diagonal models vs the real methods
             L4 e2e       op[idx] (densified) for every opbuild class  vs torch_index (Coq) on the dense matrix
           plus the direct predicate in Python: op[idx] == opbuild.dense(e)[idx] == op.to_dense()[idx],
           op.diagonal() == dense diagonal, debug setting on and off.
"""
import itertools
import json
import os
import random
import re
import time
import traceback
import zlib

import torch

from . import common, opbuild as ob, c03_idx as ix, c03_lib as lib, c03_x as xl, c03_big as big
from .common import zlit, zlist, natlist

PROP = "C03"
SH = 300                    # cases per shard

HDR = ("From Coq Require Import List ZArith Bool.\nImport ListNotations.\n"
       "Require Import C03.Model C03.Check.\nOpen Scope Z_scope.\n")


def regenerate():
    os.makedirs(os.path.join(common.COQ, PROP, "gen"), exist_ok=True)
    return {}


# ------------------------------------------------------------------------------------------ Coq literals

def oz(x):
    return "No" if x is None else "(So %s)" % zlit(x)


def raw_lit(it):
    k = it["k"]
    if k == "int":
        return "RI %s" % zlit(it["v"])
    if k == "slice":
        return "RS %s %s %s" % (oz(it["a"]), oz(it["b"]), oz(it["s"]))
    if k == "ell":
        return "RE"
    if k == "t":
        return "RT %s %s" % (natlist(it["shape"]), zlist(it["data"]))
    if k == "list":
        return "RL %s" % zlist(it["data"])
    raise ValueError(k)


def idx_lit(items):
    return "[" + "; ".join(raw_lit(i) for i in items) + "]"


def tensor_lit(shape, data):
    return "(mkT %s %s)" % (natlist(shape), zlist(data))


INT_TOL = 1e-6     # FFT-based paths (Toeplitz matmul / to_dense) return integers up to ~1e-15; data are small integers


def is_integral(x, tol=INT_TOL):
    """finite and within tol of integers (exact integer data; only FFT / float summation noise is tolerated)"""
    x = x.detach()
    if x.numel() == 0:
        return True
    if not bool(torch.all(torch.isfinite(x)).item()):
        return False
    return bool(((x - x.round()).abs().max() <= tol).item())


def rint(x):
    """round a near-integral tensor to exact integers (float64)"""
    return x.detach().to(torch.float64).round()


def tlit_of(x):
    """torch tensor (integer valued) -> Coq tensor literal"""
    x = x.detach()
    return tensor_lit(list(x.shape), [int(v) for v in x.reshape(-1).round().tolist()])


def otensor_lit(r):
    """observed result: ('ok', tensor) | ('err', ...)"""
    if r[0] == "ok":
        return "(Some %s)" % tlit_of(r[1])
    return "None"


def shard(defs, ctype, cases, fn):
    return HDR + "".join(defs) + "Definition cases : list %s := [\n %s].\nEval vm_compute in (%s cases).\n" % (
        ctype, ";\n ".join(cases), fn)


def run_shards(ctx, tag, shards):
    """shards: list of (name, src, n_cases) -> list of global bad indices, or None when a shard failed"""
    res = common.run_shards(ctx, [(lib.RUN + n, s) for n, s, _ in shards])
    lib.cleanup(ctx, [lib.RUN + n for n, _, _ in shards], res)
    bad, off = [], 0
    ok = True
    for name, _, cnt in shards:
        rc, out = res[lib.RUN + name]
        b = common.parse_coq_list_of_nat(out) if rc == 0 else None
        if b is None:
            ctx.violation({"kind": "shard-failed", "layer": tag, "shard": name, "out": out[-700:]}, no_input=True)
            ok = False
        else:
            bad += [off + i for i in b]
        off += cnt
    return bad if ok else None


# ------------------------------------------------------------------------------------------ running the implementation

UNSUP = re.compile(r"not (currently )?supported|does not support|only implemented for|not implemented", re.I)
SHAPE_ASSERT = re.compile(r"__getitem__ failed! Expected a final shape")


def run_index(op, idx, dbg):
    from linear_operator import settings
    with settings.debug(dbg):
        try:
            r = op[idx]
            if not torch.is_tensor(r):
                r = r.to_dense()
            return ("ok", rint(r) if is_integral(r) else r.detach(), r.dtype)
        except Exception as ex:           # noqa
            return ("err", type(ex).__name__, str(ex)[:160])


def run_dense(D, idx):
    try:
        return ("ok", D[idx])
    except Exception as ex:               # noqa
        return ("err", type(ex).__name__, str(ex)[:160])


def same(a, b):
    return a.shape == b.shape and torch.equal(a.to(torch.float64), b.to(torch.float64))


def fail_kind(r, exp, dtype=None):
    """None if r (implementation) agrees with exp (dense reference, an ('ok', tensor)); else the failure kind"""
    if r[0] == "ok":
        if same(r[1], exp[1]):
            if dtype is not None and len(r) > 2 and r[2] not in dtype:
                return "dtype"
            return None
        return "shape" if r[1].shape != exp[1].shape else "value"
    if SHAPE_ASSERT.search(r[2]):
        return "shape"                    # debug-mode assertion of the same wrong shape
    if r[1] == "NotImplementedError" or UNSUP.search(r[2]):
        return "unsupported"
    return "raise:" + r[1]


# ------------------------------------------------------------------------------------------ structural cells / keys

def gk(k):
    if k in ("int_pos", "t0"):
        return "int"
    if k in ("int_neg", "int_m1"):
        return "negint"
    if k in ("t1", "list"):
        return "t1"
    return k


def moved_to_start(kinds):
    """kinds after int removal is judged by the library on the list with ints present (ints are transparent)"""
    if kinds and kinds[0] in ix.TENSOR_KINDS:
        return True
    has, cont = False, True
    for k in kinds[1:]:
        if k in ix.TENSOR_KINDS:
            if not has:
                has = True
            elif not cont:
                return True
        elif k in ix.SLICE_KINDS:
            if has:
                cont = False
    return False


def cell_of(items, shape):
    """structural cell of an index tuple on an operator of the given shape (independent of values/seed)"""
    nd = len(shape)
    kind_at = ["full"] * nd
    for it, d in zip(items, ix.align(items, nd)):
        if d is not None and d < nd:
            kind_at[d] = ix.classify(it, shape[d])
    bk, rk, ck = kind_at[:-2], kind_at[-2], kind_at[-1]
    bt = any(k in ix.TENSOR_KINDS for k in bk)
    rt, ct = rk in ix.TENSOR_KINDS, ck in ix.TENSOR_KINDS
    absorbed = (bt and (rt or ct)) or ((not bt) and rt and ct)
    info = {"absorbed": absorbed, "kind_at": kind_at,
            "generic": "r=%s;c=%s;b=%s" % (gk(rk), gk(ck), "+".join(sorted({gk(k) for k in bk})))}
    if rk == "int_m1" or ck == "int_m1":
        cell = "int_m1@matrix"
    elif absorbed and rk in ix.INT_KINDS:
        cell = "absorbed+int@row"
    elif absorbed and "t2" in kind_at and not ct and not moved_to_start(
            bk + ["full" if rk in ix.INT_KINDS else rk, "full" if ck in ix.INT_KINDS else ck]):
        cell = "absorbed+rank2-in-place+trailing-dim"
    else:
        cell = info["generic"]
    return cell, info


FRONT_CELLS = ("int_m1@matrix", "absorbed+int@row", "absorbed+rank2-in-place+trailing-dim")


def front_end_at_fault(TD, idx, dbg, exp):
    """Shrinking step for the three class-independent front-end cells: the failure is attributed to
    LinearOperator.__getitem__ itself iff the same index also fails on a plain DenseLinearOperator holding the
    dense matrix (whose _getitem / _get_indices is torch indexing).  Otherwise the class is at fault and the
    case is keyed by its generic (row kind, column kind, batch kinds) cell."""
    from linear_operator.operators import DenseLinearOperator
    r = run_index(DenseLinearOperator(TD.clone()), idx, dbg)
    return fail_kind(r, exp) is not None


def tree_classes(e, acc=None):
    acc = set() if acc is None else acc
    acc.add(e["cls"] + (":upper" if e.get("upper") and e["cls"] in ("Chol",) else ""))
    for k in ("ops",):
        for x in e.get(k, []):
            tree_classes(x, acc)
    for k in ("base", "l", "r", "kron", "diag", "a", "b", "root"):
        if isinstance(e.get(k), dict) and "cls" in e[k]:
            tree_classes(e[k], acc)
    return acc


def kids_of(e):
    ks = []
    for x in e.get("ops", []):
        ks.append(x["cls"])
    for k in ("base", "l", "r", "kron", "diag", "a", "b", "root"):
        if isinstance(e.get(k), dict) and "cls" in e[k]:
            ks.append(e[k]["cls"])
    return ",".join(sorted(set(ks)))


def norm_items(items, nd):
    """one item per dimension: ellipsis expanded, missing trailing indices filled with full slices"""
    out = [ix.S() for _ in range(nd)]
    for it, d in zip(items, ix.align(items, nd)):
        if d is not None and d < nd:
            out[d] = it
    return out


def as_slice(it, fixed=False):
    """what __getitem__ turns a row / column item into: python ints (and 0-d tensors) become slice(i, i + 1)
    (fixed=True: slice(i, i + 1 or None), the repaired front end)"""
    if it["k"] == "int" or (it["k"] == "t" and not it["shape"]):
        v = it["v"] if it["k"] == "int" else it["data"][0]
        return ix.S(v, (v + 1 or None) if fixed else v + 1)
    return it


def is_noop(it):
    return it["k"] == "slice" and it["a"] is None and it["b"] is None and it["s"] is None


TRANSPARENT = ("Sum", "PsdSum", "AddedDiag", "ConstantMul", "KronAddedDiag", "SumKron", "LowRankRootAddedDiag")


def path_attrs(e, items, shape):
    """structural attributes naming the library code path an index takes (used only to key known findings narrowly).
    Block / Cat operators are also looked for under parents whose _getitem hands the row / column index on
    (element-wise parents: unchanged; Matmul: (row, :) to the left factor, (:, col) to the right one)."""
    nd = len(shape)
    its = norm_items(items, nd)
    row, col = as_slice(its[-2]), as_slice(its[-1])
    # on a tree with the repaired front end an int i becomes slice(i, i + 1 or None): -1 then equals the slice -1: as well
    row_f, col_f = as_slice(its[-2], fixed=True), as_slice(its[-1], fixed=True)
    at = {"block_fast": False, "cat_idx": None, "cat_on_batch": None, "cat_dim3_batch_int": False,
          "row_eq_col": bool((row == col and not is_noop(row)) or (row_f == col_f and not is_noop(row_f))),
          "batch_tensors_ge2": sum(1 for it in its[:-2] if it["k"] == "list" or (it["k"] == "t" and it["shape"])) >= 2}

    def visit(x, row, col):
        c = x["cls"]
        if c in ("BlockDiag", "BlockInterleaved") and row["k"] == "slice" and col["k"] == "slice" \
                and not (is_noop(row) and is_noop(col)) and row["s"] is None and col["s"] is None:
            xs = ob.shape_of(x)
            k = ob.shape_of(x["base"])[-3]
            rs, re_, cs, ce = row["a"] or 0, row["b"] or xs[-2], col["a"] or 0, col["b"] or xs[-1]
            if not ((rs % k) or (cs % k) or (re_ % k) or (ce % k)):
                at["block_fast"] = True
        if c == "Cat" and at["cat_idx"] in (None, "noop", "slice-ok", "int"):
            xs = ob.shape_of(x)
            d = x["dim"] if x["dim"] < 0 else x["dim"] - len(xs)
            if d >= -2:
                it = row if d == -2 else col
            else:
                it = its[d] if len(xs) == nd else None
            if it is not None:
                at["cat_on_batch"] = d < -2
                at["cat_idx"] = cat_kind(it, xs[d])
            if d == -3 and len(xs) >= 4 and any(b["k"] == "int" or (b["k"] == "t" and not b["shape"]) for b in its[:-2]):
                at["cat_dim3_batch_int"] = True
        if c in TRANSPARENT:
            for kid in child_exprs(x):
                visit(kid, row, col)
        elif c in ("BlockDiag", "BlockInterleaved", "SumBatch"):
            kid = x["base"]
            if kid["cls"] == "Cat":
                ks = ob.shape_of(kid)
                dk = kid["dim"] if kid["dim"] < 0 else kid["dim"] - len(ks)
                if dk == -3 and any(b["k"] == "int" or (b["k"] == "t" and not b["shape"]) for b in its[:-2]):
                    at["cat_dim3_batch_int"] = True
        elif c == "Matmul":
            visit(x["l"], row, ix.S())
            visit(x["r"], ix.S(), col)
    visit(e, row, col)
    return at


def child_exprs(e):
    ks = list(e.get("ops", []))
    for k in ("base", "l", "r", "kron", "diag", "a", "b", "root"):
        if isinstance(e.get(k), dict) and "cls" in e[k]:
            ks.append(e[k])
    return ks


def cat_kind(it, n):
    """how the library's CatLinearOperator code sees the index of the concatenated dimension (size n)"""
    if it["k"] == "slice":
        a, b = it["a"], it["b"]
        if it["s"] is not None:
            return "step"
        if a is None and b is None:
            return "noop"
        if (a is not None and (a < -n or a >= n)) or (b is not None and (b >= n or b <= -n)):
            return "slice-wrap"       # `x % size` differs from slice.indices(size)
        return "slice-ok"
    if it["k"] == "int" or (it["k"] == "t" and not it["shape"]):
        v = it["v"] if it["k"] == "int" else it["data"][0]
        return "negint" if v < 0 else "int"
    return "t2" if (it["k"] == "t" and len(it["shape"]) >= 2) else "t1"


def case_key(e, cell, fail, op="getitem", debug=None, attrs=None):
    tc = tree_classes(e)
    k = {"op": op, "cls": e["cls"], "kids": kids_of(e), "cell": cell, "fail": fail, "debug": debug,
         "chol_upper": "Chol:upper" in tc, "has_chol": any(c.startswith("Chol") for c in tc), "has_cat": "Cat" in tc,
         "has_zero": "Zero" in tc, "nbatch": len(ob.shape_of(e)) - 2}
    k.update(attrs or {})
    return k


# ------------------------------------------------------------------------------------------ instances

def sig(e):
    """structure of an expression: classes, shapes, flags (no data)"""
    if isinstance(e, dict):
        if "data" in e and "shape" in e:
            return ("T", tuple(e["shape"]), bool(e.get("long")), bool(e.get("bool")),
                    tuple(e["data"]) if e.get("bool") else None)
        return tuple((k, sig(v)) for k, v in sorted(e.items()))
    if isinstance(e, list):
        return tuple(sig(x) for x in e)
    return e


def instance(ctx_seed, cls, batch, variant, child=None, m=None, n=None):
    """A deterministic-structure instance: the structure (classes, shapes, flags) comes from a generator seeded
    by the cell only; the run seed re-draws the values whenever it reproduces the same structure."""
    cid = zlib.crc32(("%s|%s|%s|%s" % (cls, batch, variant, child)).encode())
    r0 = random.Random(cid)
    mm = m if m is not None else r0.choice([2, 3, 3])
    nn = n if n is not None else r0.choice([2, 3, 4])
    depth = 2 if child is not None else 1

    def mk(rng):
        return ob.gen(rng, cls, batch=batch, m=mm, n=nn, depth=depth, child=child)
    e0 = mk(random.Random(cid + 1))
    s0 = sig(e0)
    for attempt in range(12):
        e = mk(random.Random(cid * 7919 + ctx_seed * 104729 + attempt))
        if sig(e) == s0:
            return e
    return e0


# children used for depth-2 instances (structure is part of the grid: deterministic)
CHILDREN = {
    "Kron": ["Dense", "Diag", "Toeplitz"], "Sum": ["Dense", "Toeplitz", "Diag", "Root"], "Matmul": ["Dense", "Diag", "Toeplitz"],
    "ConstantMul": ["Dense", "Toeplitz", "Kron", "Root"], "BlockDiag": ["Dense", "Toeplitz", "Root"],
    "BlockInterleaved": ["Dense", "Toeplitz", "Root"], "SumBatch": ["Dense", "Toeplitz", "Diag"],
    "BatchRepeat": ["Dense", "Toeplitz", "Diag", "Root"], "Cat": ["Dense", "Toeplitz", "Diag"],
    "Interpolated": ["Dense", "Toeplitz", "Diag"], "Masked": ["Dense", "Toeplitz", "Kron"],
    "AddedDiag": ["Dense", "Toeplitz", "Root"], "PsdSum": ["Dense", "Toeplitz", "Diag"],
}


def instances(ctx):
    """list of (tag, expr): every opbuild class x batch kind (+ depth-2 variants with a fixed child)"""
    out = []
    for cls in ob.ALL:
        for bi, batch in enumerate(ob.BATCHES):
            if cls == "TransposePermutation" and batch:
                continue
            kids = CHILDREN.get(cls)
            variants = [None]
            if kids:
                variants = [kids[bi % len(kids)]] + ([kids[(bi + 1) % len(kids)]] if not ctx.quick else [])
            for ch in variants:
                try:
                    e = instance(ctx.seed, cls, batch, 0, child=ch)
                    out.append(("%s|%s|%s" % (cls, batch, ch), e))
                except Exception:      # noqa  generator cannot build this combination
                    continue
    return out + extra_instances(ctx)


def extra_instances(ctx):
    """hand-structured instances the generic generator does not produce: concatenations with structured (non-dense)
    components on every kind of dimension, block operators nested under element-wise parents, a Kronecker product of a
    Kronecker product, an operator over a Cat.  Structure is fixed; the seed draws the values."""
    rng = random.Random(ctx.seed * 7919 + 17)
    g = lambda cls, **kw: ob.gen(rng, cls, **kw)
    D = lambda *shape: {"cls": "Dense", "t": ob.rand_t(rng, list(shape))}
    out = []
    for batch in ([], [2]):
        out.append(("x|Cat-1-structured|%s" % batch, {"cls": "Cat", "dim": -1, "ops": [
            D(*batch, 3, 2), g("Toeplitz", batch=batch, m=3), g("Diag", batch=batch, m=3), D(*batch, 3, 1)]}))
        out.append(("x|Cat-2-structured|%s" % batch, {"cls": "Cat", "dim": -2, "ops": [
            g("Toeplitz", batch=batch, m=3), D(*batch, 1, 3), g("Root", batch=batch, m=3)]}))
        out.append(("x|Sum(BlockDiag,Dense)|%s" % batch, {"cls": "Sum", "ops": [
            {"cls": "BlockDiag", "base": D(*batch, 2, 2, 2), "block_dim": -3}, D(*batch, 4, 4)]}))
        out.append(("x|ConstantMul(BlockInterleaved)|%s" % batch, {"cls": "ConstantMul", "c": ob.rand_t(rng, [], 1, 3),
                    "base": {"cls": "BlockInterleaved", "base": D(*batch, 2, 2, 3), "block_dim": -3}}))
        out.append(("x|Kron(Kron,Dense)|%s" % batch, {"cls": "Kron", "ops": [
            {"cls": "Kron", "ops": [D(*batch, 2, 1), D(*batch, 1, 2)]}, D(*batch, 2, 3)]}))
        out.append(("x|Matmul(Cat,Dense)|%s" % batch, {"cls": "Matmul", "l": {"cls": "Cat", "dim": -1, "ops": [
            D(*batch, 3, 2), g("Toeplitz", batch=batch, m=3)]}, "r": D(*batch, 5, 2)}))
        out.append(("x|BlockDiag(Cat-batch)|%s" % batch, {"cls": "BlockDiag", "block_dim": -3, "base": {
            "cls": "Cat", "dim": -3, "ops": [D(*batch, 1, 2, 2), g("Toeplitz", batch=batch + [2], m=2)]}}))
        # nestings that take a class-conditional shortcut in _diagonal / _getitem (isinstance tests on the children):
        # Interpolated over a Root with a dense root (own _diagonal), with EQUAL interpolation indices but different
        # weights on the two sides, with different indices, and symmetric; Root over a non-dense root; the three
        # branches of MatmulLinearOperator._diagonal (Dense x Dense, a Diag factor on either side, general)
        nb = int(torch.tensor(batch + [1]).prod())
        li = {"shape": batch + [4, 2], "data": [rng.randrange(3) for _ in range(nb * 8)], "long": True}
        ri = {"shape": batch + [4, 2], "data": [rng.randrange(3) for _ in range(nb * 8)], "long": True}
        lv, rv = ob.rand_t(rng, batch + [4, 2], -2, 2, nonzero=True), ob.rand_t(rng, batch + [4, 2], -2, 2, nonzero=True)
        if lv["data"] == rv["data"]:
            rv["data"][0] = rv["data"][0] + 1
        root = g("Root", batch=batch, m=3)
        out.append(("x|Interp(Root)-same-idx-diff-w|%s" % batch, {"cls": "Interpolated", "base": root, "li": li, "lv": lv, "ri": li, "rv": rv}))
        out.append(("x|Interp(Root)-diff-idx|%s" % batch, {"cls": "Interpolated", "base": root, "li": li, "lv": lv, "ri": ri, "rv": rv}))
        out.append(("x|Interp(Root)-symmetric|%s" % batch, {"cls": "Interpolated", "base": root, "li": li, "lv": lv, "ri": li, "rv": lv}))
        out.append(("x|Interp(Root(Dense-op))-same-idx|%s" % batch, {"cls": "Interpolated", "base": {"cls": "Root", "root": D(*batch, 3, 2)},
                    "li": li, "lv": rv, "ri": li, "rv": lv}))
        out.append(("x|Root(Toeplitz)|%s" % batch, {"cls": "Root", "root": g("Toeplitz", batch=batch, m=3)}))
        out.append(("x|Matmul(Dense,Dense)sq|%s" % batch, {"cls": "Matmul", "l": D(*batch, 3, 2), "r": D(*batch, 2, 3)}))
        out.append(("x|Matmul(Diag,Dense)|%s" % batch, {"cls": "Matmul", "l": g("Diag", batch=batch, m=3), "r": D(*batch, 3, 3)}))
        out.append(("x|Matmul(Dense,Diag)|%s" % batch, {"cls": "Matmul", "l": D(*batch, 3, 3), "r": g("Diag", batch=batch, m=3)}))
        out.append(("x|Matmul(Toeplitz,Toeplitz)|%s" % batch, {"cls": "Matmul", "l": g("Toeplitz", batch=batch, m=3),
                    "r": g("Toeplitz", batch=batch, m=3)}))
    # parameters / children whose batch shape differs from the operator's batch shape
    out.append(("x|BatchRepeat([3]->[2,3])", {"cls": "BatchRepeat", "base": D(3, 2, 3), "rep": [2, 1]}))
    out.append(("x|BatchRepeat([2]->[4])", {"cls": "BatchRepeat", "base": g("Toeplitz", batch=[2], m=3), "rep": [2]}))
    out.append(("x|BatchRepeat([]->[2,2])", {"cls": "BatchRepeat", "base": D(3, 2), "rep": [2, 2]}))
    out.append(("x|BatchRepeat([1,3]->[2,3])", {"cls": "BatchRepeat", "base": D(1, 3, 2, 2), "rep": [2, 1]}))
    out.append(("x|ConstantMul(c[2])|[2]", {"cls": "ConstantMul", "base": D(2, 3, 4), "c": ob.rand_t(rng, [2], 1, 3)}))
    out.append(("x|ConstantMul(c[2] on [2,2])", {"cls": "ConstantMul", "base": D(2, 2, 3, 2), "c": ob.rand_t(rng, [2], 1, 3)}))
    out.append(("x|ConstantMul(c[2,3])|[2,3]", {"cls": "ConstantMul", "base": g("Toeplitz", batch=[2, 3], m=2),
                "c": ob.rand_t(rng, [2, 3], 1, 3)}))
    out.append(("x|Matmul([],[2])", {"cls": "Matmul", "l": D(3, 2), "r": D(2, 2, 4)}))
    out.append(("x|Matmul([2,1],[3])", {"cls": "Matmul", "l": D(2, 1, 2, 3), "r": g("Toeplitz", batch=[3], m=3)}))
    out.append(("x|Cat0-structured|[3]", {"cls": "Cat", "dim": 0, "ops": [
        g("Toeplitz", batch=[2], m=3), D(1, 3, 3), g("Diag", batch=[1], m=3)]}))
    out.append(("x|Cat0-structured|[3,2]", {"cls": "Cat", "dim": 0, "ops": [
        g("Toeplitz", batch=[2, 2], m=2), D(1, 2, 2, 2)]}))
    out.append(("x|Cat1-of-2|[2,3]", {"cls": "Cat", "dim": 1, "ops": [D(2, 1, 2, 3), g("Kernel", batch=[2, 2], m=2, n=3)]}))
    return out


# ------------------------------------------------------------------------------------------ L1: spec vs torch

def stage_spec(ctx, rng):
    """torch_index (Coq) vs torch.Tensor.__getitem__ on dense integer tensors of ranks 1-4"""
    n_cases = 1500 if ctx.quick else 12000
    shapes = [[4], [1], [3, 4], [1, 3], [2, 3, 4], [2, 1, 3], [3, 3, 3], [2, 2, 3, 3], [1, 3, 2, 4]]
    cases, meta = [], []
    kinds_ext = ix.KINDS
    per = n_cases // len(shapes)
    for shp in shapes:
        nd = len(shp)
        D = torch.arange(int(torch.tensor(shp).prod())).reshape(shp) * 3 - 7
        rows = ix.covering_array(nd) if nd >= 2 else [(k,) for k in kinds_ext if ix.valid_kinds((k,), 1, strict=False)]
        for j in range(per):
            row = rows[j % len(rows)] if j < 2 * len(rows) else tuple(rng.choice(kinds_ext) for _ in range(nd))
            if not ix.valid_kinds(row, nd, strict=False):
                continue
            items, bare = ix.instantiate(rng, row, shp, form=j % 5, negative_tensor_entries=(j % 3 == 0))
            r = run_dense(D, ix.to_py(items, bare))
            cases.append("SC %s %s %s" % (tlit_of(D), idx_lit(items), otensor_lit(r)))
            meta.append((shp, items, bare, r))
        # error cases: out-of-range ints / tensor entries, too many indices, non-broadcastable tensors
        for j in range(6):
            items = [ix.I(rng.choice([shp[0], -shp[0] - 1]))] if j < 2 else (
                [ix.S()] * (nd + 1) if j == 2 else
                [ix.TT([2], [0, shp[0]])] if j == 3 else
                ([ix.TT([2], [0, 0]), ix.TT([3], [0, 0, 0])] if nd >= 2 else [ix.I(0), ix.I(0)]) if j == 4 else
                [ix.ELL, ix.ELL])
            r = run_dense(D, ix.to_py(items, False))
            if j == 5 and r[0] == "ok":
                continue            # torch accepts two ellipses in some versions; outside the property
            cases.append("SC %s %s %s" % (tlit_of(D), idx_lit(items), otensor_lit(r)))
            meta.append((shp, items, False, r))
    shards = []
    for i in range(0, len(cases), SH):
        shards.append(("spec_%d" % (i // SH), shard([], "spec_case", cases[i:i + SH], "bad_spec"), len(cases[i:i + SH])))
    bad = run_shards(ctx, "L1", shards)
    for b in (bad or [])[:5]:
        shp, items, bare, r = meta[b]
        # the SPEC disagrees with torch itself: the model of torch indexing is wrong (no implementation input involved)
        ctx.violation({"kind": "spec-vs-torch", "layer": "L1", "shape": shp, "index": items, "bare": bare,
                       "torch": (list(r[1].shape), r[1].reshape(-1).tolist()) if r[0] == "ok" else r[1:],
                       "correspondence": "coq/C03/Model.v torch_index vs torch.Tensor.__getitem__"}, no_input=True)
    return {"spec_cases": len(cases), "spec_mismatches": len(bad or []),
            "spec_errors_cases": sum(1 for m in meta if m[3][0] == "err")}


# ------------------------------------------------------------------------------------------ L4: end to end

def e2e_rows(ctx, nd, inst_no):
    """index-kind tuples for one instance.  quick: a slice of the strength-2 covering array (the union over the
    instances of a class covers the whole array).  thorough: every kind tuple for rank 2, the whole covering array plus
    a deterministic sample of 400 further tuples (a different one per instance) for rank 3, the covering array for rank 4."""
    if ctx.quick:
        ca = ix.covering_array(nd)
        step = {2: 4, 3: 3, 4: 4}.get(nd, 4)
        rows = [(i, r) for i, r in enumerate(ca) if i % step == inst_no % step]
        ab = absorbed_rows(nd)
        return rows + [(len(ca) + i, r) for i, r in enumerate(ab) if i % 4 == inst_no % 4]
    if nd <= 2:
        return list(enumerate(ix.all_tuples(nd)))
    rows = list(enumerate(ix.covering_array(nd)))
    rows += [(len(rows) + i, r) for i, r in enumerate(absorbed_rows(nd))]
    if nd == 3:
        allt = ix.all_tuples(3)
        st = random.Random(1000 + inst_no)             # grid, not values: independent of the run seed
        rows += [(len(rows) + j, allt[st.randrange(len(allt))]) for j in range(400)]
    return rows


_AB_CACHE = {}


def absorbed_rows(nd):
    """three-way cells of the ABSORBED path that a strength-2 covering array does not guarantee: a 1-d tensor index in a
    batch position, a 1-d tensor index in one matrix position and every slice kind (resp. int kind) in the remaining
    positions - the inputs on which _convert_indices_to_tensors turns slices into index tensors."""
    if nd < 3:
        return []
    if nd in _AB_CACHE:
        return _AB_CACHE[nd]
    rows = []
    others = [k for k in ix.SLICE_KINDS if k != "full"] + ["int_pos", "int_neg"]
    for j, k in enumerate(others):
        for tpos, kpos in ((nd - 1, nd - 2), (nd - 2, nd - 1)):
            row = ["full"] * nd
            row[(j + tpos) % (nd - 2)] = "t1"          # the batch position that carries the tensor rotates
            row[tpos], row[kpos] = "t1", k
            if nd >= 4:                                 # a second slice kind in the free batch position
                free = [d for d in range(nd - 2) if row[d] == "full"]
                row[free[0]] = others[(j + 3) % len(others)]
            rows.append(tuple(row))
        row = ["t1"] * nd                               # slice in a batch position, tensors in both matrix positions
        row[j % (nd - 2)] = k
        rows.append(tuple(row))
    # batch-only indexing (full slices in both matrix positions): several classes special-case it in _getitem
    for j, k in enumerate(ix.KINDS):
        if k in ("full", "t2"):
            continue
        row = ["full"] * nd
        row[j % (nd - 2)] = k
        if nd >= 4:
            row[(j + 1) % (nd - 2)] = ix.KINDS[(j + 5) % 12]
        rows.append(tuple(row))
    rows = [r for r in rows if ix.valid_kinds(r, nd)]
    _AB_CACHE[nd] = rows
    return rows


def eq_rows(nd):
    """the 'row index == column index' families, for EVERY instance of the grid (a class may add a _getitem fast path keyed on
    equal indices, principal sub-matrices, full or unit slices): equal stepped slices (steps 2 / 3, offsets, negative starts:
    three draws), equal contiguous slices of every kind incl. unit slices, and near-equal ones; the batch positions rotate
    through ints, slices and a tensor index.  Returns (kinds, mode) pairs; the column kind is a placeholder."""
    fam = [("step", "eq"), ("step", "eq"), ("step", "eq"), ("step", "near"), ("ab", "eq"), ("a", "eq"), ("neg", "eq"),
           ("stopn", "eq"), ("long", "eq"), ("unit", "eq"), ("ab", "near"), ("b", "eq")]
    bk = ["full", "int_pos", "ab", "int_neg", "step", "t1", "full", "neg", "int_m1", "a", "full", "list"]
    rows = []
    for j, (k, mode) in enumerate(fam):
        row = [bk[(j + d) % len(bk)] for d in range(nd - 2)] + [k, k]
        rows.append((tuple(row), mode))
    return rows


METHODS = ("_getitem", "_get_indices", "_diagonal")
# (class, method) pairs that override LinearOperator's implementation on the tree this check was built for; a pair that
# is NOT listed here is a NEW override: it is reported in the evidence and the class gets the full (thorough-width) index
# family in the quick tier as well.  TRANSCRIBED: what coq/C03/Model.v part 6 / 7 transcribes (see design_notes/C03.md 2a).
BASELINE_OVERRIDES = {
    "BatchRepeat": {"_get_indices", "_getitem"}, "BlockDiag": {"_diagonal", "_get_indices"},
    "BlockInterleaved": {"_diagonal", "_get_indices"}, "Block": {"_getitem"},
    "Cat": {"_diagonal", "_get_indices", "_getitem"}, "Chol": {"_diagonal"},
    "ConstantMul": {"_diagonal", "_get_indices", "_getitem"}, "Dense": {"_diagonal", "_get_indices", "_getitem"},
    "Diag": {"_diagonal", "_get_indices"}, "Identity": {"_getitem"},
    "Interpolated": {"_diagonal", "_get_indices", "_getitem"}, "KeOps": {"_diagonal", "_get_indices", "_getitem"},
    "Kernel": {"_diagonal", "_get_indices", "_getitem"}, "KroneckerProduct": {"_diagonal", "_get_indices"},
    "Masked": {"_diagonal", "_get_indices", "_getitem"}, "Matmul": {"_diagonal", "_get_indices", "_getitem"},
    "Mul": {"_diagonal", "_get_indices"}, "Root": {"_diagonal", "_get_indices", "_getitem"},
    "SumBatch": {"_diagonal", "_get_indices", "_getitem"}, "Sum": {"_diagonal", "_get_indices", "_getitem"},
    "Toeplitz": {"_diagonal", "_get_indices"}, "Triangular": {"_diagonal", "_get_indices"},
    "Zero": {"_diagonal", "_get_indices", "_getitem"},
}
TRANSCRIBED = {
    "BatchRepeat": {"_get_indices"}, "BlockDiag": {"_diagonal", "_get_indices"}, "BlockInterleaved": {"_diagonal", "_get_indices"},
    "Cat": {"_get_indices"}, "Chol": {"_diagonal"}, "ConstantMul": {"_get_indices", "_getitem"},
    "Dense": {"_diagonal", "_get_indices", "_getitem"}, "Diag": {"_diagonal", "_get_indices"},
    "Interpolated": {"_diagonal", "_get_indices"}, "KroneckerProduct": {"_diagonal", "_get_indices"},
    "Masked": {"_get_indices"}, "Matmul": {"_diagonal", "_get_indices", "_getitem"}, "Mul": {"_get_indices"},
    "Root": {"_diagonal", "_get_indices", "_getitem"}, "SumBatch": {"_diagonal", "_get_indices", "_getitem"},
    "Sum": {"_get_indices", "_getitem"}, "Toeplitz": {"_diagonal", "_get_indices"}, "Triangular": {"_get_indices"},
    "Zero": {"_getitem"}, "LinearOperator(default)": {"_getitem", "_get_indices"},
}


BASELINE_FILE = os.path.join(os.path.dirname(os.path.abspath(__file__)), "c03_baseline.json")


def method_hashes():
    """normalised-AST hash of every _getitem / _get_indices / _diagonal override of the tree under test, of the defaults in
    LinearOperator (and __getitem__) and of the helper functions of utils/getitem.py and utils/permutation.py: a change INSIDE
    an existing override (a new branch, a new fast path) shows up as a different hash"""
    import ast
    import hashlib
    import inspect
    import textwrap
    import linear_operator.operators as O
    from linear_operator.operators._linear_operator import LinearOperator
    from linear_operator.utils import getitem as G, permutation as P

    def h(fn):
        try:
            tree = ast.parse(textwrap.dedent(inspect.getsource(fn)))
        except Exception:      # noqa
            return None
        f = tree.body[0]
        body = f.body
        if body and isinstance(body[0], ast.Expr) and isinstance(getattr(body[0], "value", None), ast.Constant) \
                and isinstance(body[0].value.value, str):
            body = body[1:]                                   # docstring
        return hashlib.sha1("\n".join(ast.dump(x) for x in body).encode()).hexdigest()[:16]
    out = {}
    for name, cls in inspect.getmembers(O, inspect.isclass):
        if not issubclass(cls, LinearOperator):
            continue
        short = name.replace("LinearOperator", "") or "LinearOperator"
        for m in METHODS + (("__getitem__",) if cls is LinearOperator else ()):
            if m in cls.__dict__:
                out["%s.%s" % (short if cls is not LinearOperator else "LinearOperator(default)", m)] = h(cls.__dict__[m])
    from linear_operator.operators import block_linear_operator
    for m in METHODS:
        if m in block_linear_operator.BlockLinearOperator.__dict__:
            out["Block.%s" % m] = h(block_linear_operator.BlockLinearOperator.__dict__[m])
    for mod, tag in ((G, "utils.getitem"), (P, "utils.permutation")):
        for fname, fn in inspect.getmembers(mod, inspect.isfunction):
            if fn.__module__ == mod.__name__:
                out["%s.%s" % (tag, fname)] = h(fn)
    return out


def write_override_baseline():
    """regenerate harness/c03_baseline.json from the tree under test (run by hand after /repo has legitimately changed:
    VERIF_REPO=/repo PYTHONPATH=/repo:/verif /venv/bin/python -c 'from harness import c03; c03.write_override_baseline()')"""
    import linear_operator
    data = {"tree": os.path.dirname(os.path.dirname(os.path.abspath(linear_operator.__file__))), "hashes": method_hashes()}
    with open(BASELINE_FILE, "w") as f:
        json.dump(data, f, indent=1, sort_keys=True)
    return data


def override_drift():
    """(drift, new, removed): methods whose body differs from the baseline / that are not in the baseline / that disappeared"""
    try:
        base = json.load(open(BASELINE_FILE))["hashes"]
    except Exception:      # noqa
        return [], [], []
    cur = method_hashes()
    drift = sorted(k for k in cur if k in base and cur[k] != base[k])
    new = sorted(k for k in cur if k not in base)
    removed = sorted(k for k in base if k not in cur)
    return drift, new, removed


def override_table():
    """which operator classes of the tree under test override _getitem / _get_indices / _diagonal (introspection)"""
    import inspect
    import linear_operator.operators as O
    from linear_operator.operators._linear_operator import LinearOperator
    actual = {}
    for name, cls in inspect.getmembers(O, inspect.isclass):
        if not issubclass(cls, LinearOperator) or cls is LinearOperator:
            continue
        own = {m for m in METHODS if m in cls.__dict__}
        if own:
            actual[name.replace("LinearOperator", "")] = own
    new = sorted("%s.%s" % (c, m) for c, ms in actual.items() for m in ms if m not in BASELINE_OVERRIDES.get(c, set()))
    gone = sorted("%s.%s" % (c, m) for c, ms in BASELINE_OVERRIDES.items() for m in ms
                  if c in actual and m not in actual[c])
    untranscribed = sorted("%s.%s" % (c, m) for c, ms in actual.items() for m in ms if m not in TRANSCRIBED.get(c, set()))
    return actual, new, gone, untranscribed


def classes_with_new_overrides(new):
    """opbuild class tags affected by a new override: the class itself and its subclasses in the library"""
    import linear_operator.operators as O
    tags = set()
    for short in {x.split(".")[0] for x in new}:
        cls = getattr(O, short + "LinearOperator", None)
        if cls is None:
            from linear_operator.operators import block_linear_operator
            cls = getattr(block_linear_operator, short + "LinearOperator", None)
        if cls is None:
            continue
        for t, tcls in TAG_CLASS.items():
            c2 = getattr(O, tcls, None)
            if c2 is not None and issubclass(c2, cls):
                tags.add(t)
    return tags


TAG_CLASS = {"Dense": "DenseLinearOperator", "Diag": "DiagLinearOperator", "ConstantDiag": "ConstantDiagLinearOperator",
             "Identity": "IdentityLinearOperator", "Zero": "ZeroLinearOperator", "Toeplitz": "ToeplitzLinearOperator",
             "Triangular": "TriangularLinearOperator", "Chol": "CholLinearOperator", "Root": "RootLinearOperator",
             "LowRankRoot": "LowRankRootLinearOperator", "Kron": "KroneckerProductLinearOperator",
             "KronTriangular": "KroneckerProductTriangularLinearOperator", "KronDiag": "KroneckerProductDiagLinearOperator",
             "KronAddedDiag": "KroneckerProductAddedDiagLinearOperator", "SumKron": "SumKroneckerLinearOperator",
             "AddedDiag": "AddedDiagLinearOperator", "LowRankRootAddedDiag": "LowRankRootAddedDiagLinearOperator",
             "Sum": "SumLinearOperator", "PsdSum": "PsdSumLinearOperator", "Matmul": "MatmulLinearOperator",
             "Mul": "MulLinearOperator", "ConstantMul": "ConstantMulLinearOperator", "BlockDiag": "BlockDiagLinearOperator",
             "BlockInterleaved": "BlockInterleavedLinearOperator", "SumBatch": "SumBatchLinearOperator",
             "BatchRepeat": "BatchRepeatLinearOperator", "Cat": "CatLinearOperator", "Interpolated": "InterpolatedLinearOperator",
             "Masked": "MaskedLinearOperator", "Permutation": "PermutationLinearOperator",
             "TransposePermutation": "TransposePermutationLinearOperator", "Kernel": "KernelLinearOperator"}


def reference(op, e, stats):
    """dense reference of an operator: op.to_dense() (rounded: data are small integers; FFT-based densification
    leaves ~1e-16 noise), cross-checked against the independent assembly opbuild.dense(e)"""
    try:
        TD = op.to_dense()
        D = ob.dense(e)
    except Exception:      # noqa  construction / densification problems are C01's business
        return None
    if not is_integral(TD):
        stats["e2e_skipped_nonintegral"] = stats.get("e2e_skipped_nonintegral", 0) + 1
        return None
    dt = (TD.dtype, op.dtype)     # Zero's to_dense() has the default dtype (a C01/C14 matter): either is accepted
    TD = rint(TD)
    if TD.shape != D.shape or not torch.equal(TD, D.to(torch.float64)):
        # the class does not denote what its constructor arguments say (a C01 matter): C03 is judged against
        # the operator's own to_dense() in that case
        stats["e2e_denotation_mismatch_instances"] = stats.get("e2e_denotation_mismatch_instances", 0) + 1
    return TD, dt


def tree_classes_plain(e):
    return {c.split(":")[0] for c in tree_classes(e)}


def stage_e2e(ctx, rng):
    insts = instances(ctx)
    actual, new_over, gone_over, untranscribed = override_table()
    drift, new_by_hash, removed_by_hash = override_drift()
    # class-level methods that are new or whose body changed: their classes get the full index family in quick as well
    cls_level = [x for x in set(new_over) | set(drift) | set(new_by_hash)
                 if not x.startswith(("utils.", "LinearOperator(default)"))]
    widen_tags = classes_with_new_overrides(cls_level) if cls_level else set()
    cases = []
    defs = {}
    stats = {"e2e_evaluations": 0, "e2e_unsupported": 0, "e2e_direct_failures": 0, "e2e_denotation_mismatch_instances": 0,
             "e2e_instances": 0, "e2e_skipped_nonintegral": 0}
    cells_seen = set()
    kind_hist = {}
    per_cls_count = {}
    dense_of = {}
    t0 = time.time()
    for tag, e in insts:
        try:
            op = ob.build(e)
        except Exception:      # noqa
            continue
        ref = reference(op, e, stats)
        if ref is None:
            continue
        TD, dt = ref
        shape = list(TD.shape)
        nd = len(shape)
        cno = per_cls_count.get(e["cls"], 0)
        per_cls_count[e["cls"]] = cno + 1
        stats["e2e_instances"] += 1
        dname = "D%d" % stats["e2e_instances"]
        defs[dname] = "Definition %s := %s.\n" % (dname, tlit_of(TD))
        dense_of[dname] = TD
        rows = [(ri, row, None) for ri, row in e2e_rows(ctx, nd, cno)]
        if ctx.quick and (tree_classes_plain(e) & widen_tags):
            # a class of this expression has a NEW override of _getitem / _get_indices / _diagonal: full index family
            tier = ctx.tier
            ctx.tier = "thorough"
            try:
                rows = [(ri, row, None) for ri, row in e2e_rows(ctx, nd, cno)]
            finally:
                ctx.tier = tier
            stats["e2e_widened_instances"] = stats.get("e2e_widened_instances", 0) + 1
        base_ri = 100000
        rows += [(base_ri + j, row, mode) for j, (row, mode) in enumerate(eq_rows(nd))]
        for ri, row, mode in rows:
            items, bare = ix.instantiate(rng, row, shape, form=(ri % 5 if mode is None else (ri % 3)), eq_mode=mode)
            idx = ix.to_py(items, bare)
            exp = run_dense(TD, idx)
            if mode is not None:
                stats["e2e_eq_family_cases"] = stats.get("e2e_eq_family_cases", 0) + 1
                if exp[0] != "ok" or exp[1].numel() == 0:
                    continue                  # the copied slice selects nothing on the other dimension: outside the quantifier
            if exp[0] != "ok":
                raise RuntimeError("generator produced an index torch rejects: %s on %s" % (ix.show(items, bare), shape))
            cell, info = cell_of(items, shape)
            for k in info["kind_at"]:
                kind_hist[k] = kind_hist.get(k, 0) + 1
            for dbg in (True, False):
                r = run_index(op, idx, dbg)
                stats["e2e_evaluations"] += 1
                fk = fail_kind(r, exp, dt)
                cells_seen.add((e["cls"], cell))
                cases.append((tag, e, items, bare, dbg, r, exp, cell, dname, fk))
    stats["e2e_impl_seconds"] = round(time.time() - t0, 1)
    # ---- direct predicate: every disagreement with the dense reference is a failing input
    reported = set()
    for (tag, e, items, bare, dbg, r, exp, cell, dname, fk) in cases:
        if fk is None:
            continue
        if fk == "unsupported":
            if declared_unsupported(e, items, r):
                stats["e2e_unsupported"] += 1
                continue
            fk = "raise:" + r[1]
        stats["e2e_direct_failures"] += 1
        if cell in FRONT_CELLS and e["cls"] != "Dense" and not front_end_at_fault(dense_of[dname], ix.to_py(items, bare), dbg, exp):
            cell = cell_of(items, ob.shape_of(e))[1]["generic"]
        key = case_key(e, cell, fk, debug=dbg, attrs=path_attrs(e, items, ob.shape_of(e)))
        sk = json.dumps(key, sort_keys=True)
        if sk in reported:
            continue
        reported.add(sk)
        ctx.violation({"kind": "getitem-differs-from-dense", "layer": "L4", "expr": e, "index": items, "bare": bare,
                       "debug": dbg, "shape": ob.shape_of(e),
                       "observed": obs_json(r), "expected": obs_json(exp), "index_shown": ix.show(items, bare),
                       "describe": ob.describe(e)}, key=key)
    # ---- correspondence with the Coq SPEC on the same cases (implementation output vs torch_index on the dense literal)
    lits, idxmap = [], []
    prev = None
    for ci, (tag, e, items, bare, dbg, r, exp, cell, dname, fk) in enumerate(cases):
        if fk is not None:
            prev = None
            continue            # already triaged by the oracle above (failing input or declared unsupported)
        lit = "SC %s %s %s" % (dname, idx_lit(items), otensor_lit(r))
        if lit == prev:
            stats["e2e_coq_shared_by_debug_modes"] = stats.get("e2e_coq_shared_by_debug_modes", 0) + 1
            continue            # debug on / off gave the identical observation for the identical index: one literal
        prev = lit
        lits.append(lit)
        idxmap.append(ci)
    shards = []
    for i in range(0, len(lits), SH):
        used = sorted({m.group(1) for l in lits[i:i + SH] for m in [re.match(r"SC (D\d+)", l)] if m}, key=lambda u: int(u[1:]))
        shards.append(("e2e_%d" % (i // SH), shard([defs[u] for u in used], "spec_case", lits[i:i + SH], "bad_spec"),
                       len(lits[i:i + SH])))
    bad = run_shards(ctx, "L4", shards)
    for b in (bad or [])[:5]:
        tag, e, items, bare, dbg, r, exp, cell, dname, fk = cases[idxmap[b]]
        # Python oracle says op[idx] == dense[idx] but the Coq spec disagrees: the spec (model) is wrong
        ctx.violation({"kind": "model-implementation-disagreement", "layer": "L4", "expr": e, "index": items, "bare": bare,
                       "debug": dbg, "observed": obs_json(r), "correspondence": "coq/C03/Check.v spec_ok"}, no_input=True)
    stats["e2e_coq_cases"] = len(lits)
    stats["e2e_coq_mismatches"] = len(bad or [])
    stats["e2e_distinct_cells"] = len(cells_seen)
    stats["e2e_kind_histogram"] = kind_hist
    stats["e2e_classes"] = len(per_cls_count)
    stats["overrides_drift"] = drift
    stats["overrides_new_vs_baseline_file"] = new_by_hash
    stats["overrides_removed_vs_baseline_file"] = removed_by_hash
    stats["overrides_new"] = new_over
    stats["overrides_removed"] = gone_over
    stats["overrides_not_transcribed"] = untranscribed
    stats["overrides_widened_tags"] = sorted(widen_tags)
    samples = [{"expr": ob.describe(c[1]), "shape": ob.shape_of(c[1]), "index": ix.show(c[2], c[3]), "debug": c[4],
                "result_shape": list(c[5][1].shape) if c[5][0] == "ok" else c[5][1]} for c in (cases[len(cases) // 3], cases[-1])]
    return stats, samples, cells_seen


def obs_json(r):
    if r[0] == "ok":
        return {"shape": list(r[1].shape), "data": [float(v) for v in r[1].reshape(-1).tolist()][:64]}
    return {"raises": r[1], "message": r[2]}


def declared_unsupported(e, items, r):
    """The library declares unsupported (explicit error): stepped slices / rank >= 2 tensor indices across a
    concatenation.  Accepted only when a CatLinearOperator is part of the expression."""
    tc = tree_classes(e)
    if "Cat" in tc and re.search(r"CatLinearOperator", r[2]):
        return True
    return False


# ------------------------------------------------------------------------------------------ diagonal

def tri_expr(rng, batch, n, upper):
    t = ob.tt(ob.rand_t(rng, batch + [n, n], -2, 2))
    t = torch.triu(t) if upper else torch.tril(t)
    t = t - torch.diag_embed(torch.diagonal(t, dim1=-2, dim2=-1)) + torch.diag_embed(ob.tt(ob.rand_t(rng, batch + [n], 1, 3)))
    return {"cls": "Triangular", "t": ob.from_torch(t), "upper": bool(upper)}


FACTORS = ["TriL", "TriU", "Diag", "ConstantDiag", "Dense", "Root", "Kron", "Toeplitz", "Chol", "Identity"]


def factor_expr(rng, name, batch, n):
    """a square n x n factor of a class with a structure-specific shortcut somewhere in the library"""
    if name in ("TriL", "TriU"):
        return tri_expr(rng, batch, n, name == "TriU")
    if name == "Dense":
        return {"cls": "Dense", "t": ob.rand_t(rng, batch + [n, n])}
    if name == "Kron":
        return {"cls": "Kron", "ops": [{"cls": "Dense", "t": ob.rand_t(rng, batch + [2, 2])},
                                       {"cls": "Dense", "t": ob.rand_t(rng, batch + [n // 2, n // 2])}]}
    return ob.gen(rng, name, batch=batch, m=n)


def diag_family(ctx):
    """the _diagonal family: composites over EVERY ORDERED PAIR of factor classes that have structure-specific shortcuts
    (isinstance tests on the children in _diagonal / _getitem / __add__ / matmul): Matmul and Sum over all pairs, the
    triangular orientations in all four combinations also batched and with broadcasting batch shapes, unary composites
    (Root, ConstantMul, SumBatch, BlockDiag) over every factor class.  Structure is fixed; the seed draws the values."""
    rng = random.Random(ctx.seed * 104729 + 23)
    n = 4
    out = []
    F = lambda name, batch=(): factor_expr(rng, name, list(batch), n)
    for a in FACTORS:
        for b in FACTORS:
            out.append(("d|Matmul(%s,%s)" % (a, b), {"cls": "Matmul", "l": F(a), "r": F(b)}))
            out.append(("d|Sum(%s,%s)" % (a, b), {"cls": "Sum", "ops": [F(a), F(b)]}))
    small = ["TriL", "TriU", "Diag", "Dense", "Root"]
    for a in small:
        for b in small:
            out.append(("d|Matmul(%s,%s)[2]" % (a, b), {"cls": "Matmul", "l": F(a, [2]), "r": F(b, [2])}))
    for a in ("TriL", "TriU"):
        for b in ("TriL", "TriU"):
            out.append(("d|Matmul(%s[2],%s[])" % (a, b), {"cls": "Matmul", "l": F(a, [2]), "r": F(b)}))
            out.append(("d|Matmul(%s[],%s[2,1])" % (a, b), {"cls": "Matmul", "l": F(a), "r": F(b, [2, 1])}))
    for a in FACTORS:
        out.append(("d|Root(%s)" % a, {"cls": "Root", "root": F(a)}))
        out.append(("d|ConstantMul(%s)" % a, {"cls": "ConstantMul", "base": F(a), "c": ob.rand_t(rng, [], 1, 3)}))
        out.append(("d|SumBatch(%s[2])" % a, {"cls": "SumBatch", "base": F(a, [2]), "block_dim": -3}))
        out.append(("d|BlockDiag(%s[2])" % a, {"cls": "BlockDiag", "base": F(a, [2]), "block_dim": -3}))
    return out


# composites produced by PUBLIC operations (the result class is whatever the library's dispatch picks)
def recipe_build(rc):
    a = ob.build(rc["a"])
    k = rc["recipe"]
    if k == "matmul":
        return a @ ob.build(rc["b"])
    if k == "matmul_mT":
        return a @ a.mT
    if k == "mT_matmul":
        return a.mT @ a
    if k == "add":
        return a + ob.build(rc["b"])
    if k == "add_jitter":
        return a.add_jitter(1.0)
    if k == "add_diagonal":
        return a.add_diagonal(ob.tt(rc["d"]))
    if k == "chol_product":
        c = a.cholesky()
        return c @ c.mT
    if k == "mul_const":
        return a * 3.0
    raise ValueError(k)


def recipe_dense(rc):
    A = ob.dense(rc["a"])
    k = rc["recipe"]
    eye = torch.eye(A.shape[-1], dtype=A.dtype)
    if k == "matmul":
        return A @ ob.dense(rc["b"])
    if k == "matmul_mT":
        return A @ A.mT
    if k == "mT_matmul":
        return A.mT @ A
    if k == "add":
        return A + ob.dense(rc["b"])
    if k == "add_jitter":
        return A + eye
    if k == "add_diagonal":
        return A + torch.diag_embed(ob.tt(rc["d"]).expand(A.shape[:-1]))
    if k == "chol_product":
        return A
    if k == "mul_const":
        return A * 3.0
    raise ValueError(k)


def recipes(ctx):
    rng = random.Random(ctx.seed * 7 + 91)
    n = 4
    out = []
    F = lambda name, batch=(): factor_expr(rng, name, list(batch), n)
    for batch in ([], [2]):
        for a in ("TriL", "TriU", "Chol", "Diag", "Dense"):
            out.append({"recipe": "matmul_mT", "a": F(a, batch)})
            out.append({"recipe": "mT_matmul", "a": F(a, batch)})
        for a in FACTORS:
            out.append({"recipe": "add_jitter", "a": F(a, batch)})
            out.append({"recipe": "add_diagonal", "a": F(a, batch), "d": ob.rand_t(rng, batch + [n], 1, 3)})
            out.append({"recipe": "mul_const", "a": F(a, batch)})
        for a in ("Dense", "Root", "Toeplitz", "Kron"):
            out.append({"recipe": "chol_product", "a": ob.gen(rng, a, batch=batch, m=n, psd=True) if a != "Kron" else
                        {"cls": "Kron", "ops": [ob.gen(rng, "Dense", batch=batch, m=2, psd=True), ob.gen(rng, "Dense", batch=batch, m=2, psd=True)]}})
    for a in FACTORS:
        for b in FACTORS:
            out.append({"recipe": "matmul", "a": F(a), "b": F(b)})
            out.append({"recipe": "add", "a": F(a), "b": F(b)})
    return out


def stage_diag(ctx, rng):
    insts = instances(ctx) + diag_family(ctx)
    lits, meta = [], []
    stats = {"diag_evaluations": 0, "diag_direct_failures": 0, "diag_unsupported": 0}
    for tag, e in insts:
        try:
            op = ob.build(e)
        except Exception:      # noqa
            continue
        ref = reference(op, e, {})
        if ref is None:
            continue
        TD, dt = ref
        square = TD.shape[-1] == TD.shape[-2]
        exp = ("ok", torch.diagonal(TD, dim1=-2, dim2=-1)) if square else None
        for dbg in (True, False):
            from linear_operator import settings
            with settings.debug(dbg):
                try:
                    r = op.diagonal()
                    r = ("ok", rint(r) if is_integral(r) else r.detach(), r.dtype)
                except Exception as ex:       # noqa
                    r = ("err", type(ex).__name__, str(ex)[:160])
            stats["diag_evaluations"] += 1
            if not square:
                # documented: diagonal() is only implemented for square operators (explicit RuntimeError)
                if r[0] == "err" and UNSUP.search(r[2]):
                    stats["diag_unsupported"] += 1
                    continue
                fk = "nonsquare-no-error"
            else:
                fk = fail_kind(r, exp, dt)
                if fk == "unsupported" and e["cls"] == "Masked" and e["row_mask"]["data"] != e["col_mask"]["data"]:
                    stats["diag_unsupported"] += 1      # MaskedLinearOperator._diagonal: NotImplementedError for distinct masks
                    continue
            if fk is None:
                lits.append("DC %s %s" % (tlit_of(TD), otensor_lit(r)))
                meta.append((e, dbg, r))
                continue
            if fk == "unsupported":
                fk = "raise:" + r[1]
            stats["diag_direct_failures"] += 1
            ctx.violation({"kind": "diagonal-differs-from-dense", "layer": "L4", "expr": e, "debug": dbg,
                           "observed": obs_json(r), "expected": obs_json(exp) if exp else "explicit not-square error",
                           "describe": ob.describe(e)}, key=case_key(e, "diagonal", fk, op="diagonal", debug=dbg))
    stats["diag_family_instances"] = len(insts) - len(instances(ctx))
    # ---- diagonal() of composites produced by public operations
    from linear_operator import settings
    stats["diag_recipe_cases"] = 0
    rclasses = {}
    for rc in recipes(ctx):
        try:
            op = recipe_build(rc)
            D = recipe_dense(rc)
        except Exception:      # noqa  the public operation itself is not C03's business
            continue
        if torch.is_tensor(op) or not is_integral(D):
            continue
        D = rint(D)
        exp = ("ok", torch.diagonal(D, dim1=-2, dim2=-1))
        rclasses[type(op).__name__] = rclasses.get(type(op).__name__, 0) + 1
        for dbg in (True, False):
            with settings.debug(dbg):
                try:
                    r = op.diagonal()
                    r = ("ok", rint(r) if is_integral(r) else r.detach(), r.dtype)
                except Exception as ex:       # noqa
                    r = ("err", type(ex).__name__, str(ex)[:160])
            stats["diag_evaluations"] += 1
            stats["diag_recipe_cases"] += 1
            fk = fail_kind(r, exp)
            if fk is None:
                lits.append("DC %s %s" % (tlit_of(D), otensor_lit(r)))
                meta.append((rc, dbg, r))
                continue
            stats["diag_direct_failures"] += 1
            kids = ",".join(sorted({rc["a"]["cls"]} | ({rc["b"]["cls"]} if "b" in rc else set())))
            ctx.violation({"kind": "diagonal-differs-from-dense", "layer": "L4-recipe", "recipe": rc, "debug": dbg,
                           "result_class": type(op).__name__, "observed": obs_json(r), "expected": obs_json(exp),
                           "describe": "%s(%s)" % (rc["recipe"], kids)},
                          key={"op": "diagonal", "cls": "recipe:" + rc["recipe"], "kids": kids, "fail": fk, "debug": dbg,
                               "result_class": type(op).__name__,
                               "chol_upper": any(x.get("cls") == "Chol" and x.get("upper") for x in (rc["a"], rc.get("b", {}))),
                               "has_chol": any(x.get("cls") == "Chol" for x in (rc["a"], rc.get("b", {})))})
    stats["diag_recipe_result_classes"] = rclasses
    shards = [("diag_%d" % (i // SH), shard([], "diag_case", lits[i:i + SH], "bad_diag"), len(lits[i:i + SH]))
              for i in range(0, len(lits), SH)]
    bad = run_shards(ctx, "L4d", shards)
    for b in (bad or [])[:5]:
        e, dbg, r = meta[b]
        ctx.violation({"kind": "model-implementation-disagreement", "layer": "L4-diagonal", ("recipe" if "recipe" in e else "expr"): e, "debug": dbg,
                       "observed": obs_json(r), "correspondence": "coq/C03/Check.v diag_ok"}, no_input=True)
    stats["diag_coq_cases"] = len(lits)
    return stats


# ------------------------------------------------------------------------------------------ apply_permutation

def stage_perm(ctx, rng):
    """utils/permutation.apply_permutation (the library's own client of rank >= 2 broadcasting tensor indices in every
    position): Pi_left K Pi_right^T against an element-by-element definition on the dense matrix"""
    from linear_operator.utils.permutation import apply_permutation
    from linear_operator import settings
    stats = {"perm_evaluations": 0, "perm_direct_failures": 0}
    seen = set()
    for tag, e in instances(ctx):
        if ctx.quick and (e["cls"], len(ob.shape_of(e))) in seen:
            continue
        seen.add((e["cls"], len(ob.shape_of(e))))
        try:
            op = ob.build(e)
        except Exception:      # noqa
            continue
        ref = reference(op, e, {})
        if ref is None:
            continue
        TD, dt = ref
        bs, (m, n) = list(TD.shape[:-2]), TD.shape[-2:]
        for variant in range(2):
            def perm(size, batched):
                k = rng.randint(1, size)
                shp = (bs if batched else []) + [k]
                cnt = int(torch.tensor(shp[:-1]).prod()) if shp[:-1] else 1
                rows = []
                for _ in range(cnt):
                    p = list(range(size))
                    rng.shuffle(p)
                    rows += p[:k]
                return torch.tensor(rows, dtype=torch.long).reshape(shp)
            left = perm(m, variant == 1) if (variant == 1 or rng.random() < 0.8) else None
            right = perm(n, variant == 1 and rng.random() < 0.5) if (variant == 0 or rng.random() < 0.8) else None
            L = left if left is not None else torch.arange(m)
            R = right if right is not None else torch.arange(n)
            Lb = L.expand(*bs, L.shape[-1]) if bs else L
            Rb = R.expand(*bs, R.shape[-1]) if bs else R
            exp = torch.zeros(*bs, L.shape[-1], R.shape[-1], dtype=torch.float64)
            for bi in itertools.product(*[range(x) for x in bs]):
                for i in range(L.shape[-1]):
                    for j in range(R.shape[-1]):
                        exp[bi + (i, j)] = TD[bi + (int(Lb[bi + (i,)]), int(Rb[bi + (j,)]))]
            for dbg in (True, False):
                with settings.debug(dbg):
                    try:
                        r = apply_permutation(op, left, right)
                        r = ("ok", rint(r) if is_integral(r) else r.detach(), r.dtype)
                    except Exception as ex:      # noqa
                        r = ("err", type(ex).__name__, str(ex)[:160])
                stats["perm_evaluations"] += 1
                fk = fail_kind(r, ("ok", exp), dt)
                if fk is None:
                    continue
                if fk == "unsupported":
                    fk = "raise:" + r[1]
                stats["perm_direct_failures"] += 1
                ctx.violation({"kind": "apply-permutation-differs-from-dense", "layer": "L4", "expr": e, "debug": dbg,
                               "left": None if left is None else ob.from_torch(left), "right": None if right is None else ob.from_torch(right),
                               "observed": obs_json(r), "expected": obs_json(("ok", exp)), "describe": ob.describe(e)},
                              key=case_key(e, "apply_permutation", fk, op="apply_permutation", debug=dbg))
    return stats


# ------------------------------------------------------------------------------------------ run

def triage_l2(ctx, m):
    """A disagreement between a transcription of utils/getitem.py and the real function (layer L2) is triaged with the
    independent oracle: the same index is applied to a DenseLinearOperator through the real __getitem__ and compared
    with torch indexing of the dense tensor.  Returns True when a concrete failing input was reported."""
    items, shape = m.get("items"), m.get("shape")
    if not items or not shape or len(shape) < 2 or len(items) != len(shape):
        return False
    kinds = tuple(ix.classify(it, n) for it, n in zip(items, shape))
    if not ix.valid_kinds(kinds, len(shape)):
        return False               # outside the property's quantifier (a lone rank >= 2 tensor index)
    n = 1
    for x in shape:
        n *= x
    e = {"cls": "Dense", "t": {"shape": list(shape), "data": [(7 * i) % 23 - 11 for i in range(n)]}}
    op = ob.build(e)
    TD = rint(op.to_dense())
    idx = ix.to_py(items, False)
    exp = run_dense(TD, idx)
    if exp[0] != "ok" or exp[1].numel() == 0:
        return False               # torch rejects the index / an empty slice: outside the quantifier
    hit = False
    for dbg in (True, False):
        r = run_index(op, idx, dbg)
        fk = fail_kind(r, exp)
        if fk is None:
            continue
        if fk == "unsupported":
            fk = "raise:" + r[1]
        cell, _ = cell_of(items, shape)
        key = case_key(e, cell, fk, debug=dbg, attrs=path_attrs(e, items, shape))
        if ctx.violation({"kind": "getitem-differs-from-dense", "layer": "L2-triage", "expr": e, "index": items, "bare": False,
                          "debug": dbg, "shape": list(shape), "observed": obs_json(r), "expected": obs_json(exp),
                          "index_shown": ix.show(items, False), "describe": ob.describe(e),
                          "found_by": "model-implementation disagreement in %s" % m.get("fn")}, key=key):
            hit = True
    return hit


def search_on_failure_factory(ctx):
    def search(info):
        # a proof obligation about the hand-written model broke: the implementation is searched with the
        # whole generator at thorough width against the dense oracle
        rng = random.Random(ctx.seed)
        tier = ctx.tier
        ctx.tier = "thorough"
        try:
            before = ctx.violations
            stage_e2e(ctx, rng)
            return ctx.violations > before
        finally:
            ctx.tier = tier
    return search


def run(ctx):
    torch.set_num_threads(1)
    regenerate()
    tm = {}
    t0 = time.time()
    ok = common.proof_stage(ctx, search_on_failure_factory(ctx))
    tm["proof_stage"] = round(time.time() - t0, 1)
    rng = random.Random(ctx.seed)
    cov = {}
    if ok:
        t0 = time.time()
        cov.update(stage_spec(ctx, rng))
        tm["L1"] = round(time.time() - t0, 1)
        t0 = time.time()
        # L2 / L3: the transcriptions of the library code against the real functions
        jobs = lib.Jobs()
        lib.TRIAGE = triage_l2
        lst = [lib.stage_getitem_py(ctx, rng, jobs),
               lib.stage_front(ctx, rng, jobs, run_index, tlit_of, idx_lit, otensor_lit),
               lib.stage_classes(ctx, rng, jobs),
               xl.stage_x(ctx, random.Random(ctx.seed * 31 + 5), jobs, instances(ctx)),
               xl.stage_g(ctx, random.Random(ctx.seed * 31 + 6), jobs),
               big.stage_large(ctx, random.Random(ctx.seed * 31 + 7), jobs)]
        jobs.run(ctx)
        for d in lst:
            cov.update(d)
        tm["L2L3"] = round(time.time() - t0, 1)
    t0 = time.time()
    st, samples, cells = stage_e2e(ctx, rng)
    cov.update(st)
    tm["L4"] = round(time.time() - t0, 1)
    t0 = time.time()
    cov.update(stage_diag(ctx, rng))
    cov.update(stage_perm(ctx, rng))
    import sys
    cov.update(big.stage_alias(ctx, random.Random(ctx.seed * 31 + 8), instances(ctx), sys.modules[__name__]))
    cov.update(big.stage_probes(ctx))
    tm["diag"] = round(time.time() - t0, 1)
    cov["stage_seconds"] = tm
    import linear_operator
    cov["tree_under_test"] = os.path.dirname(os.path.dirname(os.path.abspath(linear_operator.__file__)))
    ctx.coverage.update(cov)
    ctx.coverage.update({
        "trusted_base": common.COQ_TRUSTED + [
            "torch primitives modelled by their mathematical meaning in coq/C03/Model.v (arange, expand/reshape/view as row-major "
            "re-interpretation, squeeze, broadcast_shapes, floor div, fmod, indexing of index tensors)",
            "the torch-index SPEC (coq/C03/Model.v torch_index) is validated against the running torch on every run (layer L1), not assumed",
            "correspondence harness harness/c03.py + harness/c03_idx.py (index generators, covering arrays, builders from harness/opbuild.py, "
            "comparators coq/C03/Check.v); dense oracle = op.to_dense() and opbuild.dense (plain torch)",
        ],
        "evaluations": cov.get("spec_cases", 0) + cov.get("e2e_evaluations", 0) + cov.get("diag_evaluations", 0),
        "distinct_nontrivial": len(cells),
        "rule": "distinct (operator class, structural index cell) pairs exercised end to end; a cell is the triple (row kind, column kind, "
                "set of batch kinds) of the index after ellipsis expansion, or one of the three named front-end cells; trivial = none "
                "(every cell indexes at least one dimension or is the bare full index)",
        "samples": samples,
    })
    ctx.assumptions = ["index tensors hold in-range non-negative entries (negative entries inside tensors are outside the property's quantifier)",
                       "slices select at least one element; steps are positive (torch rejects others)",
                       "KeOpsLinearOperator is not constructible here (pykeops absent)"]


def replay(rp):
    torch.set_num_threads(1)
    if rp.get("kind", "").startswith("aliased-index"):
        import sys
        return big.replay_alias(rp, sys.modules[__name__])
    if rp.get("kind", "").startswith("large-index"):
        return big.replay_large(rp)
    if rp.get("kind", "").startswith("probe"):
        return big.replay_probe(rp)
    if "recipe" in rp:
        from linear_operator import settings
        rc = rp["recipe"]
        op = recipe_build(rc)
        D = rint(recipe_dense(rc))
        with settings.debug(bool(rp.get("debug"))):
            try:
                r = op.diagonal()
                r = ("ok", rint(r) if is_integral(r) else r.detach(), r.dtype)
            except Exception as ex:      # noqa
                r = ("err", type(ex).__name__, str(ex)[:160])
        exp = ("ok", torch.diagonal(D, dim1=-2, dim2=-1))
        fk = fail_kind(r, exp)
        print("recipe:", rc["recipe"], ob.describe(rc["a"]), ob.describe(rc["b"]) if "b" in rc else "", "->", type(op).__name__)
        print("diagonal ->", obs_json(r), "expected", obs_json(exp))
        print("property failure: " + fk if fk else "property holds on this case")
        return 1 if fk else 0
    if "expr" not in rp:
        print("replay: nothing to re-run for kind", rp.get("kind"))
        print(json.dumps(rp, indent=1)[:2000])
        return 1
    e = rp["expr"]
    op = ob.build(e)
    TD = op.to_dense()
    dt = (TD.dtype, op.dtype)
    TD = rint(TD)
    if rp.get("kind", "").startswith("diagonal"):
        from linear_operator import settings
        with settings.debug(bool(rp.get("debug"))):
            try:
                r = op.diagonal()
                r = ("ok", rint(r) if is_integral(r) else r.detach(), r.dtype)
            except Exception as ex:      # noqa
                r = ("err", type(ex).__name__, str(ex)[:160])
        exp = ("ok", torch.diagonal(TD, dim1=-2, dim2=-1))
        fk = fail_kind(r, exp, dt)
        print("expr:", ob.describe(e), "diagonal ->", obs_json(r), "expected", obs_json(exp))
        print("property failure: " + fk if fk else "property holds on this case")
        return 1 if fk else 0
    if rp.get("kind", "").startswith("apply-permutation"):
        from linear_operator.utils.permutation import apply_permutation
        from linear_operator import settings
        left = None if rp.get("left") is None else ob.tt(rp["left"])
        right = None if rp.get("right") is None else ob.tt(rp["right"])
        with settings.debug(bool(rp.get("debug"))):
            try:
                r = apply_permutation(op, left, right)
                r = ("ok", rint(r) if is_integral(r) else r.detach(), r.dtype)
            except Exception as ex:      # noqa
                r = ("err", type(ex).__name__, str(ex)[:160])
        bidx = [torch.arange(b).view([b if i == j else 1 for j in range(TD.dim() - 2)] + [1, 1]) for i, b in enumerate(TD.shape[:-2])]
        L = left if left is not None else torch.arange(TD.shape[-2])
        R = right if right is not None else torch.arange(TD.shape[-1])
        exp = ("ok", TD[(*bidx, L.unsqueeze(-1), R.unsqueeze(-2))])
        fk = fail_kind(r, exp, dt)
        print("expr:", ob.describe(e), "apply_permutation ->", obs_json(r), "expected", obs_json(exp))
        print("property failure: " + fk if fk else "property holds on this case")
        return 1 if fk else 0
    items, bare = rp["index"], rp.get("bare", False)
    idx = ix.to_py(items, bare)
    exp = run_dense(TD, idx)
    r = run_index(op, idx, bool(rp.get("debug")))
    fk = fail_kind(r, exp, dt)
    if fk == "unsupported" and declared_unsupported(e, items, r):
        fk = None
    print("expr:", ob.describe(e), "shape", list(TD.shape), "index", ix.show(items, bare), "debug", rp.get("debug"))
    print("observed:", obs_json(r))
    print("expected:", obs_json(exp))
    print("property failure: " + fk if fk else "property holds on this case")
    return 1 if fk else 0
