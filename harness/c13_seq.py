"""C13 — operator-state snapshots over call sequences (dynamic layer; the source of concrete replays for
in-place writes into SHARED operator state: memoize caches, ad-hoc cache attributes, tensors already handed to the caller).

A sequence cell is  (class of the base operator K, derivation, query, warm/cold)  in one of the four memory layouts:

    [K.query]                 warm cells only: fills K's caches and hands result tensors to the "caller"
    D1 = K.derive(c1)         add_jitter / add_diagonal / + / * / [...] / expand / mT / cat_rows / add_low_rank / ...
    D1.query
    D2 = K.derive(c2)         a second operator sharing the base (and, for cold cells, the caches D1.query left in K)
    D2.query
    K.query                   the pre-existing operator queried after the derived ones

`Tracker` walks, before and after EVERY call, everything reachable from the operators that already exist (the base, its
sub-operators, operators passed as arguments, derived operators of earlier steps, operators returned or cached by earlier
steps) through `__dict__` (`_args`, `_kwargs`, `_memoize_cache`, ad-hoc cache attributes such as `_q_cache`, closures held
in caches) and everything RETURNED to the caller by earlier steps, and records for every tensor found: `_version`,
shape / stride / offset and a bitwise copy; for every operator: the dense matrix of a cache-free twin built from its
representation (so that taking the snapshot does not fill the operator's own caches).  A change of any recorded item
across a call is a violation (no step passes an out= buffer; detach_ / requires_grad_ are not part of the sequences); the
replay is the cell + the index of the offending call.
"""
import functools
import types
import warnings

import torch

from . import c13_ops, opbuild
from .c13_cases import HistoryHit, R, _iter


def _is_op(x):
    from linear_operator.operators import LinearOperator
    return isinstance(x, LinearOperator)


def _keyname(k):
    if isinstance(k, str):
        return k
    if isinstance(k, tuple) and k:
        k0 = k[0]
        nm = k0 if isinstance(k0, str) else getattr(k0, "__name__", type(k0).__name__)
        extra = ",".join(repr(a)[:12] for a in k[1]) if len(k) > 1 and isinstance(k[1], tuple) and k[1] else ""
        return nm + ("(%s)" % extra if extra else "")
    return getattr(k, "__name__", repr(k)[:20])


def walk(obj, path, out_t, out_ops, seen, depth=0):
    """every tensor / operator reachable from obj (operators: through all instance attributes, incl. caches)"""
    if obj is None or depth > 9 or isinstance(obj, (bool, int, float, str, bytes, torch.Size, torch.dtype, torch.device, slice)):
        return
    oid = id(obj)
    if isinstance(obj, torch.Tensor):
        if oid in seen:
            return
        seen.add(oid)
        out_t.append((path, obj))
        return
    if _is_op(obj):
        if oid in seen:
            return
        seen.add(oid)
        out_ops.append((path, obj))
        for k, v in list(vars(obj).items()):
            if k == "_memoize_cache" and isinstance(v, dict):
                for ck, cv in list(v.items()):
                    walk(cv, "%s.cache:%s" % (path, _keyname(ck)), out_t, out_ops, seen, depth + 1)
            else:
                walk(v, "%s.%s" % (path, k), out_t, out_ops, seen, depth + 1)
        return
    if isinstance(obj, (list, tuple)):
        if oid in seen:
            return
        seen.add(oid)
        for i, v in enumerate(obj):
            walk(v, "%s[%d]" % (path, i), out_t, out_ops, seen, depth + 1)
        return
    if isinstance(obj, dict):
        if oid in seen:
            return
        seen.add(oid)
        for k, v in list(obj.items()):
            walk(v, "%s[%s]" % (path, _keyname(k)), out_t, out_ops, seen, depth + 1)
        return
    if isinstance(obj, functools.partial):
        walk(obj.func, path + "<partial.func>", out_t, out_ops, seen, depth + 1)
        walk(obj.args, path + "<partial.args>", out_t, out_ops, seen, depth + 1)
        walk(obj.keywords, path + "<partial.kw>", out_t, out_ops, seen, depth + 1)
        return
    if isinstance(obj, types.MethodType):
        walk(obj.__self__, path + "<bound>", out_t, out_ops, seen, depth + 1)
        return
    if isinstance(obj, types.FunctionType):
        if oid in seen:
            return
        seen.add(oid)
        for nm, cell in zip(obj.__code__.co_freevars, obj.__closure__ or ()):
            try:
                walk(cell.cell_contents, "%s<closure:%s>" % (path, nm), out_t, out_ops, seen, depth + 1)
            except ValueError:
                pass
        return


class TW:
    """one recorded tensor"""
    __slots__ = ("name", "t", "v0", "meta0", "val0", "parts")

    def __init__(self, name, t):
        self.name, self.t = name, t
        if t.is_sparse:
            self.parts = [t._indices(), t._values()]
            self.v0 = [p._version for p in self.parts]
            self.meta0 = tuple(t.shape)
            self.val0 = [p.detach().clone() for p in self.parts]
        else:
            self.parts = None
            self.v0 = t._version
            self.meta0 = c13_ops.meta(t)
            self.val0 = t.detach().clone()

    def effects(self, fast=False):
        out = []
        try:
            t = self.t
            if self.parts is not None:
                if tuple(t.shape) != self.meta0:
                    out.append("meta")
                now = [t._indices(), t._values()]
                if any(a.shape != b.shape or not c13_ops.same_bytes(a.detach(), b) for a, b in zip(now, self.val0)):
                    out.append("values")
                if [p._version for p in self.parts] != self.v0:
                    out.append("version")
                return out
            if c13_ops.meta(t) != self.meta0:
                out.append("meta")
            elif not c13_ops.same_bytes(t.detach(), self.val0):
                out.append("values")
            if t._version != self.v0:
                out.append("version")
        except Exception as ex:
            out.append("broken:" + repr(ex)[:40])
        return out


def dense_of(op):
    """dense matrix an operator represents, from a cache-free twin sharing its tensors (the operator's caches stay as they are)"""
    try:
        with warnings.catch_warnings():
            warnings.simplefilter("ignore")
            tw = op.representation_tree()(*op.representation())
            return tw.to_dense().detach().to(torch.float64).clone()
    except Exception:
        return None


def fingerprint(op):
    """the non-tensor part of an operator's REPRESENTATION (class, number of args, flags / sizes / dtypes / python scalars in
    `_kwargs`): together with the recorded tensors it determines the matrix of the cache-free twin.  Other instance attributes are
    derived data (cache slots such as `_q_cache`, `_constant_diag`) that the library legitimately fills lazily."""
    return (type(op).__name__, len(getattr(op, "_args", ())), _fp(getattr(op, "_kwargs", None), 0))


def _fp(v, depth):
    if v is None or isinstance(v, (bool, int, float, str, torch.Size, torch.dtype, torch.device)):
        return repr(v)
    if isinstance(v, torch.Tensor) or _is_op(v):
        return ("obj", id(v))
    if isinstance(v, (list, tuple)) and depth < 4:
        return tuple(_fp(x, depth + 1) for x in v)
    if isinstance(v, dict) and depth < 4:
        return tuple((repr(k)[:30], _fp(x, depth + 1)) for k, x in v.items())
    return ("other", type(v).__name__)


class Tracker:
    def __init__(self):
        self.roots = []          # (name, object): operators / results that exist from the caller's point of view
        self.tw = {}             # id(tensor) -> TW
        self.ops = {}            # id(op) -> [name, op, dense0, fingerprint0]
        self.done = []           # descriptions of the calls made so far
        self.where = {"args": 0, "cache": 0, "returned": 0, "attr": 0}

    def add_root(self, obj, name):
        self.roots.append((name, obj))

    def refresh(self):
        """record what exists now and is not recorded yet (new cache entries, new results, new operators)"""
        seen, out_t, out_ops = set(), [], []
        for name, obj in self.roots:
            walk(obj, name, out_t, out_ops, seen)
        for path, t in out_t:
            if id(t) not in self.tw:
                try:
                    self.tw[id(t)] = TW(path, t)
                except Exception:
                    continue
                k = "cache" if ".cache:" in path else ("returned" if path.startswith("ret") else ("args" if "_args" in path or "_kwargs" in path else "attr"))
                self.where[k] += 1
        for path, op in out_ops:
            if id(op) not in self.ops:
                self.ops[id(op)] = [path, op, dense_of(op), fingerprint(op)]

    @staticmethod
    def _primary(path):
        """operators the caller holds directly (base, derived, argument operators and their sub-operators): their dense matrix is
        compared after EVERY call; operators living in caches / results: after every call their tensors and flags, at the end also
        the dense matrix"""
        return ".cache:" not in path and not path.startswith("ret")

    def effects(self, final=False):
        hits = []
        for w in self.tw.values():
            e = w.effects()
            if e:
                hits.append({"arg": w.name, "effects": e})
        for name, op, d0, f0 in self.ops.values():
            try:
                f1 = fingerprint(op)
            except Exception:
                f1 = None
            if f1 != f0:
                hits.append({"arg": name, "effects": ["operator-representation-changed"]})
            if d0 is None or not (final or self._primary(name)):
                continue
            d1 = dense_of(op)
            if d1 is None:
                hits.append({"arg": name, "effects": ["operator-broken"]})
            elif d1.shape != d0.shape or not c13_ops.same_bytes(d1, d0):
                hits.append({"arg": name, "effects": ["operator-matrix"]})
        return hits

    def changed(self):
        """cheap test for the line tracer: any recorded tensor changed"""
        for w in self.tw.values():
            if w.effects():
                return True
        return False


# ------------------------------------------------------------------------------------------------ derivations and queries

def _bt(ar, rng, shp, rows, cols, name, **kw):
    b = tuple(shp[:-2])
    tail = (rows,) if cols is None else (rows, cols)
    if ar.layout == "expanded" and b and b[0] == 2:
        return ar.t(R(rng, *b[1:], *tail, **kw), name, expand="batch")
    return ar.t(R(rng, *b, *tail, **kw), name, expand="last" if cols is not None else "none")


def _spd_t(rng, shp):
    n = shp[-1]
    B = R(rng, *shp[:-2], n, n)
    return B @ B.mT + n * torch.eye(n, dtype=torch.float64)


def derivations():
    """name -> f(K, ar, rng, i) -> derived operator (i = 1, 2: the two derived operators use different constants)"""
    D = {}
    D["none"] = lambda K, ar, rng, i: K
    D["add_jitter"] = lambda K, ar, rng, i: K.add_jitter(0.5 / i)
    D["add_diagonal_scalar"] = lambda K, ar, rng, i: K.add_diagonal(ar.t(torch.tensor(0.5 / i, dtype=torch.float64), "diag%d" % i, expand="none"))
    D["add_diagonal_1"] = lambda K, ar, rng, i: K.add_diagonal(ar.t(torch.tensor([0.5 / i], dtype=torch.float64), "diag%d" % i, expand="none"))
    D["add_diagonal_vector"] = lambda K, ar, rng, i: K.add_diagonal(_bt(ar, rng, K.shape, K.shape[-1], None, "diag%d" % i, lo=0.5, hi=1.5))
    D["add_tensor"] = lambda K, ar, rng, i: K + ar.t(_spd_t(rng, tuple(K.shape)), "other%d" % i, expand="batch")
    D["add_diag_operator"] = lambda K, ar, rng, i: K + ar.op({"cls": "Diag", "d": opbuild.rand_t(rng, [K.shape[-1]], 1, 3)}, "other_op%d" % i)
    D["add_root_operator"] = lambda K, ar, rng, i: K + ar.op(opbuild.gen(rng, "Root", batch=[], m=K.shape[-1], psd=True), "other_op%d" % i)
    D["mul_const"] = lambda K, ar, rng, i: K * (1.0 + i)
    D["mul_tensor_const"] = lambda K, ar, rng, i: K * ar.t(torch.tensor(1.0 + i, dtype=torch.float64), "constant%d" % i, expand="none")
    D["getitem_slice"] = lambda K, ar, rng, i: K[..., 1:, 1:]
    D["getitem_full"] = lambda K, ar, rng, i: K[..., :, :]
    D["expand"] = lambda K, ar, rng, i: K.expand(2, *K.shape) if len(K.shape) == 2 else K.expand(*K.shape)
    D["mT"] = lambda K, ar, rng, i: K.mT
    D["cat_rows"] = lambda K, ar, rng, i: K.cat_rows(_bt(ar, rng, K.shape, 1, K.shape[-1], "cross_mat%d" % i, lo=-0.5, hi=0.5),
                                                      _bt(ar, rng, K.shape, 1, 1, "new_mat%d" % i, lo=4.0 * K.shape[-1] + 5, hi=4.0 * K.shape[-1] + 6))
    D["add_low_rank"] = lambda K, ar, rng, i: K.add_low_rank(_bt(ar, rng, K.shape, K.shape[-2], 2, "low_rank_mat%d" % i))
    D["twin"] = lambda K, ar, rng, i: K.representation_tree()(*K.representation())
    D["detach"] = lambda K, ar, rng, i: K.detach()
    return D


def queries():
    """name -> f(X, ar, rng, tag) -> result handed to the caller"""
    Q = {}
    rhs = lambda X, ar, rng, tag, k=2: _bt(ar, rng, X.shape, X.shape[-1], k, "rhs_" + tag)
    Q["svd"] = lambda X, ar, rng, tag: X.svd()
    Q["eigh"] = lambda X, ar, rng, tag: X.eigh()
    Q["eigvalsh"] = lambda X, ar, rng, tag: X.eigvalsh()
    Q["symeig_lazy"] = lambda X, ar, rng, tag: X._symeig(eigenvectors=True, return_evals_as_lazy=True)
    Q["cholesky"] = lambda X, ar, rng, tag: X.cholesky()
    Q["cholesky_upper"] = lambda X, ar, rng, tag: X.cholesky(upper=True)
    for m in (None, "cholesky", "lanczos", "symeig", "pivoted_cholesky", "diagonalization", "svd"):
        Q["root_decomposition" + ("" if m is None else "_" + m)] = (
            lambda X, ar, rng, tag, m=m: _iter(lambda: X.root_decomposition(method=m)) if m in ("lanczos", "pivoted_cholesky") else X.root_decomposition(method=m))
    for m in (None, "cholesky", "lanczos", "symeig"):
        Q["root_inv_decomposition" + ("" if m is None else "_" + m)] = (
            lambda X, ar, rng, tag, m=m: _iter(lambda: X.root_inv_decomposition(method=m)) if m == "lanczos" else X.root_inv_decomposition(method=m))
    Q["root_inv_decomposition_lanczos_vectors"] = lambda X, ar, rng, tag: _iter(lambda: X.root_inv_decomposition(
        initial_vectors=_bt(ar, rng, X.shape, X.shape[-1], 1, "initial_vectors_" + tag), test_vectors=_bt(ar, rng, X.shape, X.shape[-1], 2, "test_vectors_" + tag),
        method="lanczos"))
    for m in (None, "lanczos", "symeig"):
        Q["diagonalization" + ("" if m is None else "_" + m)] = (
            lambda X, ar, rng, tag, m=m: _iter(lambda: X.diagonalization(method=m)) if m == "lanczos" else X.diagonalization(method=m))
    Q["solve"] = lambda X, ar, rng, tag: X.solve(rhs(X, ar, rng, tag))
    Q["solve_iterative"] = lambda X, ar, rng, tag: _iter(lambda: X.solve(rhs(X, ar, rng, tag)))
    Q["inv_quad_logdet"] = lambda X, ar, rng, tag: X.inv_quad_logdet(rhs(X, ar, rng, tag), logdet=True)
    Q["inv_quad_logdet_iterative"] = lambda X, ar, rng, tag: _iter(lambda: X.inv_quad_logdet(rhs(X, ar, rng, tag), logdet=True))
    Q["inv_quad"] = lambda X, ar, rng, tag: X.inv_quad(rhs(X, ar, rng, tag))
    Q["logdet"] = lambda X, ar, rng, tag: X.logdet()
    Q["logdet_iterative"] = lambda X, ar, rng, tag: _iter(lambda: X.logdet())
    Q["diagonal"] = lambda X, ar, rng, tag: X.diagonal()
    Q["sample"] = lambda X, ar, rng, tag: X.zero_mean_mvn_samples(2)
    Q["sample_iterative"] = lambda X, ar, rng, tag: _iter(lambda: X.zero_mean_mvn_samples(2))
    Q["pivoted_cholesky"] = lambda X, ar, rng, tag: X.pivoted_cholesky(rank=2)
    Q["to_dense"] = lambda X, ar, rng, tag: X.to_dense()
    Q["matmul"] = lambda X, ar, rng, tag: X.matmul(rhs(X, ar, rng, tag))
    Q["matmul_vec"] = lambda X, ar, rng, tag: X @ (_bt(ar, rng, X.shape, X.shape[-1], None, "rhs_" + tag) if len(X.shape) == 2 else rhs(X, ar, rng, tag, 1))
    Q["t_matmul"] = lambda X, ar, rng, tag: X.mT @ rhs(X, ar, rng, tag)
    Q["rmatmul"] = lambda X, ar, rng, tag: _bt(ar, rng, X.shape, 2, X.shape[-2], "lhs_" + tag) @ X
    Q["sqrt_inv_matmul"] = lambda X, ar, rng, tag: X.sqrt_inv_matmul(rhs(X, ar, rng, tag))
    Q["sum_batch"] = lambda X, ar, rng, tag: (X.sum(0).to_dense() if _is_op(X.sum(0)) else X.sum(0)) if len(X.shape) > 2 else X.sum(-1)
    Q["prod_batch"] = lambda X, ar, rng, tag: (X.prod(0).to_dense() if len(X.shape) > 2 else X.sum(-2))
    Q["solve_eye"] = lambda X, ar, rng, tag: X.solve(torch.eye(X.shape[-1], dtype=X.dtype))
    return Q


# bases whose `_matmul` is a PASS-THROUGH (returns its argument or a view of it): results of the operator protocol closures may
# alias the caller's rhs; an in-place update of such a result inside a wrapper class writes the caller's tensor
_I = lambda n: {"cls": "Identity", "n": n, "batch": []}
PASS_EXPR = {
    "RootI": lambda rng, n: {"cls": "Root", "root": _I(n)},
    "MatmulII": lambda rng, n: {"cls": "Matmul", "l": _I(n), "r": _I(n)},
    "AddedDiagMatmulII": lambda rng, n: {"cls": "AddedDiag", "base": {"cls": "Matmul", "l": _I(n), "r": _I(n)}, "diag": {"cls": "Diag", "d": opbuild.rand_t(rng, [n], 1, 3)}},
    "AddedDiagRootI": lambda rng, n: {"cls": "AddedDiag", "base": {"cls": "Root", "root": _I(n)}, "diag": {"cls": "ConstantDiag", "c": opbuild.rand_t(rng, [1], 1, 3), "n": n}},
}
PASS_DERIVS = ["none", "add_jitter", "add_diagonal_scalar", "add_diagonal_vector", "add_diag_operator", "add_tensor", "mul_const", "expand",
               "getitem_full", "mT", "add_low_rank", "twin"]
PASS_QUERIES = ["matmul", "matmul_vec", "t_matmul", "rmatmul", "solve", "solve_iterative", "inv_quad_logdet_iterative", "logdet_iterative",
                "sample_iterative", "sqrt_inv_matmul", "root_decomposition_lanczos", "diagonalization_lanczos",
                "root_inv_decomposition_lanczos_vectors", "to_dense"]

DERIVS = list(derivations())
QUERIES = list(queries())
CLASSES = list(opbuild.PSD_CAPABLE)
BATCHED = {"sum_batch", "prod_batch"}


def make_case(cls, dname, qname, warm, batch=None):
    D, Q = derivations()[dname], queries()[qname]

    def b(ar, rng):
        bs = batch if batch is not None else ([2] if (qname in BATCHED and dname != "expand") else [])
        e = PASS_EXPR[cls](rng, 4) if cls in PASS_EXPR else opbuild.gen(rng, cls, batch=list(bs), m=4, psd=True)
        # built without registering in ar.ops: Arena.effects() would call K.to_dense() after every step and thereby fill K's caches;
        # the tracker compares the dense matrix of a cache-free twin instead, and K.to_dense() itself is compared at the very end
        K = ar._build(e, "K", torch.float64, False)
        try:
            with warnings.catch_warnings():
                warnings.simplefilter("ignore")
                ind = type(ar)(ar.layout, watch=False)._build(e, "K", torch.float64, False).to_dense().detach().to(torch.float64).clone()
        except Exception:
            ind = None
        tr = Tracker()
        ar.seq = tr
        tr.add_root(K, "K")
        steps = []
        slot = {}
        if warm:
            steps.append(("K.%s" % qname, lambda: Q(K, ar, rng, "w")))
        steps.append(("D1=K.%s" % dname, lambda: slot.__setitem__("D1", D(K, ar, rng, 1)) or slot["D1"]))
        steps.append(("D1.%s" % qname, lambda: Q(slot["D1"], ar, rng, "1") if "D1" in slot else None))
        steps.append(("D2=K.%s" % dname, lambda: slot.__setitem__("D2", D(K, ar, rng, 2)) or slot["D2"]))
        steps.append(("D2.%s" % qname, lambda: Q(slot["D2"], ar, rng, "2") if "D2" in slot else None))
        steps.append(("K.%s" % qname, lambda: Q(K, ar, rng, "k")))
        ar.seq_steps = [s[0] for s in steps]

        def go():
            tr.refresh()
            errs = 0
            for i, (desc, f) in enumerate(steps):
                r = None
                try:
                    r = f()
                except HistoryHit:
                    raise
                except Exception as ex:
                    errs += 1
                    tr.done.append(desc + " !" + type(ex).__name__)
                else:
                    tr.done.append(desc)
                h = ar.effects()
                if h:
                    for x in h:
                        x["step"] = i
                        x["call"] = desc
                    ar.seq_hit = (i, desc)
                    raise HistoryHit(i, desc, h)
                if r is not None:
                    tr.add_root(r, "ret%d" % i)
                tr.refresh()
            ar.seq_errors = errs
            hf = tr.effects(final=True)
            if hf:
                ar.seq_final = True
                raise HistoryHit(len(steps), "end of sequence (dense matrices of cached / returned operators)", hf)
            if ind is not None:
                d1 = K.to_dense().detach().to(torch.float64)
                if d1.shape != ind.shape or not c13_ops.same_bytes(d1, ind):
                    ar.ops.append(("K", K, ind))         # reported by Arena.effects()
                    raise HistoryHit(len(steps), "K.to_dense() at the end", [{"arg": "K", "effects": ["operator-matrix"]}])
            if errs == len(steps):
                raise RuntimeError("every step of the sequence raised")
        return go
    return ("seq.%s" % cls, "%s>%s/%s%s" % (dname, qname, "warm" if warm else "cold", "" if batch is None else "/b%s" % "x".join(map(str, batch))), b)


def all_cases():
    """every (class, derivation, query, warm) cell (replay looks cells up here)"""
    out = []
    for cls in CLASSES:
        for d in DERIVS:
            for q in QUERIES:
                for warm in (False, True):
                    out.append(make_case(cls, d, q, warm))
    return out


CORE = ["Dense"]        # classes for which the quick tier runs EVERY (derivation, query) pair


def grid_cells(seed, thorough, layouts):
    """[(case, layout)].  quick: every (derivation, query) pair on the CORE class plus one twelfth of the remaining (class, derivation,
    query) triples (diagonal sampling: every (class, query) and every (derivation, query) pair occurs), layout and warm/cold rotating;
    thorough: every triple (CORE: warm and cold; others alternating), layout rotating over consecutive classes."""
    cells = []
    idx = 0
    for ci, cls in enumerate(CLASSES):
        for di, d in enumerate(DERIVS):
            for qi, q in enumerate(QUERIES):
                if thorough:
                    # CORE classes warm and cold, the others alternating (every (derivation, query) pair meets both and, over the
                    # consecutive classes, all four layouts)
                    for warm in ((False, True) if cls in CORE else (bool((ci + di + qi + seed) % 2),)):
                        cells.append((make_case(cls, d, q, warm), layouts[(ci + di + qi + seed + warm) % 4]))
                else:
                    if cls not in CORE and (ci + 5 * di + qi + seed) % 12 != 0:
                        continue
                    idx += 1
                    warm = bool((idx // 4 + seed) % 2)
                    cells.append((make_case(cls, d, q, warm), layouts[(idx + seed) % 4]))
    # pass-through bases: every (derivation, query) pair of the subsets above; quick: warm/cold and layout rotating, thorough: both, rotating
    for ci, cls in enumerate(PASS_EXPR):
        for di, d in enumerate(PASS_DERIVS):
            for qi, q in enumerate(PASS_QUERIES):
                for warm in ((False, True) if thorough else (bool((ci + di + qi + seed) % 2),)):
                    cells.append((make_case(cls, d, q, warm), layouts[(ci + 2 * di + qi + seed + warm) % 4]))
    return cells


def find_case(entry, variant):
    """the cell named by a replay file"""
    cls = entry[len("seq."):]
    try:
        dq, rest = variant.split("/", 1)
        d, q = dq.split(">")
        return make_case(cls, d, q, rest.startswith("warm"))
    except Exception:
        return None


def run_cells(cells, seed, deadline=None):
    """-> (rows, stats); rows: one dict per cell with status / hits (only JSON-able data: the worker protocol)"""
    from . import c13_dyn
    import collections
    rows = []
    st = collections.Counter()
    import time
    for case, lay in cells:
        if deadline is not None and time.time() > deadline:
            st["not-run (time budget)"] += 1
            continue
        r = c13_dyn.run_case(case, lay, seed)
        rows.append({"entry": case[0], "variant": case[1], "layout": lay, "status": r["status"], "error": r.get("error"), "hits": r["hits"],
                     "degenerate": r["degenerate"], "seq": r.get("seq")})
        st[r["status"]] += 1
    return rows, dict(st)


if __name__ == "__main__":
    # worker: python -m harness.c13_seq <seed> <thorough 0/1> <part> <nparts> <out.json>
    import json
    import sys
    torch.set_num_threads(1)
    from . import c13_dyn
    seed, thorough, part, nparts, out = int(sys.argv[1]), sys.argv[2] == "1", int(sys.argv[3]), int(sys.argv[4]), sys.argv[5]
    import time
    budget = int(sys.argv[6]) if len(sys.argv) > 6 else 0
    toks = [t for t in (sys.argv[7].split(",") if len(sys.argv) > 7 else []) if t]
    cells = grid_cells(seed, thorough, c13_dyn.LAYOUTS)[part::nparts]
    if toks:        # widened, time-boxed search: cells that mention the class / function of an open static site first
        cells.sort(key=lambda c: 0 if any(t in c[0][0] for t in toks) else 1)
    rows, st = run_cells(cells, seed, deadline=(time.time() + budget) if budget else None)
    json.dump({"rows": rows, "stat": st}, open(out, "w"))
