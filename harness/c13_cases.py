"""C13 — the entry points exercised by the dynamic search (harness/c13_dyn.py).

utility_cases()          : anchored utilities (linear_cg, minres, lanczos, cholesky, qr, toeplitz, sparse, interpolation,
                           permutation, contour integral quadrature, linear_operator.functions.*) in several variants each
operator_cases(quick)    : operator classes x public methods (to_dense, matmul, solve, logdet, getitem, add_diagonal, ...)
history_cases()          : sequences of operations on operators that SHARE caller tensors (caches warm)
Each case is (entry, variant, builder) with builder(ar, rng) -> thunk.
"""
import random

import torch

from . import opbuild


_DT = [torch.float64]       # dtype of the tensors made by R (set per case by operator_cases)


def R(rng, *shape, lo=-2.0, hi=2.0, dtype=None):
    dtype = dtype or _DT[0]
    n = 1
    for s in shape:
        n *= s
    return torch.tensor([rng.uniform(lo, hi) for _ in range(n)], dtype=dtype).reshape(*shape)


def spd(rng, n, batch=(), dtype=torch.float64, shift=None):
    B = R(rng, *batch, n, n, dtype=dtype)
    return B @ B.mT + (n if shift is None else shift) * torch.eye(n, dtype=dtype)


# ------------------------------------------------------------------------------------------------
# utilities

def _closure(kind, A):
    """closure-aliasing modes of DESIGN.md: fresh / returns its argument / a view of it / expanded"""
    if kind == "fresh":
        return lambda v: A @ v
    if kind == "arg":
        return lambda v: v
    if kind == "view":
        return lambda v: v.view(v.shape)
    if kind == "expanded":
        return lambda v: (A @ v)[..., :1].expand(*torch.broadcast_shapes(A.shape[:-2], v.shape[:-2]), v.shape[-2], v.shape[-1])
    raise ValueError(kind)


def utility_cases():
    import linear_operator
    from linear_operator import settings
    from linear_operator.utils import cholesky as uchol, interpolation as uint, lanczos as ulan, permutation as uperm, qr as uqr, \
        sparse as usp, toeplitz as utoe
    from linear_operator.utils.contour_integral_quad import contour_integral_quad
    from linear_operator.utils.linear_cg import linear_cg
    from linear_operator.utils.minres import minres
    from linear_operator.utils.pinverse import stable_pinverse
    from linear_operator.utils.broadcasting import _pad_with_singletons
    import linear_operator.operators as O
    C = []

    def add(entry, variant, b):
        C.append((entry, variant, b))

    # ---- linear_cg
    for ck in ("fresh", "arg", "view", "expanded"):
        for var in ("plain", "precond", "guess", "tridiag", "vec", "batchrhs", "precond-arg", "tol0"):
            def b(ar, rng, ck=ck, var=var):
                n = 5
                A = ar.t(spd(rng, n), "A", expand="batch")
                rhs = ar.t(R(rng, n) if var == "vec" else (R(rng, 2, n, 2) if var == "batchrhs" else R(rng, n, 3)), "rhs")
                kw = {}
                if var == "precond":
                    d = ar.t(R(rng, n, 1, lo=0.5, hi=2.0), "precond_diag", expand="none")
                    kw["preconditioner"] = lambda v: v / d
                if var == "precond-arg":
                    kw["preconditioner"] = lambda v: v
                if var == "guess":
                    kw["initial_guess"] = ar.t(R(rng, n, 3), "initial_guess")
                if var == "tridiag":
                    kw.update(n_tridiag=2, max_tridiag_iter=4)
                if var == "tol0":
                    kw.update(tolerance=0.0, max_iter=12, max_tridiag_iter=5)
                mm = _closure(ck, A)
                return lambda: linear_cg(mm, rhs, **kw)
            add("linear_cg", "%s/%s" % (ck, var), b)
    # ---- minres
    for ck in ("fresh", "arg", "view"):
        for var in ("plain", "shifts", "value", "precond", "vec"):
            def b(ar, rng, ck=ck, var=var):
                n = 5
                A = ar.t(spd(rng, n), "A", expand="batch")
                rhs = ar.t(R(rng, n) if var == "vec" else R(rng, n, 2), "rhs")
                kw = {}
                if var == "shifts":
                    kw["shifts"] = ar.t(torch.tensor([0.0, 0.5, 1.0], dtype=torch.float64), "shifts", expand="none")
                if var == "value":
                    kw["value"] = 2.0
                if var == "precond":
                    d = ar.t(R(rng, n, 1, lo=0.5, hi=2.0), "precond_diag", expand="none")
                    kw["preconditioner"] = lambda v: v / d
                mm = _closure(ck, A)
                return lambda: minres(mm, rhs, max_iter=8, **kw)
            add("minres", "%s/%s" % (ck, var), b)
    # ---- lanczos
    for ck in ("fresh", "arg", "view"):
        for var in ("init", "noinit", "batch"):
            def b(ar, rng, ck=ck, var=var):
                n = 6
                bs = (2,) if var == "batch" else ()
                A = ar.t(spd(rng, n, bs), "A", expand="none" if var == "batch" else "batch")
                init = None if var == "noinit" else ar.t(R(rng, *bs, n, 2), "init_vecs", expand="last" if var == "batch" else "batch")
                mm = _closure(ck, A)

                def go():
                    bshape = torch.broadcast_shapes(A.shape[:-2], init.shape[:-2]) if init is not None else A.shape[:-2]
                    q, t = ulan.lanczos_tridiag(mm, 4, dtype=torch.float64, device=torch.device("cpu"), matrix_shape=torch.Size((n, n)),
                                                batch_shape=bshape, init_vecs=init, num_init_vecs=2)
                    return ulan.lanczos_tridiag_to_diag(t)
                return go
            add("lanczos_tridiag", "%s/%s" % (ck, var), b)

    def b(ar, rng):
        t = spd(rng, 4)
        t = torch.diag_embed(t.diagonal()) + torch.diag_embed(t.diagonal(1), 1) + torch.diag_embed(t.diagonal(1), -1)
        tm = ar.t(t, "t_mat", expand="batch")
        return lambda: ulan.lanczos_tridiag_to_diag(tm)
    add("lanczos_tridiag_to_diag", "plain", b)
    # ---- cholesky
    for var in ("pd", "jitter", "upper", "batch-one-bad", "out", "tries1"):
        def b(ar, rng, var=var):
            n = 4
            if var in ("jitter", "tries1"):
                v = R(rng, n, 1)
                Am = v @ v.mT                       # singular PSD: needs jitter
            elif var == "batch-one-bad":
                v = R(rng, n, 1)
                Am = torch.stack([spd(rng, n), v @ v.mT])
            else:
                Am = spd(rng, n)
            A = ar.t(Am, "A", expand="batch" if var != "batch-one-bad" else "none")
            kw = {}
            if var == "upper":
                kw["upper"] = True
            if var == "tries1":
                kw["max_tries"] = 1
            if var == "out":
                kw["out"] = torch.empty_like(A.contiguous())   # explicit out= buffer: excluded by the property, not watched
            return lambda: uchol.psd_safe_cholesky(A, **kw)
        add("psd_safe_cholesky", var, b)
    # ---- qr / pinverse
    for var in ("tall", "wide", "rankdef", "batch"):
        def b(ar, rng, var=var):
            m = {"tall": R(rng, 5, 3), "wide": R(rng, 3, 5), "batch": R(rng, 2, 4, 3)}.get(var)
            if var == "rankdef":
                m = R(rng, 5, 1) @ R(rng, 1, 3)
            M = ar.t(m, "mat", expand="batch")
            return lambda: uqr.stable_qr(M)
        add("stable_qr", var, b)

        def b2(ar, rng, var=var):
            m = {"tall": R(rng, 5, 3), "wide": R(rng, 3, 5), "batch": R(rng, 2, 4, 3)}.get(var)
            if var == "rankdef":
                m = R(rng, 5, 1) @ R(rng, 1, 3)
            M = ar.t(m, "A", expand="batch")
            return lambda: stable_pinverse(M)
        add("stable_pinverse", var, b2)
    # ---- toeplitz
    def b(ar, rng):
        c = ar.t(R(rng, 5), "toeplitz_column", expand="none")
        r = R(rng, 5)
        r[0] = c[0]
        r = ar.t(r, "toeplitz_row", expand="none")
        return lambda: utoe.toeplitz(c, r)
    add("toeplitz", "plain", b)

    def b(ar, rng):
        c = ar.t(R(rng, 5), "toeplitz_column")
        return lambda: (utoe.sym_toeplitz(c), utoe.sym_toeplitz_getitem(c, 1, 3), utoe.toeplitz_getitem(c, c, 3, 1))
    add("sym_toeplitz", "plain", b)
    for var in ("mat", "batch", "vec"):
        def b(ar, rng, var=var):
            bs = (2,) if var == "batch" else ()
            c = R(rng, *bs, 5)
            r = R(rng, *bs, 5)
            r[..., 0] = c[..., 0]
            c = ar.t(c, "toeplitz_column", expand="none" if var != "mat" else "batch")
            r = ar.t(r, "toeplitz_row", expand="none" if var != "mat" else "batch")
            M = ar.t(R(rng, 5) if var == "vec" else R(rng, *bs, 5, 2), "tensor")
            return lambda: utoe.toeplitz_matmul(c, r, M)
        add("toeplitz_matmul", var, b)

        def b(ar, rng, var=var):
            bs = (2,) if var == "batch" else ()
            c = ar.t(R(rng, *bs, 5), "toeplitz_column", expand="none" if var != "mat" else "batch")
            M = ar.t(R(rng, 5) if var == "vec" else R(rng, *bs, 5, 2), "tensor")
            return lambda: utoe.sym_toeplitz_matmul(c, M)
        add("sym_toeplitz_matmul", var, b)

    def b(ar, rng):
        L = ar.t(R(rng, 2, 5), "left_vectors")
        Rr = ar.t(R(rng, 2, 5), "right_vectors")
        return lambda: utoe.sym_toeplitz_derivative_quadratic_form(L, Rr)
    add("sym_toeplitz_derivative_quadratic_form", "plain", b)
    # ---- sparse
    for var in ("nonzero", "allzero", "batch", "batch-allzero", "somezero"):
        def b(ar, rng, var=var):
            bs = (2,) if var.startswith("batch") else ()
            idx = torch.tensor([rng.randrange(5) for _ in range(6 * (2 if bs else 1))]).reshape(*bs, 3, 2)
            val = R(rng, *bs, 3, 2, lo=0.5, hi=2.0)
            if var.endswith("allzero"):
                val = torch.zeros_like(val)
            if var == "somezero":
                val[0, 0] = 0.0
            i = ar.t(idx, "interp_indices", expand="none")
            v = ar.t(val, "interp_values", expand="last" if var.endswith("allzero") else "none")
            return lambda: usp.make_sparse_from_indices_and_values(i, v, 5)
        add("make_sparse_from_indices_and_values", var, b)
    for var in ("int-nomatch", "int-match", "slice-nomatch", "slice-match", "2idx-nomatch", "2idx-match", "scalar"):
        for coal in (False, True):
            def b(ar, rng, var=var, coal=coal):
                i = torch.tensor([[1, 1, 3], [2, 3, 1]])
                v = R(rng, 3, lo=0.5, hi=2.0)
                sp = ar.sparse(i, v, (4, 4), "sparse", coalesce=coal)
                idx = {"int-nomatch": (0,), "int-match": (1,), "slice-nomatch": (slice(0, 1),), "slice-match": (slice(1, 4),),
                       "2idx-nomatch": (slice(None), 0), "2idx-match": (slice(None), 2), "scalar": (1, 2)}[var]
                return lambda: usp.sparse_getitem(sp, idx)
            add("sparse_getitem", "%s/%s" % (var, "coalesced" if coal else "uncoalesced"), b)
    for var in ("2d", "3d-bcast", "dense3d"):
        def b(ar, rng, var=var):
            if var == "3d-bcast":
                i = torch.tensor([[0, 0, 1], [0, 2, 1], [1, 0, 2]])
                sp = ar.sparse(i, R(rng, 3), (2, 3, 3), "sparse")
                d = ar.t(R(rng, 2, 3, 2), "dense")
            else:
                i = torch.tensor([[0, 2, 1], [1, 0, 2]])
                sp = ar.sparse(i, R(rng, 3), (3, 3), "sparse")
                d = ar.t(R(rng, 2, 3, 2) if var == "dense3d" else R(rng, 3, 2), "dense")
            return lambda: usp.bdsmm(sp, d)
        add("bdsmm", var, b)

    def b(ar, rng):
        i = torch.tensor([[0, 2, 1], [1, 0, 2]])
        sp = ar.sparse(i, R(rng, 3), (3, 3), "sparse")
        return lambda: (usp.sparse_repeat(sp, 2, 1), usp.sparse_repeat(sp, 1, 2), usp.sparse_repeat(sp, 2, 1, 1))
    add("sparse_repeat", "plain", b)
    for var in ("nonzero", "allzero"):
        def b(ar, rng, var=var):
            d = R(rng, 3, 4) if var == "nonzero" else torch.zeros(3, 4, dtype=torch.float64)
            if var == "nonzero":
                d[0, 0] = 0.0
            D = ar.t(d, "dense")
            return lambda: usp.to_sparse(D)
        add("to_sparse", var, b)
    add("sparse_eye", "plain", lambda ar, rng: (lambda: usp.sparse_eye(4)))

    def b(ar, rng):
        i = torch.tensor([[0, 2, 1], [1, 0, 2]])
        sp = ar.sparse(i, R(rng, 3), (3, 3), "sparse")
        d = ar.t(R(rng, 3, 2), "dense")
        return lambda: linear_operator.dsmm(sp, d)
    add("dsmm", "plain", b)
    # ---- interpolation
    for var in ("vec", "mat", "batch"):
        def b(ar, rng, var=var):
            bs = (2,) if var == "batch" else ()
            idx = torch.tensor([rng.randrange(5) for _ in range(8 * (2 if bs else 1))]).reshape(*bs, 4, 2)
            i = ar.t(idx, "interp_indices", expand="none")
            v = ar.t(R(rng, *bs, 4, 2), "interp_values", expand="none")
            rhs = ar.t(R(rng, 5) if var == "vec" else R(rng, *bs, 5, 2), "rhs")
            return lambda: uint.left_interp(i, v, rhs)
        add("left_interp", var, b)

        def b(ar, rng, var=var):
            bs = (2,) if var == "batch" else ()
            idx = torch.tensor([rng.randrange(5) for _ in range(8 * (2 if bs else 1))]).reshape(*bs, 4, 2)
            i = ar.t(idx, "interp_indices", expand="none")
            v = ar.t(R(rng, *bs, 4, 2), "interp_values", expand="none")
            rhs = ar.t(R(rng, 4) if var == "vec" else R(rng, *bs, 4, 2), "rhs")
            return lambda: uint.left_t_interp(i, v, rhs, 5)
        add("left_t_interp", var, b)

    # ---- permutation
    for var in ("left", "right", "both", "batch", "operator"):
        def b(ar, rng, var=var):
            bs = (2,) if var == "batch" else ()
            M = ar.t(R(rng, *bs, 4, 4), "matrix", expand="batch")
            pl = list(range(4))
            pr = list(range(4))
            rng.shuffle(pl)
            rng.shuffle(pr)
            lp = ar.t(torch.tensor(pl), "left_permutation", expand="none") if var != "right" else None
            rp = ar.t(torch.tensor(pr[:3]), "right_permutation", expand="none") if var != "left" else None
            mat = O.DenseLinearOperator(M) if var == "operator" else M
            return lambda: uperm.apply_permutation(mat, lp, rp)
        add("apply_permutation", var, b)

    def b(ar, rng):
        p = list(range(5))
        rng.shuffle(p)
        P = ar.t(torch.tensor([p, p[::-1]]), "permutation", expand="none")
        return lambda: uperm.inverse_permutation(P)
    add("inverse_permutation", "batch", b)
    # ---- contour integral quadrature
    for cls in ("Dense", "Identity", "Diag", "AddedDiag"):
        for inv in (False, True):
            def b(ar, rng, cls=cls, inv=inv):
                e = opbuild.gen(rng, cls, batch=[], m=5, psd=True)
                op = ar.op(e, "linear_op")
                rhs = ar.t(R(rng, 5, 2), "rhs")
                return lambda: contour_integral_quad(op, rhs, inverse=inv, num_contour_quadrature=5)
            add("contour_integral_quad", "%s/%s" % (cls, "inverse" if inv else "sqrt"), b)
    # ---- user-supplied probe vectors (deprecated deterministic_probes feature): caller tensors held in a settings class
    for cls in ("Dense", "AddedDiag", "Kron"):
        def b(ar, rng, cls=cls):
            e = opbuild.gen(rng, cls, batch=[], m=4, psd=True)
            op = ar.op(e, "op")
            n = op.shape[-1]
            pv = ar.t(R(rng, n, 3), "probe_vectors", expand="none")
            rhs = ar.t(R(rng, n, 2), "rhs", expand="batch")

            def go():
                with settings.deterministic_probes(True), settings.max_cholesky_size(0), settings.num_trace_samples(3), \
                        settings.max_preconditioner_size(2), settings.min_preconditioning_size(1):
                    old = settings.deterministic_probes.probe_vectors
                    settings.deterministic_probes.probe_vectors = pv
                    try:
                        return op.inv_quad_logdet(rhs, logdet=True)
                    finally:
                        settings.deterministic_probes.probe_vectors = old
            return go
        add("inv_quad_logdet.deterministic_probes", cls, b)
    # ---- broadcasting helper
    def b(ar, rng):
        x = ar.t(R(rng, 3), "obj")
        return lambda: _pad_with_singletons(x, 1, 2)
    add("_pad_with_singletons", "plain", b)
    # ---- linear_operator.functions on plain tensors
    fx = {
        "add_diagonal": lambda A, rhs, d: linear_operator.add_diagonal(A, d).to_dense(),
        "add_jitter": lambda A, rhs, d: linear_operator.add_jitter(A, 0.5),
        "diagonalization": lambda A, rhs, d: linear_operator.diagonalization(A),
        "inv_quad": lambda A, rhs, d: linear_operator.inv_quad(A, rhs),
        "inv_quad_logdet": lambda A, rhs, d: linear_operator.inv_quad_logdet(A, rhs, logdet=True),
        "pivoted_cholesky": lambda A, rhs, d: linear_operator.pivoted_cholesky(A, rank=3),
        "root_decomposition": lambda A, rhs, d: linear_operator.root_decomposition(A).to_dense(),
        "root_inv_decomposition": lambda A, rhs, d: linear_operator.root_inv_decomposition(A).to_dense(),
        "solve": lambda A, rhs, d: linear_operator.solve(A, rhs),
        "solve_lhs": lambda A, rhs, d: linear_operator.solve(A, rhs, lhs=rhs.mT),
        "sqrt_inv_matmul": lambda A, rhs, d: linear_operator.sqrt_inv_matmul(A, rhs),
        "sqrt_inv_matmul_lhs": lambda A, rhs, d: linear_operator.sqrt_inv_matmul(A, rhs, rhs.mT),
    }
    for fname, f in fx.items():
        for st in ("default", "iterative"):
            def b(ar, rng, f=f, st=st):
                A = ar.t(spd(rng, 5), "input", expand="batch")
                rhs = ar.t(R(rng, 5, 2), "rhs", expand="batch")
                d = ar.t(R(rng, 5, lo=0.5, hi=1.5), "diag")

                def go():
                    if st == "iterative":
                        with settings.max_cholesky_size(0), settings.max_cg_iterations(30):
                            return f(A, rhs, d)
                    return f(A, rhs, d)
                return go
            add("functions." + fname, st, b)
    return C


# ------------------------------------------------------------------------------------------------
# utilities called DIRECTLY with caller-owned tensors of degenerate shapes and sign patterns

SIGNS = ("neg", "zero", "pos", "mixed")


def _signed(rng, sign, *shape, dtype=torch.float64):
    """values with a sign pattern: all negative / all zero / all positive / mixed with one exact zero"""
    x = R(rng, *shape, lo=0.5, hi=2.0, dtype=dtype)
    if sign == "neg":
        return -x
    if sign == "zero":
        return torch.zeros_like(x)
    if sign == "mixed":
        y = x.clone().reshape(-1)
        for i in range(y.numel()):
            y[i] = y[i] * (-1.0 if i % 2 == 0 else 1.0)
        if y.numel() > 2:
            y[-1] = 0.0
        return y.reshape(x.shape)
    return x


def _symtri(rng, sign, lead, k):
    """symmetric tridiagonal k x k matrices with leading dims `lead`; the sign pattern is that of the diagonal (eigenvalues for k = 1)"""
    d = _signed(rng, sign, *lead, k)
    t = torch.diag_embed(d)
    if k > 1:
        o = R(rng, *lead, k - 1, lo=-0.3, hi=0.3)
        t = t + torch.diag_embed(o, 1) + torch.diag_embed(o, -1)
    return t


def degenerate_utility_cases():
    """the utilities of the anchored files called directly on 1x1 / single-probe / single-batch / size-1 inputs with negative, zero,
    positive and mixed entries (early-exit and special-case paths that the library's own callers never feed)"""
    import linear_operator
    from linear_operator import settings
    from linear_operator.utils import cholesky as uchol, interpolation as uint, lanczos as ulan, permutation as uperm, qr as uqr, \
        sparse as usp, toeplitz as utoe
    from linear_operator.utils.linear_cg import linear_cg
    from linear_operator.utils.minres import minres
    from linear_operator.utils.pinverse import stable_pinverse
    C = []

    def add(entry, variant, b):
        C.append(("degenerate." + entry, variant, b))
    LEADS = [(), (1,), (2,), (1, 2)]
    for sign in SIGNS:
        # ---- Lanczos
        for k in (1, 2, 3):
            for lead in LEADS:
                def b(ar, rng, sign=sign, k=k, lead=lead):
                    t = ar.t(_symtri(rng, sign, lead, k), "t_mat", expand="batch")
                    return lambda: ulan.lanczos_tridiag_to_diag(t)
                add("lanczos_tridiag_to_diag", "%s/k%d/lead%s" % (sign, k, "x".join(map(str, lead)) or "-"), b)
        for n in (1, 2, 3):
            for mi in (1, 2):
                for bs in ((), (1,)):
                    def b(ar, rng, sign=sign, n=n, mi=mi, bs=bs):
                        A = ar.t(torch.diag_embed(_signed(rng, sign, *bs, n)) + (0.1 if n > 1 else 0.0), "A", expand="none")
                        init = ar.t(R(rng, *bs, n, 1, lo=0.5, hi=1.5), "init_vecs", expand="none")

                        def go():
                            q, t = ulan.lanczos_tridiag(lambda v: A @ v, mi, dtype=torch.float64, device=torch.device("cpu"), matrix_shape=torch.Size((n, n)),
                                                        batch_shape=torch.Size(bs), init_vecs=init)
                            tw = t            # handed to the caller by lanczos_tridiag: from now on the caller's tensor
                            snap = (tw._version, tw.clone())
                            ev = ulan.lanczos_tridiag_to_diag(tw)
                            if tw._version != snap[0] or not torch.equal(tw, snap[1]):
                                ar.watches.append(Flag("t_mat returned by lanczos_tridiag (now the caller's) changed by lanczos_tridiag_to_diag"))
                            return ev
                        return go
                    add("lanczos_tridiag+to_diag", "%s/n%d/iter%d/b%s" % (sign, n, mi, "x".join(map(str, bs)) or "-"), b)
        # ---- cholesky / qr / pinverse
        for n in (1, 2):
            for bs in ((), (1,), (2,)):
                for dt in (torch.float64, torch.float32):
                    def b(ar, rng, sign=sign, n=n, bs=bs, dt=dt):
                        d = _signed(rng, sign, *bs, n, dtype=dt) * (1e-7 if dt == torch.float32 and sign == "pos" else 1.0)
                        A = ar.t(torch.diag_embed(d), "A", expand="batch" if not bs else "none")
                        return lambda: uchol.psd_safe_cholesky(A)
                    add("psd_safe_cholesky", "%s/n%d/b%s/%s" % (sign, n, "x".join(map(str, bs)) or "-", "f32" if dt == torch.float32 else "f64"), b)
        for shp in ((1, 1), (2, 1), (1, 2), (1, 1, 1), (2, 2)):
            def b(ar, rng, sign=sign, shp=shp):
                M = ar.t(_signed(rng, sign, *shp), "mat", expand="batch")
                return lambda: uqr.stable_qr(M)
            add("stable_qr", "%s/%s" % (sign, "x".join(map(str, shp))), b)

            def b(ar, rng, sign=sign, shp=shp):
                M = ar.t(_signed(rng, sign, *shp), "A", expand="batch")
                return lambda: stable_pinverse(M)
            add("stable_pinverse", "%s/%s" % (sign, "x".join(map(str, shp))), b)
        # ---- toeplitz
        for n in (1, 2):
            for bs in ((), (1,)):
                def b(ar, rng, sign=sign, n=n, bs=bs):
                    c = ar.t(_signed(rng, sign, *bs, n), "toeplitz_column", expand="none")
                    r = ar.t(c.detach().clone(), "toeplitz_row", expand="none")
                    M = ar.t(_signed(rng, "mixed", *bs, n, 1), "tensor")
                    v = ar.t(_signed(rng, sign, n), "vector", expand="none")
                    L = ar.t(_signed(rng, sign, 1, n), "left_vectors")

                    def go():
                        out = [utoe.toeplitz_matmul(c, r, M), utoe.sym_toeplitz_matmul(c, M), utoe.sym_toeplitz_derivative_quadratic_form(L, L)]
                        if not bs:
                            out += [utoe.toeplitz(c, r), utoe.sym_toeplitz(c), utoe.toeplitz_getitem(c, r, 0, n - 1), utoe.sym_toeplitz_getitem(c, n - 1, 0),
                                    utoe.sym_toeplitz_matmul(c, v), utoe.toeplitz_matmul(c, r, v)]
                        return out
                    return go
                add("toeplitz_utils", "%s/n%d/b%s" % (sign, n, "x".join(map(str, bs)) or "-"), b)
        # ---- sparse
        for nnz in (1, 2):
            for idxk in ("int0", "slice-all", "slice-1", "col0", "scalar", "slice-from-first", "full-then-slice"):
                for coal in (False, True):
                    def b(ar, rng, sign=sign, nnz=nnz, idxk=idxk, coal=coal):
                        i = torch.tensor([[1], [1]]) if nnz == 1 else torch.tensor([[1, 2], [1, 2]])
                        sp = ar.sparse(i, _signed(rng, sign, nnz), (3, 3), "sparse", coalesce=coal)
                        idx = {"int0": (0,), "slice-all": (slice(None),), "slice-1": (slice(0, 1),), "col0": (slice(None), 0), "scalar": (1, 1),
                               "slice-from-first": (slice(1, 3),), "full-then-slice": (slice(None), slice(1, 3))}[idxk]
                        return lambda: usp.sparse_getitem(sp, idx)
                    add("sparse_getitem", "%s/nnz%d/%s/%s" % (sign, nnz, idxk, "coalesced" if coal else "uncoalesced"), b)
        for shp in ((1, 1), (1, 1, 1), (2, 1, 1)):
            def b(ar, rng, sign=sign, shp=shp):
                i = ar.t(torch.zeros(shp, dtype=torch.long), "interp_indices", expand="none")
                v = ar.t(_signed(rng, sign, *shp), "interp_values", expand="none")
                rhs = ar.t(_signed(rng, "mixed", *shp[:-2], 1, 1), "rhs")

                def go():
                    return [usp.make_sparse_from_indices_and_values(i, v, 1), uint.left_interp(i, v, rhs), uint.left_t_interp(i, v, rhs, 1)]
                return go
            add("interp_and_make_sparse", "%s/%s" % (sign, "x".join(map(str, shp))), b)

        def b(ar, rng, sign=sign):
            D = ar.t(_signed(rng, sign, 1, 1), "dense")
            sp = ar.sparse(torch.tensor([[0], [0]]), _signed(rng, sign, 1), (1, 1), "sparse")
            d2 = ar.t(_signed(rng, "mixed", 1, 1), "dense2")
            return lambda: [usp.to_sparse(D), usp.bdsmm(sp, d2), usp.sparse_repeat(sp, 2, 1), linear_operator.dsmm(sp, d2)]
        add("sparse_utils", "%s/1x1" % sign, b)
        # ---- permutation
        for bs in ((), (1,)):
            def b(ar, rng, sign=sign, bs=bs):
                M = ar.t(_signed(rng, sign, *bs, 1, 1), "matrix", expand="none")
                p = ar.t(torch.zeros(*bs, 1, dtype=torch.long), "permutation", expand="none")
                return lambda: [uperm.apply_permutation(M, p, p), uperm.apply_permutation(M, p, None), uperm.inverse_permutation(p)]
            add("permutation_utils", "%s/b%s" % (sign, "x".join(map(str, bs)) or "-"), b)
        # ---- solvers
        for n in (1, 2):
            for var in ("plain", "guess", "tridiag", "precond", "zero-rhs", "vec"):
                def b(ar, rng, sign=sign, n=n, var=var):
                    A = ar.t(torch.diag_embed(_signed(rng, sign, n)), "A", expand="none")
                    rhs = ar.t(torch.zeros(n, 1, dtype=torch.float64) if var == "zero-rhs" else (_signed(rng, "mixed", n) if var == "vec" else _signed(rng, "mixed", n, 1)), "rhs",
                               expand="none")
                    kw = {"max_tridiag_iter": 1}
                    if var == "guess":
                        kw["initial_guess"] = ar.t(_signed(rng, "mixed", n, 1), "initial_guess", expand="none")
                    if var == "tridiag":
                        kw.update(n_tridiag=1)
                    if var == "precond":
                        kw["preconditioner"] = lambda v: v
                    return lambda: (linear_cg(lambda v: A @ v, rhs, max_iter=3, **kw), minres(lambda v: A @ v, rhs, max_iter=3))
                add("linear_cg+minres", "%s/n%d/%s" % (sign, n, var), b)
        # ---- functions on 1x1 / 2x2 tensors
        for n in (1, 2):
            for st in ("default", "iterative"):
                def b(ar, rng, sign=sign, n=n, st=st):
                    A = ar.t(torch.diag_embed(_signed(rng, sign, n)), "input", expand="none")
                    rhs = ar.t(_signed(rng, "mixed", n, 1), "rhs", expand="none")
                    d = ar.t(_signed(rng, sign, n), "diag", expand="none")

                    def go():
                        out = []
                        fs = [lambda: linear_operator.add_diagonal(A, d).to_dense(), lambda: linear_operator.add_jitter(A, 0.5), lambda: linear_operator.diagonalization(A),
                              lambda: linear_operator.inv_quad(A, rhs), lambda: linear_operator.inv_quad_logdet(A, rhs, logdet=True),
                              lambda: linear_operator.pivoted_cholesky(A, rank=1), lambda: linear_operator.root_decomposition(A).to_dense(),
                              lambda: linear_operator.root_inv_decomposition(A).to_dense(), lambda: linear_operator.solve(A, rhs),
                              lambda: linear_operator.sqrt_inv_matmul(A, rhs)]
                        for f in fs:
                            try:
                                out.append(_iter(f) if st == "iterative" else f())
                            except Exception:
                                pass          # a negative / zero 1x1 "matrix" may legitimately be rejected; the caller's tensors must stay intact
                        return out
                    return go
                add("functions", "%s/n%d/%s" % (sign, n, st), b)
    return C


class Flag:
    """duck-typed watch that is a hit as soon as it exists"""
    def __init__(self, what):
        self.name, self.what = what, what
        self.view = self.owner = None

    def effects(self):
        return ["values"]


# ------------------------------------------------------------------------------------------------
# operator methods

def _methods():
    """name -> (needs_psd, builder(op, ar, rng, shape) -> thunk)"""
    import linear_operator
    from linear_operator import settings
    M = {}

    def bt(ar, rng, shp, rows, cols, name, **kw):
        """a caller tensor of matrix shape rows x cols (cols None: vector) carrying the operator's batch shape; in the expanded
        layout mostly a stride-0 batch expansion (like the batch-expanded operator leaves), else constant along the last dim"""
        b = tuple(shp[:-2])
        tail = (rows,) if cols is None else (rows, cols)
        if ar.layout == "expanded" and b and b[0] == 2 and rng.random() < 0.7:
            return ar.t(R(rng, *b[1:], *tail, **kw), name, expand="batch")
        return ar.t(R(rng, *b, *tail, **kw), name, expand="last")

    def rhs_(ar, rng, shp, k=2, name="rhs"):
        return bt(ar, rng, shp, shp[-1], k, name)

    M["to_dense"] = (False, lambda op, ar, rng, s: (lambda: op.to_dense()))
    M["matmul"] = (False, lambda op, ar, rng, s: (lambda r=rhs_(ar, rng, s): op.matmul(r)))
    M["matmul_vec"] = (False, lambda op, ar, rng, s: (lambda r=bt(ar, rng, s, s[-1], None, "rhs") if len(s) == 2 else bt(ar, rng, s, s[-1], 1, "rhs"): op @ r))
    M["rmatmul"] = (False, lambda op, ar, rng, s: (lambda l=bt(ar, rng, s, 2, s[-2], "lhs"): l @ op))
    M["t_matmul"] = (False, lambda op, ar, rng, s: (lambda r=bt(ar, rng, s, s[-2], 2, "rhs"): op.mT @ r))
    M["transpose_dense"] = (False, lambda op, ar, rng, s: (lambda: op.transpose(-1, -2).to_dense()))
    M["diagonal"] = (False, lambda op, ar, rng, s: (lambda: op.diagonal()))
    M["getitem_int"] = (False, lambda op, ar, rng, s: (lambda: op[..., 1, :].to_dense() if hasattr(op[..., 1, :], "to_dense") else op[..., 1, :]))
    M["getitem_slice"] = (False, lambda op, ar, rng, s: (lambda: op[..., 1:, :2].to_dense()))
    M["getitem_tensor"] = (False, lambda op, ar, rng, s: (
        lambda i=ar.t(torch.tensor([0, s[-2] - 1]), "row_index", expand="none"), j=ar.t(torch.tensor([s[-1] - 1, 0]), "col_index", expand="none"): op[..., i, j]))
    M["getitem_tensor_slice"] = (False, lambda op, ar, rng, s: (
        lambda i=ar.t(torch.tensor([0, s[-2] - 1]), "row_index", expand="none"): op[..., i, :].to_dense()))
    # index tensors (batch, row, column) that already have the broadcast shape: __getitem__ hands views of them down to _get_indices
    def _bidx(op, ar, rng, s, mk, rows_only=False, shape2d=False):
        nb = 3
        vals = lambda hi: ([hi - 1, 0, hi - 1, 1 % hi] if shape2d else [hi - 1, 0, 1 % hi])
        shp = (2, 2) if shape2d else (3,)
        ix = [ar.t(torch.tensor(vals(nb)).reshape(shp), "batch_index", expand="none")]
        for k, d in enumerate(s[:-2]):
            ix.append(ar.t(torch.tensor(vals(d)).reshape(shp), "batch_index%d" % (k + 1), expand="none"))
        ix.append(ar.t(torch.tensor(vals(s[-2])).reshape(shp), "row_index", expand="none"))
        if rows_only:
            return lambda: (lambda r: r.to_dense() if hasattr(r, "to_dense") else r)(mk(op)[(*ix, slice(None))])
        ix.append(ar.t(torch.tensor(list(reversed(vals(s[-1])))).reshape(shp), "col_index", expand="none"))
        return lambda: mk(op)[tuple(ix)]
    M["getitem_batch_tensor_repeat"] = (False, lambda op, ar, rng, s: _bidx(op, ar, rng, s, lambda o: o.repeat(3, *([1] * len(s)))))
    M["getitem_batch_tensor_expand"] = (False, lambda op, ar, rng, s: _bidx(op, ar, rng, s, lambda o: o.expand(3, *s)))
    M["getitem_batch_tensor_rows"] = (False, lambda op, ar, rng, s: _bidx(op, ar, rng, s, lambda o: o.repeat(3, *([1] * len(s))), rows_only=True))
    M["getitem_batch_tensor_2d"] = (False, lambda op, ar, rng, s: _bidx(op, ar, rng, s, lambda o: o.repeat(3, *([1] * len(s))), shape2d=True))
    M["add_diagonal"] = (True, lambda op, ar, rng, s: (lambda d=bt(ar, rng, s, s[-1], None, "diag", lo=0.5, hi=1.5): op.add_diagonal(d).to_dense()))
    M["add_jitter"] = (True, lambda op, ar, rng, s: (lambda: op.add_jitter(0.5).to_dense()))
    M["add_tensor"] = (False, lambda op, ar, rng, s: (lambda t=bt(ar, rng, s, s[-2], s[-1], "other"): (op + t).to_dense()))
    M["add_low_rank"] = (True, lambda op, ar, rng, s: (lambda t=bt(ar, rng, s, s[-2], 2, "low_rank_mat"): op.add_low_rank(t).to_dense()))
    M["mul_const"] = (False, lambda op, ar, rng, s: (lambda: (op * 2.0).to_dense()))
    M["mul_tensor_const"] = (False, lambda op, ar, rng, s: (lambda c=ar.t(torch.tensor(1.5, dtype=torch.float64), "constant", expand="none"): (op * c).to_dense()))
    M["div_const"] = (False, lambda op, ar, rng, s: (lambda: (op / 2.0).to_dense()))
    M["sum_rows"] = (False, lambda op, ar, rng, s: (lambda: op.sum(-1)))
    M["solve"] = (True, lambda op, ar, rng, s: (lambda r=rhs_(ar, rng, s): op.solve(r)))
    M["solve_lhs"] = (True, lambda op, ar, rng, s: (lambda r=rhs_(ar, rng, s), l=bt(ar, rng, s, 2, s[-2], "lhs"): op.solve(r, l)))
    M["solve_iterative"] = (True, lambda op, ar, rng, s: (lambda r=rhs_(ar, rng, s): _iter(lambda: op.solve(r))))
    M["inv_quad_logdet"] = (True, lambda op, ar, rng, s: (lambda r=rhs_(ar, rng, s): op.inv_quad_logdet(r, logdet=True)))
    M["inv_quad_logdet_iterative"] = (True, lambda op, ar, rng, s: (lambda r=rhs_(ar, rng, s): _iter(lambda: op.inv_quad_logdet(r, logdet=True))))
    M["logdet"] = (True, lambda op, ar, rng, s: (lambda: op.logdet()))
    M["inv_quad"] = (True, lambda op, ar, rng, s: (lambda r=rhs_(ar, rng, s): op.inv_quad(r)))
    M["cholesky"] = (True, lambda op, ar, rng, s: (lambda: op.cholesky().to_dense()))
    M["root_decomposition"] = (True, lambda op, ar, rng, s: (lambda: op.root_decomposition().root.to_dense()))
    M["root_decomposition_lanczos"] = (True, lambda op, ar, rng, s: (lambda: _iter(lambda: op.root_decomposition(method="lanczos").root.to_dense())))
    M["root_inv_decomposition"] = (True, lambda op, ar, rng, s: (lambda: op.root_inv_decomposition().root.to_dense()))
    M["root_inv_decomposition_lanczos"] = (True, lambda op, ar, rng, s: (
        lambda iv=bt(ar, rng, s, s[-1], 1, "initial_vectors"), tv=bt(ar, rng, s, s[-1], 2, "test_vectors"):
        _iter(lambda: op.root_inv_decomposition(initial_vectors=iv, test_vectors=tv, method="lanczos").root.to_dense())))
    M["diagonalization"] = (True, lambda op, ar, rng, s: (lambda: op.diagonalization()))
    M["diagonalization_lanczos"] = (True, lambda op, ar, rng, s: (lambda: _iter(lambda: op.diagonalization(method="lanczos"))))
    M["svd"] = (True, lambda op, ar, rng, s: (lambda: op.svd()))
    M["sqrt_inv_matmul"] = (True, lambda op, ar, rng, s: (lambda r=rhs_(ar, rng, s): op.sqrt_inv_matmul(r)))
    M["sqrt_inv_matmul_lhs"] = (True, lambda op, ar, rng, s: (lambda r=rhs_(ar, rng, s), l=bt(ar, rng, s, 2, s[-2], "lhs"): op.sqrt_inv_matmul(r, l)))
    M["zero_mean_mvn_samples"] = (True, lambda op, ar, rng, s: (lambda: op.zero_mean_mvn_samples(2)))
    M["pivoted_cholesky"] = (True, lambda op, ar, rng, s: (lambda: op.pivoted_cholesky(rank=2)))
    M["cat_rows"] = (True, lambda op, ar, rng, s: (
        lambda cr=bt(ar, rng, s, 1, s[-1], "cross_mat"), nm=bt(ar, rng, s, 1, 1, "new_mat", lo=float(s[-1]) * 4 + 5.0, hi=float(s[-1]) * 4 + 6.0):
        (op.cholesky(), op.cat_rows(cr, nm).to_dense())))
    M["to_double"] = (False, lambda op, ar, rng, s: (lambda: op.to(torch.float64).to_dense()))
    M["float"] = (False, lambda op, ar, rng, s: (lambda: op.float().to_dense()))
    M["type"] = (False, lambda op, ar, rng, s: (lambda: op.type(torch.float32).to_dense()))
    M["clone"] = (False, lambda op, ar, rng, s: (lambda: op.clone().to_dense()))
    M["detach"] = (False, lambda op, ar, rng, s: (lambda: op.detach().to_dense()))
    M["detach_"] = (False, lambda op, ar, rng, s: (lambda: op.detach_().to_dense()))
    M["requires_grad_"] = (False, lambda op, ar, rng, s: (lambda: (op.requires_grad_(True), op.requires_grad_(False))))
    M["unsqueeze_squeeze"] = (False, lambda op, ar, rng, s: (lambda: op.unsqueeze(0).squeeze(0).to_dense()))
    M["expand"] = (False, lambda op, ar, rng, s: (lambda: op.expand(3, *op.shape).to_dense()))
    M["repeat"] = (False, lambda op, ar, rng, s: (lambda: op.repeat(2, *([1] * len(op.shape))).to_dense()))
    M["representation_roundtrip"] = (False, lambda op, ar, rng, s: (lambda: op.representation_tree()(*op.representation()).to_dense()))
    M["add_operator"] = (False, lambda op, ar, rng, s: (
        lambda o2=ar.op({"cls": "Dense", "t": opbuild.rand_t(rng, [s[-2], s[-1]])}, "other_op", dtype=_DT[0]): (op + o2).to_dense()))
    M["add_diag_operator"] = (True, lambda op, ar, rng, s: (
        lambda o2=ar.op({"cls": "Diag", "d": opbuild.rand_t(rng, [s[-1]], 1, 3)}, "other_op", dtype=_DT[0]): ((op + o2).to_dense(), (o2 + op).to_dense())))
    M["matmul_operator"] = (False, lambda op, ar, rng, s: (
        lambda o2=ar.op({"cls": "Dense", "t": opbuild.rand_t(rng, [s[-1], 2])}, "other_op", dtype=_DT[0]): (op @ o2).to_dense()))
    M["mul_operator"] = (True, lambda op, ar, rng, s: (
        lambda o2=ar.op(opbuild.gen(rng, "Root", batch=list(s[:-2]) if ar.layout != "expanded" else list(s[1:-2]), m=s[-1], psd=True), "other_op", dtype=_DT[0]): (op * o2).to_dense()))
    M["torch_matmul"] = (False, lambda op, ar, rng, s: (lambda r=rhs_(ar, rng, s): torch.matmul(op, r)))
    M["torch_diagonal"] = (False, lambda op, ar, rng, s: (lambda: torch.diagonal(op, dim1=-1, dim2=-2)))
    M["torch_linalg_solve"] = (True, lambda op, ar, rng, s: (lambda r=rhs_(ar, rng, s): torch.linalg.solve(op, r)))
    M["torch_add"] = (False, lambda op, ar, rng, s: (lambda t=bt(ar, rng, s, s[-2], s[-1], "other"): torch.add(op, t).to_dense()))
    return M


def _iter(f):
    from linear_operator import settings
    with settings.max_cholesky_size(0), settings.max_cg_iterations(40), settings.num_trace_samples(3), settings.max_preconditioner_size(2), \
            settings.min_preconditioning_size(1), settings.max_lanczos_quadrature_iterations(4), settings.max_root_decomposition_size(4):
        return f()


GRAD_METHODS = {
    "backward_matmul": (False, lambda op, r: (op @ r).sum()),
    "backward_solve": (True, lambda op, r: op.solve(r).sum()),
    "backward_solve_iterative": (True, lambda op, r: _iter(lambda: op.solve(r).sum())),
    "backward_inv_quad_logdet": (True, lambda op, r: sum(op.inv_quad_logdet(r, logdet=True))),
    "backward_inv_quad_logdet_iterative": (True, lambda op, r: _iter(lambda: sum(op.inv_quad_logdet(r, logdet=True)))),
    "backward_inv_quad": (True, lambda op, r: op.inv_quad(r).sum()),
    "backward_diagonalization": (True, lambda op, r: _iter(lambda: op.diagonalization(method="lanczos")[0].sum())),
    "backward_root_decomposition": (True, lambda op, r: _iter(lambda: op.root_decomposition(method="lanczos").root.to_dense().sum())),
    "backward_sqrt_inv_matmul": (True, lambda op, r: op.sqrt_inv_matmul(r).sum()),
    "backward_pivoted_cholesky": (True, lambda op, r: op.pivoted_cholesky(rank=2).sum()),
    "backward_diagonal": (False, lambda op, r: op.diagonal().sum()),
    "backward_to_dense": (False, lambda op, r: op.to_dense().sum()),
}


VARIANTS = {"b0-d1-f64": ([], 1, torch.float64), "b2-d1-f64": ([2], 1, torch.float64), "b0-d2-f64": ([], 2, torch.float64),
            "b0-d1-f32": ([], 1, torch.float32)}


def operator_cases(classes=None, variants=None):
    """(entry 'Class.method', variant, builder) for every class x method x variant (operator batch shape, nesting depth of the
    operator tree, dtype); the caller picks layouts"""
    C = []
    M = _methods()
    classes = classes or opbuild.ALL
    for cls in classes:
        psd_ok = cls in opbuild.PSD_CAPABLE
        for vname in (variants or list(VARIANTS)):
            batch, depth, dt = VARIANTS[vname]
            for mname, (needs_psd, mk) in M.items():
                if needs_psd and not psd_ok:
                    continue

                def b(ar, rng, cls=cls, mk=mk, needs_psd=needs_psd, psd_ok=psd_ok, batch=batch, depth=depth, dt=dt):
                    _DT[0] = dt
                    try:
                        e = opbuild.gen(rng, cls, batch=list(batch), m=4 if depth == 1 else 3, depth=depth, psd=psd_ok and (needs_psd or rng.random() < 0.5))
                        op = ar.op(e, "op", dtype=dt)
                        shp = tuple(op.shape)
                        return mk(op, ar, rng, shp)
                    finally:
                        _DT[0] = torch.float64
                C.append(("%s.%s" % (cls, mname), vname, b))
            for mname, (needs_psd, f) in GRAD_METHODS.items():
                if needs_psd and not psd_ok:
                    continue

                def b(ar, rng, cls=cls, f=f, needs_psd=needs_psd, psd_ok=psd_ok, batch=batch, depth=depth, dt=dt):
                    _DT[0] = dt
                    try:
                        e = opbuild.gen(rng, cls, batch=list(batch), m=4 if depth == 1 else 3, depth=depth, psd=psd_ok and needs_psd)
                        op = ar.op(e, "op", dtype=dt, requires_grad=True)
                        bsh = tuple(op.shape[:-2])
                        if ar.layout == "expanded" and bsh and bsh[0] == 2:
                            r = ar.t(R(rng, *bsh[1:], op.shape[-1], 2), "rhs", expand="batch", requires_grad=True)
                        else:
                            r = ar.t(R(rng, *bsh, op.shape[-1], 2), "rhs", requires_grad=True)
                        return lambda: f(op, r).sum().backward()
                    finally:
                        _DT[0] = torch.float64
                C.append(("%s.%s" % (cls, mname), vname, b))
    return C


# ------------------------------------------------------------------------------------------------
# backward passes with explicit gradient tensors

_PT = {}


def user_passthrough_class():
    """a minimal user-defined operator (the identity scaled by nothing) whose protocol methods hand their ARGUMENT back -- exactly
    what the closure assumption of the static layer permits a closure / operator method to do"""
    if "cls" not in _PT:
        from linear_operator.operators import LinearOperator

        class UserPassThrough(LinearOperator):
            def __init__(self, ones):
                super().__init__(ones)
                self.ones = ones

            def _matmul(self, rhs):
                return rhs

            def _t_matmul(self, rhs):
                return rhs

            def _size(self):
                return torch.Size((*self.ones.shape, self.ones.shape[-1]))

            def _transpose_nonbatch(self):
                return self

            def _solve(self, rhs, preconditioner=None, num_tridiag=0):
                return rhs

            def _diagonal(self):
                return self.ones

            def _bilinear_derivative(self, left_vecs, right_vecs):
                return (None,)
        _PT["cls"] = UserPassThrough
    return _PT["cls"]


def _grad_outputs():
    """name -> (needs_psd, iterative, f(op, r, v) -> list of output tensors of (mostly) one autograd Function call); r: matrix rhs, v: vector"""
    G = {}
    dn = lambda x: x.to_dense() if hasattr(x, "to_dense") else x
    G["matmul"] = (False, False, lambda op, r, v: [op @ r])
    G["matmul_vec"] = (False, False, lambda op, r, v: [op @ v])
    G["t_matmul"] = (False, False, lambda op, r, v: [op.mT @ r] if op.shape[-1] == op.shape[-2] else [op @ r])
    G["to_dense"] = (False, False, lambda op, r, v: [op.to_dense()])
    G["diagonal"] = (False, False, lambda op, r, v: [op.diagonal()] if op.shape[-1] == op.shape[-2] else [op.to_dense()])
    for it in (False, True):
        sfx = "_iterative" if it else ""
        G["solve" + sfx] = (True, it, lambda op, r, v: [op.solve(r)])
        G["solve_vec" + sfx] = (True, it, lambda op, r, v: [op.solve(v)])
        G["solve_lhs" + sfx] = (True, it, lambda op, r, v: [op.solve(r, r.mT)])
        G["solve_vec_lhs" + sfx] = (True, it, lambda op, r, v: [op.solve(v, r.mT)])
        G["inv_quad" + sfx] = (True, it, lambda op, r, v: [op.inv_quad(r)])
        G["inv_quad_vec" + sfx] = (True, it, lambda op, r, v: [op.inv_quad(v)])
        G["inv_quad_logdet" + sfx] = (True, it, lambda op, r, v: list(op.inv_quad_logdet(r, logdet=True)))
        G["inv_quad_logdet_vec" + sfx] = (True, it, lambda op, r, v: list(op.inv_quad_logdet(v, logdet=True)))
        G["logdet" + sfx] = (True, it, lambda op, r, v: [op.logdet()])
        G["sqrt_inv_matmul" + sfx] = (True, it, lambda op, r, v: [op.sqrt_inv_matmul(r)])
        G["sqrt_inv_matmul_lhs" + sfx] = (True, it, lambda op, r, v: list(op.sqrt_inv_matmul(r, r.mT)))
    G["root_lanczos"] = (True, True, lambda op, r, v: [op.root_decomposition(method="lanczos").root.to_dense()])
    G["root_inv_lanczos"] = (True, True, lambda op, r, v: [op.root_inv_decomposition(method="lanczos").root.to_dense()])
    # both outputs of ONE Lanczos RootDecomposition call: the inverse root, then the root served from the cache that call filled
    G["root_and_inv_lanczos"] = (True, True, lambda op, r, v: (lambda ri: [op.root_decomposition().root.to_dense(), ri])(
        op.root_inv_decomposition(method="lanczos").root.to_dense()))
    G["diagonalization_lanczos"] = (True, True, lambda op, r, v: (lambda ev: [ev[0], dn(ev[1])])(op.diagonalization(method="lanczos")))
    G["diagonalization_symeig"] = (True, False, lambda op, r, v: (lambda ev: [ev[0], dn(ev[1])])(op.diagonalization(method="symeig")))
    G["pivoted_cholesky"] = (True, False, lambda op, r, v: [op.pivoted_cholesky(rank=2)])
    G["cholesky"] = (True, False, lambda op, r, v: [op.cholesky().to_dense()])
    G["svd"] = (True, False, lambda op, r, v: (lambda u: [dn(u[0]), u[1]])(op.svd()))
    G["add_jitter_matmul"] = (True, False, lambda op, r, v: [op.add_jitter(0.5) @ r])
    G["add_jitter_solve_vec_iterative"] = (True, True, lambda op, r, v: [op.add_jitter(0.5).solve(v)])
    G["zero_mean_mvn_samples"] = (True, False, lambda op, r, v: [op.zero_mean_mvn_samples(2)])
    return G


GRAD_CLASSES = ["Dense", "AddedDiag", "Diag", "Toeplitz", "Root", "LowRankRoot", "Kron", "KronAddedDiag", "SumKron", "LowRankRootAddedDiag", "Sum",
                "PsdSum", "ConstantMul", "BlockDiag", "BatchRepeat", "Mul", "Chol", "Interpolated", "Matmul", "Cat", "Masked", "Kernel",
                "UserPassThrough"]


def backward_grad_cases():
    """backward passes with EXPLICIT gradient tensors: the grad_outputs a caller hands to torch.autograd.grad / .backward(gradient=...)
    (and, inside a larger graph, gradient buffers shared with other branches) are caller-owned; every custom autograd Function of
    linear_operator/functions/ is reached through the public API, ALL outputs of one Function call receive a gradient; forward and
    backward run under the same settings (iterative variants: CG / Lanczos paths in both)"""
    C = []
    G = _grad_outputs()
    for cls in GRAD_CLASSES:
        psd_ok = cls in opbuild.PSD_CAPABLE or cls == "UserPassThrough"
        for gname, (needs_psd, iterative, f) in G.items():
            if needs_psd and not psd_ok:
                continue
            for via in ("grad", "shared"):
                def b(ar, rng, cls=cls, f=f, needs_psd=needs_psd, via=via, iterative=iterative):
                    if cls == "UserPassThrough":
                        op = user_passthrough_class()(ar.t(torch.ones(4, dtype=torch.float64), "op.leaf1", expand="none", requires_grad=True))
                    else:
                        e = opbuild.gen(rng, cls, batch=[], m=4, psd=needs_psd)
                        op = ar.op(e, "op", requires_grad=True)
                    r = ar.t(R(rng, op.shape[-1], 2), "rhs", requires_grad=True)
                    v = ar.t(R(rng, op.shape[-1]), "rhs_vector", expand="none", requires_grad=True)
                    leaves = [w.view for w in ar.watches if isinstance(getattr(w, "view", None), torch.Tensor) and w.view.requires_grad]

                    def body():
                        if via == "shared":
                            # a side branch created BEFORE the forward pass that receives the very gradient buffers of the outputs
                            # (AddBackward hands the same tensor to both parents): W.grad must be the sum of the caller's weights
                            W = torch.zeros((), dtype=torch.float64, requires_grad=True)
                            V = W * 1.0
                        outs = [o for o in f(op, r, v) if isinstance(o, torch.Tensor) and o.requires_grad]
                        # the caller's gradient tensors, laid out by the arena (created after the forward pass: their shapes are the outputs')
                        gs = [ar.t(R(rng, *o.shape) if o.dim() else R(rng, 1).reshape(()), "grad_output%d" % i, expand="last") for i, o in enumerate(outs)]
                        if via == "grad":
                            return torch.autograd.grad(outs, leaves, gs, allow_unused=True)
                        ar.watches.append(SharedGradExpect(W, sum(float(g.to(torch.float64).sum()) for g in gs)))
                        loss = sum((g * (o + V.to(o.dtype))).sum() for o, g in zip(outs, gs))
                        return loss.backward()
                    return (lambda: _iter(body)) if iterative else body
                C.append(("backward_grad.%s.%s" % (cls, gname), via, b))
    return C


def history_cases():
    """sequences of operations on operators sharing the same caller tensors; intermediate result operators become
    pre-existing operators for the following steps"""
    C = []
    M = _methods()
    seqs = [
        ("chol-then-jitter-then-solve", ["cholesky", "add_jitter", "solve", "logdet", "to_dense"]),
        ("solve-iter-then-direct", ["solve_iterative", "solve", "inv_quad_logdet_iterative", "inv_quad_logdet"]),
        ("root-then-sample", ["root_decomposition", "zero_mean_mvn_samples", "root_inv_decomposition", "sqrt_inv_matmul"]),
        ("diag-getitem-matmul", ["diagonal", "getitem_slice", "matmul", "t_matmul", "add_diagonal", "matmul"]),
        ("catrows-after-chol", ["cholesky", "cat_rows", "solve", "add_low_rank"]),
        ("detach-cycle", ["requires_grad_", "matmul", "detach_", "to_dense", "clone"]),
    ]
    for cls in ("Dense", "AddedDiag", "Kron", "Toeplitz", "Root", "Sum", "BlockDiag", "KronAddedDiag", "Interpolated", "ConstantMul", "Diag"):
        for sname, seq in seqs:
            def b(ar, rng, cls=cls, seq=seq):
                e = opbuild.gen(rng, cls, batch=[], m=4, psd=True)
                op = ar.op(e, "op")
                # a second operator built on the SAME caller tensors (shared storage between two operators)
                op2 = op.representation_tree()(*op.representation())
                ar.watch_op(op2, "op_shared")
                shp = tuple(op.shape)
                thunks = [M[m][1](op if i % 2 == 0 else op2, ar, rng, shp) for i, m in enumerate(seq)]

                def go():
                    for i, th in enumerate(thunks):
                        r = th()
                        h = ar.effects()
                        if h:
                            raise HistoryHit(i, seq[i], h)
                return go
            C.append(("history.%s" % cls, sname, b))
    return C


HISTORY_POOL = ["to_dense", "matmul", "t_matmul", "diagonal", "getitem_slice", "getitem_tensor", "add_diagonal", "add_jitter", "add_tensor",
                "mul_const", "solve", "solve_iterative", "inv_quad_logdet", "inv_quad_logdet_iterative", "logdet", "cholesky",
                "root_decomposition", "root_inv_decomposition", "diagonalization", "sqrt_inv_matmul", "zero_mean_mvn_samples",
                "pivoted_cholesky", "cat_rows", "add_low_rank", "clone", "detach", "requires_grad_", "expand", "representation_roundtrip",
                "svd", "transpose_dense", "sum_rows", "getitem_batch_tensor_repeat", "getitem_batch_tensor_expand"]


def random_history_cases(n):
    """n random operation sequences (length 3-7) on a random PSD-capable class; two operators share the caller tensors;
    the sequence is a deterministic function of its index (so that a replay file can name it)"""
    C = []
    M = _methods()
    pool = [m for m in HISTORY_POOL if m in M]
    for k in range(n):
        r0 = random.Random("history|%d" % k)
        cls = r0.choice(opbuild.PSD_CAPABLE)
        seq = [r0.choice(pool) for _ in range(r0.randrange(3, 8))]
        batch = r0.choice([[], [], [2]])

        def b(ar, rng, cls=cls, seq=seq, batch=batch):
            e = opbuild.gen(rng, cls, batch=list(batch), m=4, psd=True)
            op = ar.op(e, "op")
            op2 = op.representation_tree()(*op.representation())
            ar.watch_op(op2, "op_shared")
            shp = tuple(op.shape)
            thunks = [M[m][1](op if rng.random() < 0.5 else op2, ar, rng, shp) for m in seq]

            def go():
                for i, th in enumerate(thunks):
                    try:
                        th()
                    except HistoryHit:
                        raise
                    except Exception:
                        pass              # a step that raises (unsupported combination) must still leave everything intact
                    h = ar.effects()
                    if h:
                        raise HistoryHit(i, seq[i], h)
            return go
        C.append(("history.random.%s" % cls, "%d:%s" % (k, ">".join(seq)), b))
    return C


class SharedGradExpect:
    """duck-typed watch (name / effects()): the gradient that reached a side branch sharing the outputs' gradient buffers"""
    def __init__(self, W, expected):
        self.name, self.W, self.expected = "gradient buffer shared with another branch of the graph", W, expected
        self.view = self.owner = None

    def effects(self):
        g = self.W.grad
        if g is None:
            return []
        got = float(g)
        return [] if abs(got - self.expected) <= 1e-8 * (1.0 + abs(self.expected)) else ["values:side-branch-gradient %r instead of %r" % (got, self.expected)]


class HistoryHit(Exception):
    def __init__(self, step, method, hits):
        super().__init__("step %d (%s): %s" % (step, method, hits))
        self.step, self.method, self.hits = step, method, hits
