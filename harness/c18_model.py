"""C18 helper: operator expression -> (real operator, sampler expression `sx` of coq/C18/Model.v),
Python mirrors of the model's index functions (nd / ncalls / coord) used to put the reconstructed linear map
into the model's canonical layout, and the Coq literal writer."""
import math

import torch

from . import common, opbuild

DIAG_CLS = {"Diag", "ConstantDiag", "KronDiag"}
BLOCK_CLS = {"BlockDiag": "blockdiag", "BlockInterleaved": "blockinter", "SumBatch": "sumbatch"}
CONSTRUCTOR_ROOT = {"Root", "LowRankRoot", "Chol"}


class Unsupported(Exception):
    """the expression is outside the modelled fragment (only the direct predicate is evaluated)"""


def prod(xs):
    return int(math.prod(xs))


def flat(t):
    return [float(x) for x in t.reshape(-1).tolist()]


# --------------------------------------------------------------------------------- expression -> operator + node

def build_tree(e):
    """Build the real operator bottom-up (so that the leaf objects, whose caches hold the roots actually used,
    stay accessible) together with the sampler expression.  Dense meanings come from opbuild.dense (oracle)."""
    import linear_operator.operators as O
    c = e["cls"]
    A = opbuild.dense(e)
    bs = [int(x) for x in A.shape[:-2]]
    n = int(A.shape[-1])
    if c in DIAG_CLS:
        return opbuild.build(e), {"s": "diag", "bs": bs, "n": n, "d": flat(torch.diagonal(A, dim1=-2, dim2=-1)), "cls": c}
    if c == "Identity":
        return opbuild.build(e), {"s": "ident", "bs": bs, "n": n, "cls": c}
    if c in BLOCK_CLS:
        if e.get("block_dim", -3) != -3:
            raise Unsupported("block_dim != -3")
        cop, cn = build_tree(e["base"])
        op = getattr(O, c + "LinearOperator")(cop)
        cbs = node_bs(cn)
        if len(cbs) < 1:
            raise Unsupported("block without batch")
        return op, {"s": BLOCK_CLS[c], "bs": cbs[:-1], "nb": cbs[-1], "c": cn, "cls": c}
    if c == "Interpolated":
        cop, cn = build_tree(e["base"])
        li, lv, ri, rv = e["li"], e["lv"], e["ri"], e["rv"]
        cbs = node_bs(cn)
        if li["shape"][:-2] != cbs or ri["shape"] != li["shape"] or lv["shape"] != li["shape"] or rv["shape"] != li["shape"]:
            raise Unsupported("interpolation batch differs from base batch")
        op = O.InterpolatedLinearOperator(cop, opbuild.tt(li), opbuild.tt(lv), opbuild.tt(ri), opbuild.tt(rv))
        return op, {"s": "interp", "bs": cbs, "m": li["shape"][-2], "q": li["shape"][-1],
                    "li": [int(x) for x in li["data"]], "lv": [float(x) for x in lv["data"]],
                    "ri": [int(x) for x in ri["data"]], "rv": [float(x) for x in rv["data"]], "c": cn, "cls": c}
    if c == "PsdSum":
        subs = [build_tree(x) for x in e["ops"]]
        b0 = node_bs(subs[0][1])
        if any(node_bs(nd_) != b0 or node_n(nd_) != node_n(subs[0][1]) for _, nd_ in subs):
            raise Unsupported("PsdSum with broadcasting summands")
        op = O.PsdSumLinearOperator(*[o for o, _ in subs])
        node = {"s": "zero", "bs": b0, "n": node_n(subs[0][1])}
        for _, nd_ in subs:
            node = {"s": "add", "l": node, "r": nd_}
        node["cls"] = c
        return op, node
    op = opbuild.build(e)
    return op, {"s": "gen", "bs": bs, "n": n, "A": flat(A), "cls": c, "leaf": op, "expr": e, "rk": None}


def node_bs(nd_):
    return node_bs(nd_["l"]) if nd_["s"] == "add" else list(nd_["bs"])


def node_n(nd_):
    s = nd_["s"]
    if s in ("diag", "ident", "gen", "zero"):
        return nd_["n"]
    if s in ("blockdiag", "blockinter"):
        return nd_["nb"] * node_n(nd_["c"])
    if s == "sumbatch":
        return node_n(nd_["c"])
    if s == "interp":
        return nd_["m"]
    return node_n(nd_["l"])


def leaves(nd_):
    s = nd_["s"]
    if s in ("diag", "ident", "gen", "zero"):
        return [nd_]
    if s == "add":
        return leaves(nd_["l"]) + leaves(nd_["r"])
    return leaves(nd_["c"])


# --------------------------------------------------------------------------------- mirrors of Model.v

def gen_method(st, n, kind):
    """Model.gen_method; st = (ciq, max_chol, fast); kind = 'auto' | 'given'"""
    ciq, max_chol, fast = st[:3]
    if ciq:
        return "ciq"
    if n == 1:
        return "sqrt"
    if kind == "given":
        return "given"
    return "chol" if (n <= max_chol or not fast) else "lanczos"


def resolve_roots(node, st, observed=False):
    """fill rk of the generic leaves AFTER the first sampler call (decomposition caches are then populated).
    observed=True: other calls were made on the operators before sampling (a history), so the cache branches of
    _choose_root_method / a pre-filled root_decomposition entry may be in effect: the root in use is read from the
    object (kind 'given') instead of being predicted from the settings."""
    from linear_operator.operators import LinearOperator
    for lf in leaves(node):
        if lf["s"] != "gen":
            continue
        op, e, n = lf["leaf"], lf["expr"], lf["n"]
        c = lf["cls"]
        overridden = type(op).root_decomposition is not LinearOperator.root_decomposition
        kind = "given" if (c in CONSTRUCTOR_ROOT or overridden or observed) else "auto"
        m = gen_method(st, n, kind)
        lf["method"] = m
        if c in ("Root", "LowRankRoot"):
            r = e["root"]
            R = opbuild.dense(r) if (isinstance(r, dict) and "cls" in r) else opbuild.tt(r)
            lf["rk"] = ("given", int(R.shape[-1]), flat(R))
        elif c == "Chol":
            t = opbuild.tt(e["t"])
            L = t.mT if e["upper"] else t        # the lower factor of the matrix the operator denotes
            lf["rk"] = ("given", int(L.shape[-1]), flat(L))
        elif kind == "given":
            if m == "given":
                R = op.root_decomposition().root.to_dense().to(torch.float64)
                R = R.expand(*lf["bs"], *R.shape[-2:])
                lf["rk"] = ("given", int(R.shape[-1]), flat(R))
            else:
                lf["rk"] = ("given", 0, [])
        else:
            if m == "lanczos":
                R = op.root_decomposition().root.to_dense().to(torch.float64)
                R = R.expand(*lf["bs"], *R.shape[-2:])
                lf["rk"] = ("auto", (int(R.shape[-1]), flat(R)))
            else:
                lf["rk"] = ("auto", None)


def leaf_r(lf, st):
    m = lf["method"]
    if m == "ciq":
        return None
    if m == "sqrt":
        return 1
    if m == "chol":
        return lf["n"]
    rk = lf["rk"]
    if rk[0] == "given":
        return rk[1]
    return rk[1][0] if rk[1] is not None else None


def has_opaque(node, st):
    return any(lf["s"] == "gen" and leaf_r(lf, st) is None for lf in leaves(node))


def nd(node, st):
    s = node["s"]
    if s in ("diag", "ident"):
        return node["n"]
    if s == "gen":
        return leaf_r(node, st) or 0
    if s in ("blockdiag", "blockinter", "sumbatch"):
        return node["nb"] * nd(node["c"], st)
    if s == "interp":
        return nd(node["c"], st)
    if s == "zero":
        return 0
    return nd(node["l"], st) + nd(node["r"], st)


def ncalls(node):
    s = node["s"]
    if s in ("diag", "ident", "gen"):
        return 1
    if s == "zero":
        return 0
    if s == "add":
        return ncalls(node["l"]) + ncalls(node["r"])
    return ncalls(node["c"])


def coord_index(node, st, k, b, a, t):
    """Model.coord: (index of the randn call, flat offset in its tensor) of coordinate a of member b in draw t"""
    s = node["s"]
    if s in ("diag", "ident"):
        return 0, (t * prod(node["bs"]) + b) * node["n"] + a
    if s == "gen":
        return 0, (b * nd(node, st) + a) * k + t
    if s in ("blockdiag", "blockinter", "sumbatch"):
        d0 = nd(node["c"], st)
        return coord_index(node["c"], st, k, b * node["nb"] + a // d0, a % d0, t)
    if s == "interp":
        return coord_index(node["c"], st, k, b, a, t)
    if s == "add":
        dl = nd(node["l"], st)
        if a < dl:
            return coord_index(node["l"], st, k, b, a, t)
        ci, off = coord_index(node["r"], st, k, b, a - dl, t)
        return ncalls(node["l"]) + ci, off
    raise ValueError(s)


def canonical_root(node, st, k, J, offs):
    """R_obs[b, i, a] read off the complete linear map J (shape (k, *bs, n, D)) through the model's coordinate
    map, and the largest entry of J that the model's structure (draw t of member b depends only on the
    coordinates (b, ., t), identically for every t) does not explain."""
    B, N, D = prod(node_bs(node)), node_n(node), nd(node, st)
    Jf = J.reshape(k, B, N, J.shape[-1])
    R = torch.zeros(B, N, D, dtype=torch.float64)
    pred = torch.zeros_like(Jf)
    for b in range(B):
        for a in range(D):
            ci, off = coord_index(node, st, k, b, a, 0)
            R[b, :, a] = Jf[0, b, :, offs[ci] + off]
    for t in range(k):
        for b in range(B):
            for a in range(D):
                ci, off = coord_index(node, st, k, b, a, t)
                pred[t, b, :, offs[ci] + off] += R[b, :, a]
    return R, float((Jf - pred).abs().max()) if Jf.numel() else 0.0


# --------------------------------------------------------------------------------- Coq literals

def nlist(xs):
    return "[:: " + "; ".join(str(int(x)) for x in xs) + "]" if len(xs) else "([::] : seq nat)"


def flist(xs):
    return "[:: " + "; ".join(common.flit(x) for x in xs) + "]" if len(xs) else "([::] : seq float)"


def coq_sx(node):
    s = node["s"]
    if s == "diag":
        return "(SDiag %s %d %s)" % (nlist(node["bs"]), node["n"], flist(node["d"]))
    if s == "ident":
        return "(SIdent float %s %d)" % (nlist(node["bs"]), node["n"])
    if s == "zero":
        return "(SZero float %s %d)" % (nlist(node["bs"]), node["n"])
    if s == "gen":
        rk = node["rk"]
        if rk[0] == "given":
            rks = "(RGiven %d %s)" % (rk[1], flist(rk[2]))
        elif rk[1] is None:
            rks = "(@RAuto float None)"
        else:
            rks = "(RAuto (Some (%d, %s)))" % (rk[1][0], flist(rk[1][1]))
        return "(SGen %s %d %s %s)" % (nlist(node["bs"]), node["n"], flist(node["A"]), rks)
    if s in ("blockdiag", "blockinter", "sumbatch"):
        ctor = {"blockdiag": "SBlockDiag", "blockinter": "SBlockInter", "sumbatch": "SSumBatch"}[s]
        return "(%s %s %d %s)" % (ctor, nlist(node["bs"]), node["nb"], coq_sx(node["c"]))
    if s == "interp":
        return "(SInterp %s %d %d %s %s %s %s %s)" % (nlist(node["bs"]), node["m"], node["q"], nlist(node["li"]),
                                                     flist(node["lv"]), nlist(node["ri"]), flist(node["rv"]), coq_sx(node["c"]))
    if s == "add":
        return "(SAdd %s %s)" % (coq_sx(node["l"]), coq_sx(node["r"]))
    raise ValueError(s)


def coq_case(st, k, node, opaque, zs, shapes, out_shape, samples, root, den, tol):
    return ("(MkCase (MkSett %s %d %s) %d %s %s %s %s %s %s %s %s %s)" % (
        common.coq_bool(st[0]), st[1], common.coq_bool(st[2]), k, coq_sx(node), common.coq_bool(opaque),
        "[:: " + "; ".join(flist(z) for z in zs) + "]" if zs else "([::] : seq (seq float))",
        "[:: " + "; ".join(nlist(s) for s in shapes) + "]" if shapes else "([::] : seq (seq nat))",
        nlist(out_shape), flist(samples),
        ("(Some %s)" % flist(root)) if root is not None else "None",
        flist(den), common.flit(tol)))


def shard_src(cases):
    return ("From mathcomp Require Import ssreflect ssrfun ssrbool eqtype ssrnat seq.\n"
            "From Coq Require Import PrimFloat.\nRequire Import C18.Model C18.Check.\n"
            "Definition cases : seq case := [::\n %s].\n"
            "Eval vm_compute in (bad_cases cases 0).\n" % ";\n ".join(cases))


def describe_node(node):
    s = node["s"]
    if s == "add":
        return "add(%s,%s)" % (describe_node(node["l"]), describe_node(node["r"]))
    if s in ("blockdiag", "blockinter", "sumbatch", "interp"):
        return "%s(%s)" % (s, describe_node(node["c"]))
    if s == "gen":
        return "gen:%s:%s" % (node.get("cls"), node.get("method"))
    return s


def coq_ciq_case(rule, tol):
    return "(MkCiq %d %d %d %s %s %s %s %s)" % (rule["Q"], rule["k"], rule["B"], flist(rule["w"]), flist(rule["sh"]),
                                               flist(rule["W"]), flist(rule["S"]), common.flit(tol))


def ciq_shard_src(cases):
    return ("From mathcomp Require Import ssreflect ssrfun ssrbool eqtype ssrnat seq.\n"
            "From Coq Require Import PrimFloat.\nRequire Import C18.Model C18.ModelBatch C18.Check.\n"
            "Definition cases : seq ciqcase := [::\n %s].\n"
            "Eval vm_compute in (bad_ciq cases 0).\n" % ";\n ".join(cases))
