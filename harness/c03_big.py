"""C03 — two input families that the generic grid cannot contain.

  stage_alias  index-ALIASING family: on the absorbed path (tensor indices in both matrix positions, optionally in a batch
               position) the index tensors are (a) the SAME tensor object, (b) differently-valued strided VIEWS of one shared
               buffer with equal data_ptr() and equal shape (pairs[:, 0] vs pairs[0, :]; base[0:2L:2] vs base[0:L]), also for the
               batch index; for every instance of the grid, through op[...] and through op._get_indices directly.  A class
               may decide "row index == column index" by identity / storage instead of by value.
  stage_large  LARGE-INDEX family: huge lazily-indexed operators (never densified) whose _get_indices / _getitem do index
               arithmetic, indexed just below / at / above block boundaries beyond 2**24 and 2**31; expected values come from
               the factors by exact Python-integer arithmetic, and the Kronecker / block / BatchRepeat cases are also evaluated
               by the Coq model over Z (shards klarge / blarge).
"""
import torch

from . import common, opbuild as ob, c03_lib as lib
from .common import zlit, zlist


def _same(a, b):
    return a.shape == b.shape and torch.equal(a.to(torch.float64), b.to(torch.float64))


def _run(f, dbg):
    from linear_operator import settings
    with settings.debug(dbg):
        try:
            r = f()
            if not torch.is_tensor(r):
                r = r.to_dense()
            return ("ok", r.detach())
        except Exception as ex:      # noqa
            return ("err", type(ex).__name__, str(ex)[:160])


def obs(r):
    if r[0] == "ok":
        return {"shape": list(r[1].shape), "data": [float(v) for v in r[1].reshape(-1).tolist()][:48]}
    return {"raises": r[1], "message": r[2]}


# ------------------------------------------------------------------------------------------ aliasing

def alias_indices(rng, variant, L, hi, nidx):
    """nidx index tensors of shape [L] with entries < hi.  variant: 'same' (one object), 'views_t' (column / row of one
    L x L buffer: equal data_ptr, different strides), 'views_s' (base[0:2L:2] and base[0:L]), 'fresh' (independent)"""
    if variant == "same":
        t = torch.tensor([rng.randrange(hi) for _ in range(L)], dtype=torch.long)
        return [t] * nidx
    if variant == "views_t":
        buf = torch.tensor([[rng.randrange(hi) for _ in range(L)] for _ in range(L)], dtype=torch.long)
        buf[0, 0] = buf[0, 0]
        vs = [buf[:, 0], buf[0, :], buf.diagonal()]
    elif variant == "views_s":
        base = torch.tensor([rng.randrange(hi) for _ in range(2 * L)], dtype=torch.long)
        vs = [base[0:2 * L:2], base[0:L], base[0:2 * L:2]]
    else:
        vs = [torch.tensor([rng.randrange(hi) for _ in range(L)], dtype=torch.long) for _ in range(3)]
    return vs[:nidx]


def stage_alias(ctx, rng, instances, c03):
    """c03: the harness module (reference / case_key / is_integral / rint are shared with the L4 stage)"""
    stats = {"alias_evaluations": 0, "alias_direct_failures": 0, "alias_instances": 0, "alias_unequal_view_cases": 0}
    seen = {}
    limit = 4 if ctx.quick else 40
    for tag, e in instances:
        shape = ob.shape_of(e)
        nd = len(shape)
        k = (e["cls"], nd)
        if seen.get(k, 0) >= limit or nd > 4:
            continue
        try:
            op = ob.build(e)
        except Exception:      # noqa
            continue
        ref = c03.reference(op, e, {})
        if ref is None:
            continue
        TD, dt = ref
        seen[k] = seen.get(k, 0) + 1
        stats["alias_instances"] += 1
        L = rng.choice([2, 3])
        for variant in ("same", "views_t", "views_s"):
            for with_batch in ([False, True] if nd >= 3 else [False]):
                nidx = 3 if with_batch else 2
                hi = min(shape[-2], shape[-1], shape[-3] if with_batch else 10 ** 9)
                if hi < 1:
                    continue
                ts = alias_indices(rng, variant, L, hi, nidx)
                row, col = ts[0], ts[1]
                if variant != "same" and not torch.equal(row, col):
                    stats["alias_unequal_view_cases"] += 1
                lead = [slice(None)] * (nd - 3) if with_batch else [Ellipsis]
                idx = tuple(lead + ([ts[2]] if with_batch else []) + [row, col])
                idx_clone = tuple(x.clone() if torch.is_tensor(x) else x for x in idx)
                exp = TD[idx_clone]
                for dbg in (True, False):
                    r = _run(lambda: op[idx], dbg)
                    stats["alias_evaluations"] += 1
                    ok = r[0] == "ok" and c03.is_integral(r[1]) and _same(c03.rint(r[1]), exp)
                    if ok:
                        continue
                    stats["alias_direct_failures"] += 1
                    fk = "value" if r[0] == "ok" and r[1].shape == exp.shape else ("shape" if r[0] == "ok" else "raise:" + r[1])
                    key = c03.case_key(e, "alias:%s%s" % (variant, "+batch" if with_batch else ""), fk, op="getitem-alias", debug=dbg)
                    ctx.violation({"kind": "aliased-index-differs-from-dense", "layer": "L4-alias", "expr": e, "variant": variant,
                                   "with_batch": with_batch, "L": L, "debug": dbg,
                                   "index_values": [x.tolist() if torch.is_tensor(x) else str(x) for x in idx],
                                   "observed": obs(r), "expected": obs(("ok", exp)), "describe": ob.describe(e),
                                   "note": "row / column (/ batch) index tensors are %s" % (
                                       "one tensor object" if variant == "same" else "views of one buffer with equal data_ptr()")}, key=key)
    return stats


def replay_alias(rp, c03):
    e = rp["expr"]
    op = ob.build(e)
    TD = c03.rint(op.to_dense())
    vals = rp["index_values"]
    tens = [v for v in vals if isinstance(v, list)]
    L = len(tens[0])
    if rp["variant"] == "same":
        t = torch.tensor(tens[-1], dtype=torch.long)
        vs = [t] * len(tens)
    elif rp["variant"] == "views_t":
        buf = torch.zeros(L, L, dtype=torch.long)
        # rebuild a buffer whose first column / first row / diagonal hold the recorded values (they agree at [0, 0])
        row, col = tens[-2], tens[-1]
        buf[:, 0] = torch.tensor(row)
        buf[0, :] = torch.tensor(col)
        buf[0, 0] = row[0]
        vs_rc = [buf[:, 0], buf[0, :]]
        vs = ([torch.tensor(tens[0], dtype=torch.long)] if len(tens) == 3 else []) + vs_rc
    else:
        row, col = tens[-2], tens[-1]
        base = torch.zeros(2 * L, dtype=torch.long)
        base[0:L] = torch.tensor(col)
        base[0:2 * L:2] = torch.tensor(row)
        vs_rc = [base[0:2 * L:2], base[0:L]]
        vs = ([torch.tensor(tens[0], dtype=torch.long)] if len(tens) == 3 else []) + vs_rc
    nd = TD.dim()
    lead = [slice(None)] * (nd - 3) if len(tens) == 3 else [Ellipsis]
    idx = tuple(lead + list(vs))
    exp = TD[tuple(x.clone() if torch.is_tensor(x) else x for x in idx)]
    r = _run(lambda: op[idx], bool(rp.get("debug")))
    ok = r[0] == "ok" and _same(c03.rint(r[1]), exp)
    print("expr:", ob.describe(e), "aliased index", rp["variant"], [x.tolist() if torch.is_tensor(x) else x for x in idx])
    print("observed:", obs(r))
    print("expected:", obs(("ok", exp)))
    print("property holds on this case" if ok else "property failure: aliased index tensors change the result")
    return 0 if ok else 1


# ------------------------------------------------------------------------------------------ large indices

def boundary_points(total, block, rng, count=6):
    """indices just below / at / above multiples of `block`, beyond 2**24 (and 2**31 when the dimension is that large)"""
    pts = set()
    for lim in (2 ** 24, 2 ** 31, 2 ** 32):
        if total <= lim:
            continue
        k0 = lim // block + 1
        for k in (k0, k0 + rng.randrange(1, 50), total // block - 1):
            for d in (-1, 0, 1, block // 2):
                x = k * block + d
                if 0 <= x < total:
                    pts.add(x)
    pts.add(total - 1)
    pts = sorted(pts)
    rng.shuffle(pts)
    return pts[:count] + [total - 1]


def stage_large(ctx, rng, jobs):
    import linear_operator.operators as O
    stats = {"large_evaluations": 0, "large_direct_failures": 0, "large_max_index": 0, "large_families": []}
    LT = lambda xs: torch.tensor(xs, dtype=torch.long)
    kcases, kmeta, bcases, bmeta = [], [], [], []

    def check(name, op, rows, cols, expected, batch=None, describe=None, recipe=None):
        """op[..] with tensor indices and op._get_indices directly against the exact integer oracle"""
        exp = torch.tensor(expected, dtype=torch.float64)
        stats["large_max_index"] = max([stats["large_max_index"]] + list(rows) + list(cols) + list(batch or []))
        if name not in stats["large_families"]:
            stats["large_families"].append(name)
        calls = [("getitem", lambda: op[(LT(batch), LT(rows), LT(cols)) if batch is not None else (LT(rows), LT(cols))]),
                 ("_get_indices", lambda: op._get_indices(LT(rows), LT(cols), *([LT(batch)] if batch is not None else [])))]
        observed = None
        for cname, f in calls:
            for dbg in (True, False):
                r = _run(f, dbg)
                stats["large_evaluations"] += 1
                if cname == "_get_indices" and r[0] == "ok" and observed is None:
                    observed = [int(round(float(v))) for v in r[1].reshape(-1).tolist()]
                if r[0] == "ok" and r[1].shape == exp.shape and torch.equal(r[1].to(torch.float64), exp):
                    continue
                stats["large_direct_failures"] += 1
                ctx.violation({"kind": "large-index-differs-from-exact", "layer": "L4-large", "family": name, "call": cname, "debug": dbg,
                               "recipe": recipe, "rows": list(rows), "cols": list(cols), "batch": batch,
                               "observed": obs(r), "expected": expected, "describe": describe or name},
                              key={"op": "large-index", "cls": name, "call": cname, "debug": dbg,
                                   "fail": "value" if r[0] == "ok" else "raise:" + r[1]})
        return observed

    # ---- Kronecker products of lazily represented factors (24 M and 4.9 G rows)
    for sizes, dense_last in (([4000, 3000], True), ([70000, 70000], False)):
        diags = [[rng.randint(1, 5) for _ in range(n)] for n in sizes]
        dmat = [[rng.randint(-3, 3) for _ in range(4)]] if dense_last else []
        ops = [O.DiagLinearOperator(torch.tensor(d, dtype=torch.float64)) for d in diags]
        if dense_last:
            ops.append(O.DenseLinearOperator(torch.tensor(dmat[0], dtype=torch.float64).reshape(2, 2)))
        allsizes = sizes + ([2] if dense_last else [])
        op = O.KroneckerProductLinearOperator(*ops)
        total = 1
        for n in allsizes:
            total *= n
        inner = total // allsizes[0]
        rows = boundary_points(total, inner, rng) + boundary_points(total, allsizes[-1], rng, 3)
        cols = [r if j % 3 else max(0, r - (j % 2)) for j, r in enumerate(rows)]          # mostly the diagonal, some neighbours

        def entry(r, c):
            v, fr, fc = 1, total, total
            for k, n in enumerate(allsizes):
                fr //= n
                fc //= n
                rr, cc = (r // fr) % n, (c // fc) % n
                if k < len(diags):
                    v *= diags[k][rr] if rr == cc else 0
                else:
                    v *= dmat[0][rr * 2 + cc]
            return v
        expected = [entry(r, c) for r, c in zip(rows, cols)]
        rc = {"kind": "kron", "sizes": allsizes, "diags": diags if max(sizes) <= 5000 else None, "dense": dmat}
        o = check("Kronecker(%s)" % "x".join(str(n) for n in allsizes), op, rows, cols, expected, recipe=rc)
        if max(sizes) <= 5000 and o is not None:
            fl = "[" + "; ".join("(%s, true, %s)" % (zlit(n), zlist(d)) for n, d in zip(sizes, diags)) + \
                 ("; (2, false, %s)" % zlist(dmat[0]) if dense_last else "") + "]"
            kcases.append("KLC %s %s %s" % (fl, lib.pairs_lit(list(zip(rows, cols))), zlist(o)))
            kmeta.append({"fn": "KroneckerProductLinearOperator._get_indices (large indices)", "sizes": allsizes, "rows": rows, "cols": cols, "observed": o})
    # ---- block operators over a constant-diagonal base: k blocks of size m, k * m > 2**24
    for kind, cls in ((0, O.BlockDiagLinearOperator), (1, O.BlockInterleavedLinearOperator)):
        k, m = 7, 2 ** 22 + 5
        c = [rng.randint(1, 6) for _ in range(k)]
        base = O.ConstantDiagLinearOperator(torch.tensor(c, dtype=torch.float64).unsqueeze(-1), diag_shape=m)
        op = cls(base)
        total = k * m
        rows = boundary_points(total, m if kind == 0 else k, rng)
        cols = [r if j % 3 else max(0, r - 1) for j, r in enumerate(rows)]
        if kind == 0:
            expected = [(c[r // m] if (r // m == cc // m and r % m == cc % m) else 0) for r, cc in zip(rows, cols)]
        else:
            expected = [(c[r % k] if (r % k == cc % k and r // k == cc // k) else 0) for r, cc in zip(rows, cols)]
        o = check("%s(ConstantDiag %dx%d)" % (cls.__name__.replace("LinearOperator", ""), k, m), op, rows, cols, expected)
        if o is not None:
            bcases.append("BLC %d%%nat %s %s %s %s" % (kind, zlit(m), zlist(c), lib.pairs_lit(list(zip(rows, cols))), zlist(o)))
            bmeta.append({"fn": cls.__name__ + "._get_indices (large indices)", "k": k, "m": m, "rows": rows, "cols": cols, "observed": o})
    # ---- BatchRepeat of a constant-diagonal base: batch of 5 repeated 4 M times
    size, rep = 5, 2 ** 22 + 3
    c = [rng.randint(1, 6) for _ in range(size)]
    base = O.ConstantDiagLinearOperator(torch.tensor(c, dtype=torch.float64).unsqueeze(-1), diag_shape=3)
    op = O.BatchRepeatLinearOperator(base, batch_repeat=torch.Size([rep]))
    bidx = boundary_points(size * rep, size, rng)
    rows = [j % 3 for j in range(len(bidx))]
    expected = [c[b % size] for b in bidx]
    o = check("BatchRepeat(ConstantDiag[5] x %d)" % rep, op, rows, rows, expected, batch=bidx)
    if o is not None:
        bcases.append("BLC 2%%nat 3 %s %s %s" % (zlist(c), lib.pairs_lit([(b, 0) for b in bidx]), zlist(o)))
        bmeta.append({"fn": "BatchRepeatLinearOperator._get_indices (large batch indices)", "batch": bidx, "observed": o})
    # ---- Toeplitz with a long column (float32: every value is a small integer)
    try:
        n = 2 ** 24 + 40
        col = ((torch.arange(n, dtype=torch.int64) % 11) - 3).to(torch.float32)    # (a float32 arange is not exact beyond 2**24)
        op = O.ToeplitzLinearOperator(col)
        rows = [n - 1, n - 2, 2 ** 24 + 1, 0, 5, 2 ** 24 + 7]
        cols = [0, n - 1, 3, n - 1, 2 ** 24 + 9, 2 ** 24 + 7]
        expected = [float((abs(r - cc) % 11) - 3) for r, cc in zip(rows, cols)]
        check("Toeplitz(column %d)" % n, op, rows, cols, expected)
        del op, col
    except MemoryError:
        stats["large_toeplitz_skipped"] = True
    # ---- Interpolated over a huge Kronecker base: interpolation indices beyond 2**24
    diags = [[rng.randint(1, 5) for _ in range(n)] for n in (4000, 5000)]
    kb = O.KroneckerProductLinearOperator(*[O.DiagLinearOperator(torch.tensor(d, dtype=torch.float64)) for d in diags])
    pts = boundary_points(4000 * 5000, 5000, rng, 4)
    li = LT([[p, max(0, p - 1)] for p in pts])
    lv = torch.tensor([[rng.randint(1, 3), rng.randint(1, 3)] for _ in pts], dtype=torch.float64)
    op = O.InterpolatedLinearOperator(kb, li, lv, li, lv)
    kd = lambda x: diags[0][x // 5000] * diags[1][x % 5000]
    rows = list(range(len(pts)))
    cols = list(reversed(rows))
    expected = []
    for r, cc in zip(rows, cols):
        s = 0
        for a in range(2):
            for b in range(2):
                x, y = int(li[r, a]), int(li[cc, b])
                s += float(lv[r, a]) * float(lv[cc, b]) * (kd(x) if x == y else 0)
        expected.append(s)
    check("Interpolated(Kronecker 4000x5000)", op, rows, cols, expected)
    # ---- Cat of many small pieces (many components rather than large indices: the table itself is dense)
    pieces = [[rng.randint(1, 5) for _ in range(3)] for _ in range(300)]
    op = O.CatLinearOperator(*[O.DiagLinearOperator(torch.tensor(p, dtype=torch.float64)) for p in pieces], dim=-2)
    rows = [0, 2, 3, 448, 449, 450, 897, 898, 899]
    cols = [r % 3 for r in rows]
    expected = [float(pieces[r // 3][r % 3]) for r in rows]
    check("Cat(300 x Diag 3)", op, rows, cols, expected)

    jobs.bad("L3klarge", lib.mk_shards("l3klarge", "klarge_case", kcases, "bad_klarge"),
             lambda bad, meta=kmeta: lib.report_lib(ctx, bad, meta, "kron_get_indices over Z at large indices"))
    jobs.bad("L3blarge", lib.mk_shards("l3blarge", "blarge_case", bcases, "bad_blarge"),
             lambda bad, meta=bmeta: lib.report_lib(ctx, bad, meta, "blockdiag / blockinterleaved / batchrepeat arithmetic over Z at large indices"))
    stats["large_coq_cases"] = len(kcases) + len(bcases)
    return stats


def replay_large(rp):
    import linear_operator.operators as O
    rc = rp.get("recipe")
    if not rc or rc.get("kind") != "kron" or not rc.get("diags"):
        print("replay: the large-index case is described by", {k: rp.get(k) for k in ("family", "call", "rows", "cols", "batch", "expected", "observed")})
        return 1
    ops = [O.DiagLinearOperator(torch.tensor(d, dtype=torch.float64)) for d in rc["diags"]]
    for dm in rc.get("dense") or []:
        ops.append(O.DenseLinearOperator(torch.tensor(dm, dtype=torch.float64).reshape(2, 2)))
    op = O.KroneckerProductLinearOperator(*ops)
    LT = lambda xs: torch.tensor(xs, dtype=torch.long)
    f = (lambda: op[LT(rp["rows"]), LT(rp["cols"])]) if rp["call"] == "getitem" else (lambda: op._get_indices(LT(rp["rows"]), LT(rp["cols"])))
    r = _run(f, bool(rp.get("debug")))
    exp = torch.tensor(rp["expected"], dtype=torch.float64)
    ok = r[0] == "ok" and r[1].shape == exp.shape and torch.equal(r[1].to(torch.float64), exp)
    print("Kronecker", rc["sizes"], rp["call"], "rows", rp["rows"], "cols", rp["cols"])
    print("observed:", obs(r))
    print("expected (exact integer arithmetic on the factors):", rp["expected"])
    print("property holds on this case" if ok else "property failure: value")
    return 0 if ok else 1


# ------------------------------------------------------------------------------------------ probes of defects found by reading

def _kernel_covar(x1, x2, **kw):
    w = torch.tensor([1.0, 2.0]).unsqueeze(-1) * torch.tensor([1.0, 10.0, 100.0]).unsqueeze(0)
    return torch.kron(x1 @ x2.mT, w)


def probe(name):
    """-> (observed, expected) for one of the three hand-confirmed defects of HEAD 6cde240 (known findings C03-diag-float32-large-index,
    C03-kernel-multi-output-col-index, C03-kron-diagonal-nonsquare-factors); each is a cheap, fixed input"""
    import linear_operator.operators as O
    if name == "diag-float32-large-index":
        n = 2 ** 24 + 8
        op = O.DiagLinearOperator(torch.full((n,), 2.0, dtype=torch.float32))
        r = _run(lambda: op[torch.tensor([16777217, 5]), torch.tensor([16777216, 5])], False)
        return r, torch.tensor([0.0, 2.0])
    if name == "kernel-multi-output-col-index":
        x1 = torch.tensor([[1.0, 0.0], [0.0, 1.0], [1.0, 1.0]])
        x2 = torch.tensor([[1.0, 2.0], [3.0, 4.0], [5.0, 6.0], [7.0, 8.0]])
        op = O.KernelLinearOperator(x1, x2, covar_func=_kernel_covar, num_outputs_per_input=(2, 3))
        rows, cols = torch.tensor([0, 1, 4, 5, 3]), torch.tensor([0, 5, 7, 11, 9])
        return _run(lambda: op[rows, cols], False), _kernel_covar(x1, x2)[rows, cols]
    if name == "kron-diagonal-nonsquare-factors":
        A, B = torch.arange(6.0).reshape(2, 3), torch.arange(6.0).reshape(3, 2) + 1
        op = O.KroneckerProductLinearOperator(O.DenseLinearOperator(A), O.DenseLinearOperator(B))
        return _run(lambda: op.diagonal(), False), torch.kron(A, B).diagonal()
    raise ValueError(name)


PROBES = ("diag-float32-large-index", "kernel-multi-output-col-index", "kron-diagonal-nonsquare-factors")


def stage_probes(ctx):
    stats = {"probe_failures": []}
    for name in PROBES:
        try:
            r, exp = probe(name)
        except MemoryError:
            continue
        ok = r[0] == "ok" and r[1].shape == exp.shape and torch.equal(r[1].to(torch.float64), exp.to(torch.float64))
        if ok:
            continue
        stats["probe_failures"].append(name)
        ctx.violation({"kind": "probe-differs-from-dense", "layer": "L4-probe", "probe": name, "observed": obs(r),
                       "expected": [float(v) for v in exp.reshape(-1).tolist()]}, key={"op": "probe", "probe": name})
    return stats


def replay_probe(rp):
    r, exp = probe(rp["probe"])
    ok = r[0] == "ok" and r[1].shape == exp.shape and torch.equal(r[1].to(torch.float64), exp.to(torch.float64))
    print("probe:", rp["probe"])
    print("observed:", obs(r))
    print("expected:", [float(v) for v in exp.reshape(-1).tolist()])
    print("property holds on this case" if ok else "property failure")
    return 0 if ok else 1
