"""C10 helpers, part 2: linear_operator/utils/permutation.py (apply_permutation / inverse_permutation) cases
for the correspondence, the routing of PivotedCholesky.backward (gradient of the factor against plain-torch
autograd of the defining formula), and the _solve_preconditioner / preconditioner_override fall-backs.
Oracles use plain torch / python loops only."""
import random
import warnings

import torch

from . import c10_gen as G

DT = G.DT
BATCHES = [(), (1,), (2,), (3,), (2, 2)]
PERM_TOL = 1e-12


def nbatch(bs):
    k = 1
    for b in bs:
        k *= b
    return k


# ------------------------------------------------------------------------------------------------
# apply_permutation / inverse_permutation

def _perm_of_kind(rng, kind, size):
    """-> list or None; kinds: none, full (a permutation), partial (distinct subset, any order), single"""
    if kind == "none":
        return None
    if kind == "full":
        p = list(range(size))
        rng.shuffle(p)
        return p
    if kind == "partial":
        k = max(1, (size + 1) // 2)
        return rng.sample(range(size), k)
    if kind == "single":
        return [rng.randrange(size)]
    raise ValueError(kind)


def perm_grid(ctx):
    rng = random.Random(ctx.seed * 15485863 + 3)
    cases = []
    cnt = 0
    shapes = [(1, 1), (2, 2), (3, 3), (5, 5), (4, 2), (2, 5)]
    kinds = [("full", "none"), ("none", "full"), ("full", "full"), ("full", "partial"), ("partial", "partial"),
             ("single", "none"), ("partial", "none"), ("none", "single"), ("none", "none")]
    for (nr, nc) in shapes:
        for bs in BATCHES:
            for (lk, rk) in kinds:
                srcs = ["tensor", "Dense"] + (["Sum", "Toeplitz"] if nr == nc else ["Matmul"])
                src = srcs[cnt % len(srcs)]
                # how the permutation vectors are batched: per member, or one vector broadcast over the batch
                pb = ["member", "member", "shared"][cnt % 3] if bs else "member"
                cases.append({"kind": "perm", "nr": nr, "nc": nc, "batch": list(bs), "left": lk, "right": rk,
                              "src": src, "pbatch": pb, "vseed": rng.randrange(1 << 30)})
                cnt += 1
    # inverse_permutation
    for n in (1, 2, 3, 5, 8):
        for bs in BATCHES:
            cases.append({"kind": "inv", "n": n, "batch": list(bs), "vseed": rng.randrange(1 << 30)})
    return cases


def materialise_perm(case):
    rng = random.Random(case["vseed"])
    nb = nbatch(case["batch"])
    if case["kind"] == "inv":
        perms = []
        for _ in range(nb):
            p = list(range(case["n"]))
            rng.shuffle(p)
            perms.append(p)
        return {"perms": perms}
    nr, nc = case["nr"], case["nc"]
    Ms, metas = [], []
    for b in range(nb):
        if case["src"] == "Toeplitz":
            c = [rng.randint(-16, 16) / 8 for _ in range(nr)]
            M = torch.tensor([[c[abs(i - j)] for j in range(nc)] for i in range(nr)], dtype=DT).reshape(nr, nc)
            metas.append({"col": c})
        elif case["src"] == "Matmul":
            A = torch.tensor([[rng.randint(-8, 8) / 4 for _ in range(2)] for _ in range(nr)], dtype=DT).reshape(nr, 2)
            B = torch.tensor([[rng.randint(-8, 8) / 4 for _ in range(nc)] for _ in range(2)], dtype=DT).reshape(2, nc)
            M = A @ B
            metas.append({"A": A, "B": B})
        else:
            M = torch.tensor([[rng.randint(-64, 64) / 8 for _ in range(nc)] for _ in range(nr)], dtype=DT).reshape(nr, nc)
            metas.append({})
        Ms.append(M)
    shared = case["pbatch"] == "shared"
    lefts, rights = [], []
    l0 = _perm_of_kind(rng, case["left"], nr)
    r0 = _perm_of_kind(rng, case["right"], nc)
    for b in range(nb):
        if shared or b == 0:
            lefts.append(l0)
            rights.append(r0)
        else:
            # same length in every member (a tensor), different entries
            l = None if l0 is None else (_perm_of_kind(rng, case["left"], nr))
            r = None if r0 is None else (_perm_of_kind(rng, case["right"], nc))
            lefts.append(l)
            rights.append(r)
    return {"Ms": Ms, "metas": metas, "lefts": lefts, "rights": rights}


def _stack(ts, bs):
    return G._stack(ts, bs)


def run_perm(case, mat):
    from linear_operator.utils.permutation import apply_permutation, inverse_permutation
    import linear_operator.operators as O
    bs = tuple(case["batch"])
    nb = nbatch(bs)
    try:
        with warnings.catch_warnings():
            warnings.simplefilter("ignore")
            if case["kind"] == "inv":
                n = case["n"]
                p = torch.tensor(mat["perms"], dtype=torch.long).reshape(*bs, n)
                p0 = p.clone()
                res = inverse_permutation(p)
                ok = tuple(res.shape) == bs + (n,) and res.dtype == torch.long and torch.equal(p, p0)
                return {"raised": None, "shape_ok": ok, "res": res.reshape(-1, n).tolist()}
            nr, nc = case["nr"], case["nc"]
            Mt = _stack(mat["Ms"], bs)
            src = case["src"]
            if src == "tensor":
                obj = Mt
            elif src == "Dense":
                obj = O.DenseLinearOperator(Mt)
            elif src == "Sum":
                obj = O.DenseLinearOperator(Mt * 0.25) + O.DenseLinearOperator(Mt * 0.75)
            elif src == "Toeplitz":
                obj = O.ToeplitzLinearOperator(_stack([torch.tensor(m["col"], dtype=DT) for m in mat["metas"]], bs))
            elif src == "Matmul":
                obj = O.MatmulLinearOperator(O.DenseLinearOperator(_stack([m["A"] for m in mat["metas"]], bs)),
                                             O.DenseLinearOperator(_stack([m["B"] for m in mat["metas"]], bs)))
            else:
                raise ValueError(src)

            def tens(ps):
                if ps[0] is None:
                    return None
                if case["pbatch"] == "shared":
                    return torch.tensor(ps[0], dtype=torch.long)
                return torch.tensor(ps, dtype=torch.long).reshape(*bs, len(ps[0]))
            lt, rt = tens(mat["lefts"]), tens(mat["rights"])
            res = apply_permutation(obj, lt, rt)
            kl = nr if lt is None else lt.shape[-1]
            kr = nc if rt is None else rt.shape[-1]
            ok = torch.is_tensor(res) and tuple(res.shape) == bs + (kl, kr) and res.dtype == DT
            if not ok:
                return {"raised": None, "shape_ok": False, "shape": list(res.shape) if torch.is_tensor(res) else str(type(res))}
            return {"raised": None, "shape_ok": True, "res": res.reshape(nb, kl, kr).tolist()}
    except Exception as ex:
        return {"raised": type(ex).__name__, "msg": str(ex)[:300]}


def perm_direct(case, mat, obs):
    """oracle: python loops"""
    if obs["raised"] is not None:
        return [("raises", "%s raised %s: %s" % ("inverse_permutation" if case["kind"] == "inv" else "apply_permutation",
                                                  obs["raised"], obs.get("msg", "")))]
    if not obs["shape_ok"]:
        return [("shape", "result shape / dtype wrong (or the argument was modified): %s" % obs.get("shape"))]
    fails = []
    if case["kind"] == "inv":
        for b, p in enumerate(mat["perms"]):
            inv = obs["res"][b]
            if any(inv[p[i]] != i for i in range(len(p))):
                fails.append(("inverse", "member %d: inverse_permutation(%s) = %s is not the inverse" % (b, p, inv)))
        return fails
    nr, nc = case["nr"], case["nc"]
    for b, M in enumerate(mat["Ms"]):
        l = mat["lefts"][b] if mat["lefts"][b] is not None else list(range(nr))
        r = mat["rights"][b] if mat["rights"][b] is not None else list(range(nc))
        exp = torch.tensor([[M[i, j].item() for j in r] for i in l], dtype=DT).reshape(len(l), len(r))
        got = torch.tensor(obs["res"][b], dtype=DT).reshape(len(l), len(r))
        # indexing copies entries exactly; only to_dense() of a structured operator (Toeplitz: FFT) rounds
        if not (got - exp).abs().max().item() <= PERM_TOL * max(1.0, exp.abs().max().item()):
            fails.append(("entries", "member %d: apply_permutation result differs from M[left][:, right]" % b))
    return fails


def perm_key(case, what):
    return {"api": "inverse_permutation" if case["kind"] == "inv" else "apply_permutation",
            "src": case.get("src"), "batched": len(case["batch"]) > 0, "fail": what}


def perm_lits(case, mat, obs, fl, nats):
    """one Coq literal per batch member"""
    def fmat(M):
        return "[:: " + "; ".join("[:: " + "; ".join(fl(x) for x in row) + "]" for row in M) + "]"

    def opt(p):
        return "None" if p is None else "(Some %s)" % nats(p)
    lits = []
    if case["kind"] == "inv":
        for b, p in enumerate(mat["perms"]):
            lits.append("CaseInv %s %s" % (nats(p), nats(obs["res"][b])))
        return lits
    for b, M in enumerate(mat["Ms"]):
        lits.append("CasePerm %d %d %s %s %s %s %s" % (case["nr"], case["nc"], fmat(M.tolist()), opt(mat["lefts"][b]),
                                                       opt(mat["rights"][b]), fl(PERM_TOL), fmat(obs["res"][b])))
    return lits


# ------------------------------------------------------------------------------------------------
# PivotedCholesky.backward: the gradient of <W, L> w.r.t. the entries of K must be the gradient of
# <W, K[:, piv] chol(K[piv, piv])^{-T}> (what the forward pass computes, C10_backward_recomputes_forward)

def bw_grid(ctx):
    rng = random.Random(ctx.seed * 32452843 + 11)
    cases = []
    cnt = 0
    for fam in ("full", "toeplitz", "tied_kernel", "scaled"):
        for n in ((2, 3, 5) if ctx.quick else (2, 3, 4, 5, 6, 8)):
            for bs in BATCHES:
                if ctx.quick and bs in ((1,), (2, 2)) and cnt % 2:
                    cnt += 1
                    continue
                rank = [1, max(1, n // 2), n - 1 if n > 1 else 1, n][cnt % 4]
                cases.append({"kind": "bw", "fam": fam, "n": n, "batch": list(bs), "rank": rank,
                              "cls": ["Dense", "Sum"][cnt % 2], "vseed": rng.randrange(1 << 30)})
                cnt += 1
    return cases


def materialise_bw(case):
    rng = random.Random(case["vseed"])
    nb = nbatch(case["batch"])
    Ks = [G.FAMILIES[case["fam"]](rng, case["n"])[0] for _ in range(nb)]
    W = [[[rng.randint(-8, 8) / 4 for _ in range(case["rank"])] for _ in range(case["n"])] for _ in range(nb)]
    return Ks, W


def run_bw(case, Ks, W):
    import linear_operator.operators as O
    bs = tuple(case["batch"])
    n, rank = case["n"], case["rank"]
    nb = len(Ks)
    try:
        with warnings.catch_warnings():
            warnings.simplefilter("ignore")
            Kt = _stack(Ks, bs).requires_grad_(True)
            if case["cls"] == "Dense":
                op = O.DenseLinearOperator(Kt)
            else:
                op = O.DenseLinearOperator(Kt * 0.25) + O.DenseLinearOperator(Kt * 0.75)
            L, piv = op.pivoted_cholesky(rank, error_tol=1e-12, return_pivots=True)
            r = L.shape[-1]
            Wt = torch.tensor(W, dtype=DT)[..., :r].reshape(*bs, n, r)
            (L * Wt).sum().backward()
            g = Kt.grad.reshape(nb, n, n).clone()
            return {"raised": None, "r": r, "perm": piv.reshape(nb, n).tolist(), "L": L.detach().reshape(nb, n, r), "grad": g}
    except Exception as ex:
        return {"raised": type(ex).__name__, "msg": str(ex)[:300]}


def bw_direct(case, Ks, W, obs, rtol=1e-7):
    if obs["raised"] is not None:
        return [("backward", "gradient through pivoted_cholesky raised %s: %s" % (obs["raised"], obs.get("msg", "")))]
    fails = []
    n, r = case["n"], obs["r"]
    for b, K in enumerate(Ks):
        if sorted(obs["perm"][b]) != list(range(n)):
            fails.append(("backward", "member %d: the returned pivots %s are not a permutation" % (b, obs["perm"][b])))
            continue
        piv = obs["perm"][b][:r]
        Kq = K.clone().requires_grad_(True)
        try:
            C = torch.linalg.cholesky(Kq[piv][:, piv])
        except Exception:
            fails.append(("backward", "member %d: K[piv, piv] is not positive definite for the returned pivots %s" % (b, piv)))
            continue
        Lr = torch.linalg.solve_triangular(C, Kq[:, piv].mT, upper=False).mT
        Wt = torch.tensor(W[b], dtype=DT)[:, :r]
        (Lr * Wt).sum().backward()
        cond = float(torch.linalg.cond(K[piv][:, piv]))
        scale = max(1.0, Kq.grad.abs().max().item())
        dL = (Lr.detach() - obs["L"][b]).abs().max().item()
        if dL > rtol * max(1.0, cond) * max(1.0, obs["L"][b].abs().max().item()):
            fails.append(("backward", "member %d: the factor is not K[:, piv] chol(K[piv, piv])^-T (max deviation %.3e)" % (b, dL)))
            continue
        # K is symmetric: only the gradient along symmetric perturbations is defined by the property
        # (cholesky's autograd symmetrises, the solve route does not) -> compare G + G^T
        gr = Kq.grad + Kq.grad.T
        gi = obs["grad"][b] + obs["grad"][b].T
        scale = max(1.0, gr.abs().max().item())
        dg = (gr - gi).abs().max().item()
        if not dg <= rtol * max(1.0, cond) * scale:
            fails.append(("backward", "member %d: gradient through PivotedCholesky.backward differs from autograd of "
                                      "K[:, piv] chol(K[piv, piv])^-T by %.3e (scale %.3e, cond %.2e)" % (b, dg, scale, cond)))
    return fails


def bw_key(case, what):
    return {"api": "pivoted_cholesky.backward", "cls": case["cls"], "fam": case["fam"], "batched": len(case["batch"]) > 0, "fail": what}
