"""C02 generators: canonical, *sanitised* operator expressions per class (opbuild JSON format).

opbuild.gen draws random children (Zero, Permutation ...) which drag the known defects of OTHER properties
(C01: Zero children, float32-only permutations) into half of all composites.  (Chol(upper=True) was excluded too while its
orientation was a C01 finding; it is repaired at HEAD and both orientations are generated again.)  C02 needs operands
whose own dense meaning is not in doubt, so every composite here has children from a fixed safe set; the seed only picks
the integer values.

  inst(rng, cls, batch, n, psd=False, rect=None) -> expression of class `cls`, batch shape `batch`, matrix size n x n
                                                    (rect=(m, n): m x n where the class allows it)
"""
import math

import torch

from . import opbuild as ob

ALL = list(ob.ALL)

SQUARE_ONLY = set(ob.SQUARE_ONLY)
F32_ONLY = {"Permutation", "TransposePermutation"}          # classes that hard-code float32 (C01 finding)
NO_BATCH = {"TransposePermutation"}
RECT_OK = [c for c in ALL if c not in SQUARE_ONLY and c not in ("BlockDiag",)]
PSD_OK = ["Dense", "Diag", "ConstantDiag", "Identity", "Toeplitz", "Chol", "Root", "LowRankRoot", "Kron", "KronDiag",
          "KronAddedDiag", "SumKron", "AddedDiag", "LowRankRootAddedDiag", "Sum", "PsdSum", "ConstantMul", "BlockDiag",
          "BlockInterleaved", "SumBatch", "BatchRepeat", "Mul", "Matmul", "Interpolated", "Kernel", "UserMinimal"]


def _dense(rng, batch, m, n, lo=-3, hi=3):
    return {"cls": "Dense", "t": ob.rand_t(rng, list(batch) + [m, n], lo, hi)}


def _psd_dense(rng, batch, n):
    return {"cls": "Dense", "t": ob.psd_int(rng, list(batch), n)}


def _tri(rng, batch, n, upper):
    t = ob.tt(ob.rand_t(rng, list(batch) + [n, n], -2, 2))
    t = torch.triu(t) if upper else torch.tril(t)
    dg = ob.tt(ob.rand_t(rng, list(batch) + [n], 1, 3))
    t = t - torch.diag_embed(torch.diagonal(t, dim1=-2, dim2=-1)) + torch.diag_embed(dg)
    return {"cls": "Triangular", "t": ob.from_torch(t), "upper": upper}


def _diag(rng, batch, n, pos=False):
    return {"cls": "Diag", "d": ob.rand_t(rng, list(batch) + [n], 1, 4) if pos else ob.rand_t(rng, list(batch) + [n], -3, 3, nonzero=True)}


def _cdiag(rng, batch, n, pos=False):
    return {"cls": "ConstantDiag", "c": ob.rand_t(rng, list(batch) + [1], 1, 4) if pos else ob.rand_t(rng, list(batch) + [1], -3, 3, nonzero=True), "n": n}


def _root(rng, batch, n, r, cls="Root", full=False):
    root = ob.tt(ob.rand_t(rng, list(batch) + [n, r], -2, 2))
    if full:
        # full rank: every other draw a SQUARE, NON-TRIANGULAR integer root (its root and inverse root are different matrices, so
        # that caches handed from one operator to another are distinguishable); else lower triangular with positive diagonal
        general = bool(rng.getrandbits(1)) and n == r
        if general:
            for _ in range(20):
                if bool((torch.linalg.det(root).abs() >= 0.5).all()) and not bool((torch.tril(root) == root).all()):
                    break
                root = ob.tt(ob.rand_t(rng, list(batch) + [n, r], -2, 2))
            else:
                general = False
        if not general:
            root = torch.tril(root)
            root = root - torch.diag_embed(torch.diagonal(root, dim1=-2, dim2=-1)) + torch.diag_embed(ob.tt(ob.rand_t(rng, list(batch) + [n], 1, 3)))
    return {"cls": cls, "root": ob.from_torch(root)}


def general_root(rng, batch, n):
    """RootLinearOperator over a square full-rank root that is NOT triangular (positive definite R R^T)"""
    for _ in range(50):
        root = ob.tt(ob.rand_t(rng, list(batch) + [n, n], -2, 2))
        if bool((torch.linalg.det(root).abs() >= 0.5).all()) and not bool((torch.tril(root) == root).all()) \
                and not bool((torch.triu(root) == root).all()):
            return {"cls": "Root", "root": ob.from_torch(root)}
    return _root(rng, batch, n, n, "Root", full=True)


def _toeplitz(rng, batch, n, psd):
    col = ob.tt(ob.rand_t(rng, list(batch) + [n], -2, 2))
    if psd:
        flat = col.reshape(-1, n)
        flat[:, 0] = flat[:, 1:].abs().sum(-1) * 2 + 2
        col = flat.reshape(list(batch) + [n])
    return {"cls": "Toeplitz", "col": ob.from_torch(col)}


def inst(rng, cls, batch=(), n=4, psd=False, rect=None):
    """canonical expression of class cls.  n must be even and >= 4 for the Kronecker / block classes (n = 4 default)."""
    batch = list(batch)
    m, nn = (rect if (rect and cls in RECT_OK) else (n, n))
    h = max(1, n // 2)
    if cls == "Dense":
        return _psd_dense(rng, batch, n) if psd else _dense(rng, batch, m, nn)
    if cls == "UserMinimal":
        e = _psd_dense(rng, batch, n) if psd else _dense(rng, batch, m, nn)
        return {"cls": "UserMinimal", "t": e["t"]}
    if cls == "Diag":
        return _diag(rng, batch, n, pos=psd)
    if cls == "ConstantDiag":
        return _cdiag(rng, batch, n, pos=psd)
    if cls == "Identity":
        return {"cls": "Identity", "n": n, "batch": batch}
    if cls == "Zero":
        return {"cls": "Zero", "shape": batch + [m, nn]}
    if cls == "Toeplitz":
        return _toeplitz(rng, batch, n, psd)
    if cls == "Triangular":
        return _tri(rng, batch, n, bool(rng.getrandbits(1)))
    if cls == "Chol":
        up = bool(rng.getrandbits(1))             # both orientations: L L^T and R^T R
        t = _tri(rng, batch, n, up)
        return {"cls": "Chol", "t": t["t"], "upper": up}
    if cls == "Root":
        return _root(rng, batch, n, n if psd else max(1, n - 1), "Root", full=psd)
    if cls == "LowRankRoot":
        return _root(rng, batch, n, n if psd else max(1, n - 2), "LowRankRoot", full=psd)
    if cls == "Permutation":
        perms = []
        for _ in range(int(math.prod(batch)) if batch else 1):
            p = list(range(n))
            rng.shuffle(p)
            perms += p
        return {"cls": "Permutation", "perm": {"shape": batch + [n], "data": perms, "long": True}}
    if cls == "TransposePermutation":
        return {"cls": "TransposePermutation", "m": max(1, int(round(math.sqrt(n))))}
    if cls == "Kernel":
        x1 = ob.rand_t(rng, batch + [m, 2], -2, 2)
        if psd:
            return {"cls": "Kernel", "x1": x1, "x2": x1, "square": False, "c": None}
        return {"cls": "Kernel", "x1": x1, "x2": ob.rand_t(rng, batch + [nn, 2], -2, 2), "square": bool(rng.getrandbits(1)), "c": None}
    if cls == "Kron":
        if psd or not rect:
            return {"cls": "Kron", "ops": [(_psd_dense(rng, batch, 2) if psd else _dense(rng, batch, 2, 2)),
                                           (_psd_dense(rng, batch, h) if psd else _dense(rng, batch, h, h))]}
        return {"cls": "Kron", "ops": [_dense(rng, batch, 1 if m % 2 else 2, 1 if nn % 2 else 2),
                                       _dense(rng, batch, m if m % 2 else m // 2, nn if nn % 2 else nn // 2)]}
    if cls == "KronTriangular":
        up = bool(rng.getrandbits(1))
        return {"cls": cls, "ops": [_tri(rng, batch, 2, up), _tri(rng, batch, h, up)], "upper": up}
    if cls == "KronDiag":
        return {"cls": cls, "ops": [_diag(rng, batch, 2, pos=psd), _diag(rng, batch, h, pos=psd)]}
    if cls == "KronAddedDiag":
        kron = {"cls": "Kron", "ops": [_psd_dense(rng, batch, 2), _psd_dense(rng, batch, h)]}
        diag = _cdiag(rng, batch, n, pos=True) if rng.getrandbits(1) else _diag(rng, batch, n, pos=True)
        return {"cls": cls, "kron": kron, "diag": diag}
    if cls == "SumKron":
        k = lambda: {"cls": "Kron", "ops": [_psd_dense(rng, batch, 2), _psd_dense(rng, batch, h)]}
        return {"cls": cls, "a": k(), "b": k()}
    if cls == "AddedDiag":
        base = _psd_dense(rng, batch, n) if psd else rng.choice([_dense(rng, batch, n, n), _toeplitz(rng, batch, n, False)])
        diag = _diag(rng, batch, n, pos=True) if rng.getrandbits(1) else _cdiag(rng, batch, n, pos=True)
        return {"cls": cls, "base": base, "diag": diag}
    if cls == "LowRankRootAddedDiag":
        return {"cls": cls, "root": _root(rng, batch, n, max(1, n - 2), "LowRankRoot"),
                "diag": _diag(rng, batch, n, pos=True) if rng.getrandbits(1) else _cdiag(rng, batch, n, pos=True)}
    if cls in ("Sum", "PsdSum"):
        if psd or cls == "PsdSum":
            return {"cls": cls, "ops": [_psd_dense(rng, batch, n), _root(rng, batch, n, n - 1)]}
        ops = [_dense(rng, batch, m, nn), _dense(rng, batch, m, nn)] if (m != nn) else [_dense(rng, batch, n, n), _toeplitz(rng, batch, n, False)]
        return {"cls": cls, "ops": ops}
    if cls == "Matmul":
        if psd:
            d = _dense(rng, batch, n, n)
            # A A^T + I written as a product is not available: use (A)(A^T) with A square nonsingular-ish lower triangular
            t = _tri(rng, batch, n, False)
            tt_ = ob.tt(t["t"])
            return {"cls": cls, "l": {"cls": "Dense", "t": t["t"]}, "r": {"cls": "Dense", "t": ob.from_torch(tt_.mT)}}
        k = rng.choice([2, 3])
        return {"cls": cls, "l": _dense(rng, batch, m, k, -2, 2), "r": _dense(rng, batch, k, nn, -2, 2)}
    if cls == "Mul":
        return {"cls": cls, "l": _root(rng, batch, n, n, full=True), "r": _root(rng, batch, n, n, full=True)}
    if cls == "ConstantMul":
        base = _psd_dense(rng, batch, n) if psd else _dense(rng, batch, m, nn)
        cshape = rng.choice([[], batch]) if batch else []
        return {"cls": cls, "base": base, "c": ob.rand_t(rng, cshape, 1, 3) if psd else ob.rand_t(rng, cshape, -3, 3, nonzero=True)}
    if cls == "BlockDiag":
        return {"cls": cls, "base": _psd_dense(rng, batch + [2], h) if psd else _dense(rng, batch + [2], h, h), "block_dim": -3}
    if cls == "BlockInterleaved":
        if psd or not rect:
            return {"cls": cls, "base": _psd_dense(rng, batch + [2], h) if psd else _dense(rng, batch + [2], h, h), "block_dim": -3}
        k = 2 if (m % 2 == 0 and nn % 2 == 0) else 1
        return {"cls": cls, "base": _dense(rng, batch + [k], m // k, nn // k), "block_dim": -3}
    if cls == "SumBatch":
        return {"cls": cls, "base": _psd_dense(rng, batch + [2], n) if psd else _dense(rng, batch + [2], m, nn), "block_dim": -3}
    if cls == "BatchRepeat":
        # batch () has no BatchRepeat instance: repeat(1, 1, 1) gives batch (1,), which broadcasts like ()
        base_batch, rep = [], [1]
        if batch:
            base_batch, rep = [1] * len(batch), list(batch)
            if batch[-1] % 2 == 0:           # genuine tiling of a batched base along the last batch dimension
                base_batch = [1] * (len(batch) - 1) + [2]
                rep = list(batch[:-1]) + [batch[-1] // 2]
        base = _psd_dense(rng, base_batch, n) if psd else _dense(rng, base_batch, m, nn)
        return {"cls": cls, "base": base, "rep": rep}
    if cls == "Cat":
        if m >= 2:
            a, b = m // 2, m - m // 2
            return {"cls": cls, "ops": [_dense(rng, batch, a, nn), _dense(rng, batch, b, nn)], "dim": -2}
        return {"cls": cls, "ops": [_dense(rng, batch, m, 1), _dense(rng, batch, m, nn - 1)], "dim": -1}
    if cls == "Interpolated":
        bm = 3
        base = _psd_dense(rng, batch, bm) if psd else _dense(rng, batch, bm, bm)
        k = 2

        def idx(rows):
            return {"shape": batch + [rows, k], "data": [rng.randrange(bm) for _ in range(int(math.prod(batch + [rows, k])))], "long": True}
        li, lv = idx(m), ob.rand_t(rng, batch + [m, k], -2, 2)
        if psd:
            return {"cls": cls, "base": base, "li": li, "lv": lv, "ri": li, "rv": lv}
        return {"cls": cls, "base": base, "li": li, "lv": lv, "ri": idx(nn), "rv": ob.rand_t(rng, batch + [nn, k], -2, 2)}
    if cls == "Masked":
        base = _dense(rng, batch, m + 1, nn + 1)

        def mask(sz, keep):
            ix = list(range(sz))
            rng.shuffle(ix)
            ks = set(ix[:keep])
            return {"shape": [sz], "data": [1 if i in ks else 0 for i in range(sz)], "bool": True}
        return {"cls": cls, "base": base, "row_mask": mask(m + 1, m), "col_mask": mask(nn + 1, nn)}
    raise ValueError(cls)


# ------------------------------------------------------------------------------------------ structurally distinct instances per class
# inst() has ONE canonical instance per class (dense children).  The classes below change behaviour with the STRUCTURE of their
# constructor arguments (metaclass rewrites on the base class, masks that differ between rows and columns, interpolation with
# several weights per row, wrappers forwarding to the wrapped class): variant(name) = the class over each child family.

def _mask(keep_out, sz):
    return {"shape": [sz], "data": [0 if i == keep_out else 1 for i in range(sz)], "bool": True}


def _idx(rng, batch, rows, k, bm):
    return {"shape": list(batch) + [rows, k], "data": [rng.randrange(bm) for _ in range(int(math.prod(list(batch) + [rows, k])))], "long": True}


def _child(rng, fam, batch, n):
    if fam == "Diag":
        return _diag(rng, batch, n)
    if fam == "CDiag":
        return _cdiag(rng, batch, n)
    if fam == "Identity":
        return {"cls": "Identity", "n": n, "batch": list(batch)}
    if fam == "Toeplitz":
        return _toeplitz(rng, batch, n, False)
    if fam == "Tri":
        return _tri(rng, batch, n, bool(rng.getrandbits(1)))
    if fam == "Dense":
        return _dense(rng, batch, n, n)
    raise ValueError(fam)


_BLOCK = {"BlockInter": "BlockInterleaved", "BlockDiag": "BlockDiag", "SumBatch": "SumBatch"}
VARIANTS = (["%s:%s" % (b, f) for b in ("BlockInter", "BlockDiag", "SumBatch") for f in ("Diag", "CDiag", "Identity", "Toeplitz", "Tri")]
            + ["Masked:%s:%s" % (k, f) for k in ("uneq", "eq") for f in ("Dense", "Toeplitz", "Diag")]
            + ["Interp:%s:%s" % (k, f) for k in ("2", "3", "sym3") for f in ("Dense", "Toeplitz", "Diag")]
            + ["CMul:%s:%s" % (s, v) for s in ("pos", "neg") for v in ("Interp:2:Dense", "Masked:uneq:Dense", "BlockInter:Diag", "Toeplitz", "Diag")]
            + ["Kron:Diag:Dense", "Kron:Toeplitz:Diag", "Kron:Diag:Diag", "Sum:Diag:Diag", "Sum:Masked:Dense", "Sum:Interp:Diag",
               "AddedDiag:Toeplitz", "AddedDiag:Interp", "AddedDiag:Masked", "AddedDiag:BlockInter", "BatchRepeat:Diag", "BatchRepeat:Toeplitz",
               "Matmul:Diag:Toeplitz", "Matmul:Interp:Diag", "Matmul:Masked:Diag"])


def variant(rng, name, batch=(), n=4):
    batch = list(batch)
    h = max(1, n // 2)
    parts = name.split(":")
    k = parts[0]
    if k in _BLOCK:
        size = n if k == "SumBatch" else h
        return {"cls": _BLOCK[k], "base": _child(rng, parts[1], batch + [2], size), "block_dim": -3}
    if k == "Masked":
        i = rng.randrange(n + 1)
        j = i if parts[1] == "eq" else (i + 1 + rng.randrange(n)) % (n + 1)
        return {"cls": "Masked", "base": _child(rng, parts[2], batch, n + 1), "row_mask": _mask(i, n + 1), "col_mask": _mask(j, n + 1)}
    if k == "Interp":
        bm = 3
        kk = 3 if parts[1] in ("3", "sym3") else 2
        li, lv = _idx(rng, batch, n, kk, bm), ob.rand_t(rng, batch + [n, kk], -2, 2, nonzero=True)
        if parts[1] == "sym3":
            ri, rv = li, lv
        else:
            ri, rv = _idx(rng, batch, n, kk, bm), ob.rand_t(rng, batch + [n, kk], -2, 2, nonzero=True)
        return {"cls": "Interpolated", "base": _child(rng, parts[2], batch, bm), "li": li, "lv": lv, "ri": ri, "rv": rv}
    if k == "CMul":
        inner = ":".join(parts[2:])
        base = variant(rng, inner, batch, n) if ":" in inner else _child(rng, inner, batch, n)
        return {"cls": "ConstantMul", "base": base, "c": ob.T([], [rng.choice([2, 3]) if parts[1] == "pos" else rng.choice([-2, -3])])}
    sub = lambda f, sz: (variant(rng, {"Masked": "Masked:uneq:Dense", "Interp": "Interp:2:Dense", "BlockInter": "BlockInter:Diag"}[f], batch, sz)
                         if f in ("Masked", "Interp", "BlockInter") else _child(rng, f, batch, sz))
    if k == "Kron":
        return {"cls": "Kron", "ops": [sub(parts[1], 2), sub(parts[2], h)]}
    if k == "Sum":
        return {"cls": "Sum", "ops": [sub(parts[1], n), sub(parts[2], n)]}
    if k == "AddedDiag":
        return {"cls": "AddedDiag", "base": sub(parts[1], n), "diag": _diag(rng, batch, n, pos=True)}
    if k == "BatchRepeat":
        return {"cls": "BatchRepeat", "base": _child(rng, parts[1], [1] * len(batch), n), "rep": batch if batch else [1]}
    if k == "Matmul":
        return {"cls": "Matmul", "l": sub(parts[1], n), "r": sub(parts[2], n)}
    raise ValueError(name)


def build(e, dtype=torch.float64):
    return ob.build(e, dtype)


def dense(e, dtype=torch.float64):
    return ob.dense(e, dtype)


def needs_f32(e):
    return any(x["cls"] in F32_ONLY for x in nodes(e))


def kids_of(e):
    out = []
    if "ops" in e:
        out += list(e["ops"])
    for k in ("base", "l", "r", "kron", "diag", "a", "b", "root"):
        if isinstance(e.get(k), dict) and "cls" in e[k]:
            out.append(e[k])
    return out


def nodes(e):
    yield e
    for k in kids_of(e):
        yield from nodes(k)


# ------------------------------------------------------------------------------------------ operands that are lazy RESULTS
# Composite operands whose _diagonal / _getitem / _transpose shortcuts are read by the structured rewrites of OTHER classes
# (Diag-family _mul_matrix, Kronecker _diagonal, add_jitter, ...).  name -> (expression, is positive definite)

COMPOSITES = ["MatmulLL", "MatmulLU", "MatmulUL", "MatmulUU", "MatmulLLt", "MatmulLtL", "MatmulDiagDense", "MatmulDenseDiag",
              "SumDiagToeplitz", "SumMatmulLLtDiag", "KronMatmulLLtDense", "KronDiagDense", "AddedDiagMatmulLLt", "CMulMatmulLU",
              "RootOfTriangular", "MatmulKronDiag", "SumKronOfMatmul", "CholOfMatmulFactor",
              # upper-orientation operands (R^T R), alone and inside every container family
              "CholUpper", "SumCholUpperDiag", "KronCholUpperDense", "RootOfUpperTriangular", "AddedDiagCholUpper", "CMulCholUpper",
              "MatmulCholUpperDense"]


def _tri_pair_t(rng, batch, n):
    """(L, L^T) as Triangular expressions (lower, upper)"""
    L = _tri(rng, batch, n, False)
    Lt = {"cls": "Triangular", "t": ob.from_torch(ob.tt(L["t"]).mT.contiguous()), "upper": True}
    return L, Lt


def composite(rng, name, batch=(), n=4):
    batch = list(batch)
    h = max(1, n // 2)
    mm = lambda l, r: {"cls": "Matmul", "l": l, "r": r}
    if name in ("MatmulLL", "MatmulLU", "MatmulUL", "MatmulUU"):
        return mm(_tri(rng, batch, n, name[6] == "U"), _tri(rng, batch, n, name[7] == "U")), False
    if name == "MatmulLLt":
        L, Lt = _tri_pair_t(rng, batch, n)
        return mm(L, Lt), True
    if name == "MatmulLtL":
        L, Lt = _tri_pair_t(rng, batch, n)
        return mm(Lt, L), True
    if name == "MatmulDiagDense":
        return mm(_diag(rng, batch, n), _dense(rng, batch, n, n, -2, 2)), False
    if name == "MatmulDenseDiag":
        return mm(_dense(rng, batch, n, n, -2, 2), _diag(rng, batch, n)), False
    if name == "SumDiagToeplitz":
        return {"cls": "Sum", "ops": [_diag(rng, batch, n, pos=True), _toeplitz(rng, batch, n, True)]}, True
    if name == "SumMatmulLLtDiag":
        L, Lt = _tri_pair_t(rng, batch, n)
        return {"cls": "Sum", "ops": [mm(L, Lt), _diag(rng, batch, n, pos=True)]}, True
    if name == "KronMatmulLLtDense":
        L, Lt = _tri_pair_t(rng, batch, 2)
        return {"cls": "Kron", "ops": [mm(L, Lt), _psd_dense(rng, batch, h)]}, True
    if name == "KronDiagDense":
        return {"cls": "Kron", "ops": [_diag(rng, batch, 2, pos=True), _psd_dense(rng, batch, h)]}, True
    if name == "AddedDiagMatmulLLt":          # what add_jitter / add_diagonal return
        L, Lt = _tri_pair_t(rng, batch, n)
        return {"cls": "AddedDiag", "base": mm(L, Lt), "diag": _cdiag(rng, batch, n, pos=True)}, True
    if name == "CMulMatmulLU":
        return {"cls": "ConstantMul", "base": mm(_tri(rng, batch, n, False), _tri(rng, batch, n, True)),
                "c": ob.rand_t(rng, [], -3, 3, nonzero=True)}, False
    if name == "RootOfTriangular":
        return {"cls": "Root", "root": _tri(rng, batch, n, False)}, True
    if name == "MatmulKronDiag":
        return mm({"cls": "Kron", "ops": [_dense(rng, batch, 2, 2), _dense(rng, batch, h, h)]}, _diag(rng, batch, n)), False
    if name == "SumKronOfMatmul":
        L, Lt = _tri_pair_t(rng, batch, 2)
        k1 = {"cls": "Kron", "ops": [mm(L, Lt), _psd_dense(rng, batch, h)]}
        k2 = {"cls": "Kron", "ops": [_psd_dense(rng, batch, 2), _psd_dense(rng, batch, h)]}
        return {"cls": "SumKron", "a": k1, "b": k2}, True
    if name == "CholOfMatmulFactor":         # L L^T written with the Cholesky class next to the lazy product of the same factor
        L, Lt = _tri_pair_t(rng, batch, n)
        return {"cls": "Sum", "ops": [{"cls": "Chol", "t": L["t"], "upper": False}, mm(L, Lt)]}, True
    if name == "CholUpper":
        return {"cls": "Chol", "t": _tri(rng, batch, n, True)["t"], "upper": True}, True
    if name == "SumCholUpperDiag":
        return {"cls": "Sum", "ops": [{"cls": "Chol", "t": _tri(rng, batch, n, True)["t"], "upper": True}, _diag(rng, batch, n, pos=True)]}, True
    if name == "KronCholUpperDense":
        return {"cls": "Kron", "ops": [{"cls": "Chol", "t": _tri(rng, batch, 2, True)["t"], "upper": True}, _psd_dense(rng, batch, h)]}, True
    if name == "RootOfUpperTriangular":
        return {"cls": "Root", "root": _tri(rng, batch, n, True)}, True
    if name == "AddedDiagCholUpper":
        return {"cls": "AddedDiag", "base": {"cls": "Chol", "t": _tri(rng, batch, n, True)["t"], "upper": True},
                "diag": _cdiag(rng, batch, n, pos=True)}, True
    if name == "CMulCholUpper":
        return {"cls": "ConstantMul", "base": {"cls": "Chol", "t": _tri(rng, batch, n, True)["t"], "upper": True},
                "c": ob.rand_t(rng, [], 1, 3)}, True
    if name == "MatmulCholUpperDense":
        return mm({"cls": "Chol", "t": _tri(rng, batch, n, True)["t"], "upper": True}, _dense(rng, batch, n, n, -2, 2)), False
    raise ValueError(name)


# concatenation along a BATCH dimension (3 batch dimensions, unequal sizes): CatB<d>e = equal pieces, CatB<d>u = unequal pieces
CATB = ["CatB0e", "CatB0u", "CatB1e", "CatB1u", "CatB2e", "CatB2u"]
CATB_BATCH = [2, 3, 4]


def catb(rng, name, n=4):
    d = int(name[4])
    equal = name[5] == "e"
    full = list(CATB_BATCH)
    k = full[d]
    sizes = [k, k] if equal else [k, 1]
    kinds = [_dense, lambda r, b, m, nn: _diag(r, b, m), lambda r, b, m, nn: _toeplitz(r, b, m, False)]
    ops = []
    for i, s in enumerate(sizes):
        b = list(full)
        b[d] = s
        ops.append(kinds[(d + i) % len(kinds)](rng, b, n, n))
    return {"cls": "Cat", "ops": ops, "dim": d}
