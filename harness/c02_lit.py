"""C02: Coq literals for operator expressions (coq/C02/Op.v), operands, programs (coq/C02/Model.v) and observations."""
import math

import torch

from . import opbuild as ob
from .common import natlist


class Inexpressible(ValueError):
    pass


def zl(v):
    v = int(v)
    return "(%d)" % v if v < 0 else "%d" % v


def table_lit(x, r, c):
    """x: torch tensor (..., r, c) integer valued -> [[[..]]] indexed [flat batch][row][col]"""
    nb = int(math.prod(x.shape[:-2]))
    flat = x.reshape(nb, r, c).tolist() if x.numel() else [[[] for _ in range(r)] for _ in range(nb)]
    return "[" + "; ".join("[" + "; ".join("[" + "; ".join(zl(round(v)) for v in row) + "]" for row in mat) + "]"
                           for mat in flat) + "]"


def bt_lit(x):
    """torch tensor (..., r, c) -> BT literal (batch shape innermost-first)"""
    bs = list(x.shape[:-2])[::-1]
    r, c = x.shape[-2:]
    return "(of_table %s %d %d %s)" % (natlist(bs), r, c, table_lit(x, r, c))


def bt_mat(t):
    return bt_lit(ob.tt(t, torch.float64))


def bt_vec(t):
    return bt_lit(ob.tt(t, torch.float64).unsqueeze(-1))


def bt_scalar(t):
    return bt_lit(ob.tt(t, torch.float64).unsqueeze(-1).unsqueeze(-1))


def raw_lit(x):
    """torch tensor of any rank -> raw tensor literal"""
    return "(raw_of_list %s [%s])" % (natlist(list(x.shape)[::-1]), "; ".join(zl(round(v)) for v in x.reshape(-1).tolist()))


def raw_t(t):
    return raw_lit(ob.tt(t, torch.float64))


def op_lit(e):
    c = e["cls"]
    L = op_lit
    ops = lambda xs: "[" + "; ".join(L(x) for x in xs) + "]"
    if c == "Dense":
        return "(Dense %s)" % bt_mat(e["t"])
    if c == "UserMinimal":
        return "(Leaf LUser %s)" % bt_mat(e["t"])
    if c in ("Kernel", "Masked", "Permutation", "TransposePermutation"):
        k = {"Kernel": "LKernel", "Masked": "LMasked", "Permutation": "LPerm", "TransposePermutation": "LTransPerm"}[c]
        return "(Leaf %s %s)" % (k, bt_lit(ob.dense(e, torch.float64)))
    if c == "Diag":
        return "(Diag %s)" % bt_vec(e["d"])
    if c == "ConstantDiag":
        return "(CDiag %s %d)" % (bt_vec(e["c"]), e["n"])
    if c == "Identity":
        return "(Ident %d %s)" % (e["n"], natlist(list(e.get("batch", []))[::-1]))
    if c == "Zero":
        return "(Zero %s %d %d)" % (natlist(list(e["shape"][:-2])[::-1]), e["shape"][-2], e["shape"][-1])
    if c == "Toeplitz":
        return "(Toep %s)" % bt_vec(e["col"])
    if c == "Triangular":
        return "(Tri (Dense %s) %s)" % (bt_mat(e["t"]), "true" if e["upper"] else "false")
    if c == "Chol":
        if e["upper"]:
            raise Inexpressible("Chol(upper=True) is excluded (C01 finding)")
        return "(RootC KChol (Tri (Dense %s) false))" % bt_mat(e["t"])
    if c in ("Root", "LowRankRoot"):
        r = e["root"]
        inner = L(r) if (isinstance(r, dict) and "cls" in r) else "(Dense %s)" % bt_mat(r)
        return "(RootC %s %s)" % ("KRoot" if c == "Root" else "KLRRoot", inner)
    if c == "Kron":
        return "(KronC KKron %s)" % ops(e["ops"])
    if c == "KronDiag":
        return "(KronC KKronDiag %s)" % ops(e["ops"])
    if c == "KronTriangular":
        return "(KronC (KKronTri %s) %s)" % ("true" if e["upper"] else "false", ops(e["ops"]))
    if c == "KronAddedDiag":
        return "(SumC KKPAD [%s; %s])" % (L(e["kron"]), L(e["diag"]))
    if c == "SumKron":
        return "(SumC KSumKron [%s; %s])" % (L(e["a"]), L(e["b"]))
    if c == "AddedDiag":
        return "(SumC KAddedDiag [%s; %s])" % (L(e["base"]), L(e["diag"]))
    if c == "LowRankRootAddedDiag":
        return "(SumC KLRRAD [%s; %s])" % (L(e["root"]), L(e["diag"]))
    if c == "Sum":
        return "(SumC KSum %s)" % ops(e["ops"])
    if c == "PsdSum":
        return "(SumC KPsdSum %s)" % ops(e["ops"])
    if c in ("Matmul", "Mul"):
        return "(%s %s %s)" % (c, L(e["l"]), L(e["r"]))
    if c == "ConstantMul":
        return "(CMul %s %s)" % (L(e["base"]), bt_scalar(e["c"]))
    if c in ("BlockDiag", "BlockInterleaved", "SumBatch"):
        if e.get("block_dim", -3) != -3:
            raise Inexpressible("block_dim != -3")
        return "(%s %s)" % ({"BlockDiag": "BlockDiag", "BlockInterleaved": "BlockInter", "SumBatch": "SumBatch"}[c], L(e["base"]))
    if c == "BatchRepeat":
        nb = len(ob.shape_of(e["base"])) - 2
        rep = list(e["rep"])
        if len(rep) != nb:
            raise Inexpressible("BatchRepeat adding batch dimensions")
        return "(BRepeat %s %s)" % (L(e["base"]), natlist(rep[::-1]))
    if c == "Cat":
        d = e["dim"]
        nb = len(ob.shape_of(e)) - 2
        if d in (-2, nb):
            dim = "CatRows"
        elif d in (-1, nb + 1):
            dim = "CatCols"
        else:
            pos = d if d >= 0 else d + nb + 2
            dim = "(CatBatch %d)" % (nb - 1 - pos)
        return "(Cat %s %s)" % (ops(e["ops"]), dim)
    if c == "Interpolated":
        return "(Interp %s %s %s %s %s)" % (L(e["base"]), bt_mat(e["li"]), bt_mat(e["lv"]), bt_mat(e["ri"]), bt_mat(e["rv"]))
    raise Inexpressible("unknown class %s" % c)


def _is_square(v):
    v = int(v)
    return v <= 0 or int(math.isqrt(v)) ** 2 == v


def arg_lit(P):
    """operand node that is not an operator program"""
    if P["p"] == "py" and not _is_square(P["v"]):
        raise Inexpressible("positive constant without an integer square root")
    if P["p"] == "t" and P["t"]["shape"][-2:] in ([], [1], [1, 1]) and not all(_is_square(v) for v in P["t"]["data"]):
        raise Inexpressible("positive constant without an integer square root")
    if P["p"] == "py":
        return "(APy %s)" % zl(P["v"])
    if P["p"] == "t":
        return "(ARaw %s)" % raw_t(P["t"])
    raise Inexpressible(P["p"])


BINOP = {"add": "BAdd", "sub": "BSub", "mul": "BMul", "matmul": "BMatmul"}


def prog_lit(P, nbatch_of):
    """P -> Coq Prog literal.  nbatch_of(P) gives the number of batch dimensions of the (dense) value of a sub-program
    (needed to turn torch dimensions into innermost-first positions)."""
    p = P["p"]
    R = lambda x: prog_lit(x, nbatch_of)
    if p == "leaf":
        return "(PLeaf %s)" % op_lit(P["e"])
    if p in BINOP:
        a, b = P["a"], P["b"]
        a_op = a["p"] not in ("t", "py")
        b_op = b["p"] not in ("t", "py")
        if a_op and b_op:
            return "(PBin %s %s %s)" % (BINOP[p], R(a), R(b))
        if a_op:
            return "(PBinT %s %s %s)" % (BINOP[p], R(a), arg_lit(b))
        if b_op:
            return "(PRBinT %s %s %s)" % (BINOP[p], arg_lit(a), R(b))
        raise Inexpressible("tensor-tensor step")
    if p == "div":
        b = P["b"]
        if b["p"] == "py" and b["v"] in (1, -1):
            return "(PDiv %s %s %s)" % (R(P["a"]), arg_lit(b), arg_lit(b))
        if b["p"] == "t" and all(v in (1, -1) for v in b["t"]["data"]):
            return "(PDiv %s %s %s)" % (R(P["a"]), arg_lit(b), arg_lit(b))
        raise Inexpressible("reciprocal is not an integer")
    nb = nbatch_of(P["a"])
    if p == "expand":
        return "(PExpand %s %s)" % (R(P["a"]), natlist(list(P["batch"])[::-1]))
    if p == "unsqueeze":
        d = P["dim"]
        d = d + nb + 2 + 1 if d < 0 else d
        if d > nb:
            raise Inexpressible("unsqueeze of a matrix dimension")
        return "(PUnsqueeze %s %d)" % (R(P["a"]), nb - d)
    if p == "permute":
        dims = list(P["dims"])
        # new torch position j carries old torch position dims[j]; innermost-first position k = nb-1-j
        perm = [nb - 1 - dims[nb - 1 - k] for k in range(nb)]
        return "(PPermute %s %s)" % (R(P["a"]), natlist(perm))
    if p == "transpose":
        d1, d2 = P["d1"], P["d2"]
        d1 = d1 + nb + 2 if d1 < 0 else d1
        d2 = d2 + nb + 2 if d2 < 0 else d2
        if d1 >= nb and d2 >= nb:
            return "(PmT %s)" % R(P["a"])
        if d1 < nb and d2 < nb:
            return "(PTransposeB %s %d %d)" % (R(P["a"]), nb - 1 - d1, nb - 1 - d2)
        raise Inexpressible("mixed transpose")
    if p == "sum":
        d = P["dim"]
        d = d + nb + 2 if d < 0 else d
        if d >= nb:
            raise Inexpressible("sum over a matrix dimension")
        return "(PSumBatch %s %d)" % (R(P["a"]), nb - 1 - d)
    if p == "add_diagonal":
        return "(PAddDiagonal %s %s)" % (R(P["a"]), raw_t(P["t"]))
    if p == "add_jitter":
        return "(PAddJitter %s %s)" % (R(P["a"]), zl(P["v"]))
    raise Inexpressible(p)


def obs_lit(got):
    """observed dense tensor (or None for a raise) -> Obs literal"""
    if got is None:
        return "ObsErr"
    x = got.to(torch.float64).round()
    if x.dim() < 2:
        return "ObsErr"
    bs = list(x.shape[:-2])[::-1]
    r, c = x.shape[-2:]
    return "(ObsT %s %d %d %s)" % (natlist(bs), r, c, table_lit(x, r, c))
