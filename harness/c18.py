"""C18 — Gaussian sampling uses a true square root of the covariance.

proof    : coq/C18 (sample_linear: every sampler is a fixed linear map of the noise, in the (k,*batch,n) layout;
           sample_root: R R^T = A for every sampler expression given valid leaf roots; interpolation; covariance algebra)
tie      : correspondence.  torch.randn is replaced inside this process (harness/c18_noise.py); the real samplers are
           run on recorded noise and on unit noise; the Gallina model (PrimFloat) is evaluated by vm_compute on the same
           noise and compared with the observed draws, the reconstructed linear map and the dense oracle.
search   : the property predicate evaluated directly on the implementation for every generated case
           (shape, R R^T = A per draw and batch member, draws uncorrelated, linearity).
"""
import contextlib
import json
import math
import os
import random
import re
import time
import traceback

import torch

from . import common, opbuild
from . import c18_model as M
from . import c18_noise as N
from . import c18_hist as H

PROP = "C18"

SETTINGS = {                     # name -> (ciq_samples, max_cholesky_size, fast_computations.covar_root_decomposition
                                 #          [, min_preconditioning_size, max_preconditioner_size])
    "default": (False, 800, True),
    "lanczos": (False, 2, True),      # sizes > 2 take the Lanczos root
    "fastoff": (False, 2, False),     # sizes > 2, but fast root decomposition off -> Cholesky
    "ciq": (True, 800, True),
}
# family (c): CIQ sampling of operators WITH an active preconditioner (AddedDiagLinearOperator's pivoted-Cholesky
# preconditioner is switched on by lowering min_preconditioning_size below the size): rank 2, 5 and full
PRECOND_SETTINGS = {
    "ciq_pc2": (True, 800, True, 1, 2),
    "ciq_pc5": (True, 800, True, 1, 5),
    "ciq_pc15": (True, 800, True, 1, 15),
}
# family (d), fallback route: with an ineffective Cholesky jitter a rank-deficient member makes psd_safe_cholesky raise and
# LinearOperator.root_decomposition falls back to its symeig branch (entries 3, 4 = None: preconditioner settings untouched)
FALLBACK_SETTINGS = {"tinyjitter": (False, 800, True, None, None, 1e-30)}
ALL_SETTINGS = dict(SETTINGS, **PRECOND_SETTINGS, **FALLBACK_SETTINGS)


def settings_ctx(st):
    from linear_operator import settings
    es = contextlib.ExitStack()
    es.enter_context(settings.ciq_samples(bool(st[0])))
    es.enter_context(settings.max_cholesky_size(int(st[1])))
    es.enter_context(settings.fast_computations(covar_root_decomposition=bool(st[2])))
    if len(st) > 3 and st[3] is not None:
        es.enter_context(settings.min_preconditioning_size(int(st[3])))
        es.enter_context(settings.max_preconditioner_size(int(st[4])))
    if len(st) > 5:
        es.enter_context(settings.cholesky_jitter(float_value=float(st[5]), double_value=float(st[5]), half_value=float(st[5])))
    return es


# ----------------------------------------------------------------------------------------- expressions

def T(shape, data):
    return {"shape": list(shape), "data": list(data)}


def dyadic(rng, shape, lo=-2, hi=2, q=2):
    n = M.prod(shape)
    return {"shape": list(shape), "data": [rng.randint(lo * q, hi * q) / q for _ in range(n)]}


def tt64(t):
    return torch.tensor(t["data"], dtype=torch.float64).reshape(t["shape"])


def gen_leaf(rng, cls, batch, n):
    batch = list(batch)
    if cls in H.VAR_LEAVES:                    # members with different spectra / scales (c18_hist, family b)
        return H.gen_var_leaf(rng, cls, batch, n)
    if cls in ("Chol", "CholU"):
        t = torch.tril(tt64(opbuild.rand_t(rng, batch + [n, n], -2, 2)))
        dg = tt64(opbuild.rand_t(rng, batch + [n], 1, 3))
        t = t - torch.diag_embed(torch.diagonal(t, dim1=-2, dim2=-1)) + torch.diag_embed(dg)
        up = cls == "CholU"
        return {"cls": "Chol", "t": opbuild.from_torch(t.mT if up else t), "upper": up}
    if cls == "LowRank":                       # rank-deficient PSD matrix given by its root
        r = max(1, n - 1)
        return {"cls": "LowRankRoot", "root": opbuild.rand_t(rng, batch + [n, r], -2, 2)}
    if cls == "RootWide":                      # root with more columns than rows
        return {"cls": "Root", "root": opbuild.rand_t(rng, batch + [n, n + 1], -2, 2)}
    if cls == "DenseSpec":                     # dense SPD with a simple, well-conditioned spectrum (float data)
        return {"cls": "Dense", "t": spd_simple(rng, batch, n)}
    if cls == "AddedDiagSpec":
        return {"cls": "AddedDiag", "base": {"cls": "Dense", "t": spd_simple(rng, batch, n)},
                "diag": {"cls": "Diag", "d": dyadic(rng, batch + [n], 1, 2, 4)}}
    if cls == "SumSpec":
        return {"cls": "Sum", "ops": [{"cls": "Dense", "t": spd_simple(rng, batch, n)},
                                      {"cls": "Diag", "d": dyadic(rng, batch + [n], 1, 2, 4)}]}
    return opbuild.gen(rng, cls, batch=batch, m=n, psd=True, depth=1)


def spd_simple(rng, batch, n):
    """Q diag(ev) Q^T with well separated eigenvalues in [1, 4] (kappa <= 4), entries rounded to 2^-20"""
    g = torch.Generator().manual_seed(rng.randrange(1 << 30))
    Q, _ = torch.linalg.qr(torch.randn(*batch, n, n, generator=g, dtype=torch.float64))
    ev = torch.linspace(1.0, 4.0, n, dtype=torch.float64) if n > 1 else torch.tensor([2.0], dtype=torch.float64)
    A = Q @ torch.diag_embed(ev.expand(*batch, n)) @ Q.mT
    A = (A + A.mT) / 2
    A = torch.round(A * 2 ** 20) / 2 ** 20
    return {"shape": list(A.shape), "data": [float(x) for x in A.reshape(-1).tolist()]}


# opbuild.tt truncates to int through T(); float data must survive
def _patch_opbuild():
    def T2(shape, data):
        return {"shape": list(shape), "data": list(data)}
    return T2


def gen_interp(rng, base, batch, m, variant="sym"):
    n0 = opbuild.shape_of(base)[-1]
    q = rng.choice([1, 2])
    shp = list(batch) + [m, q]
    cnt = M.prod(shp)
    li = {"shape": shp, "data": [rng.randrange(n0) for _ in range(cnt)], "long": True}
    lv = dyadic(rng, shp, -2, 2, 2)
    ri, rv = li, lv
    if variant == "perm" and q == 2:            # same W, interpolation points listed in the other order
        def sw(t):
            d = t["data"]
            return dict(t, data=[d[i ^ 1] for i in range(len(d))])
        ri, rv = sw(li), sw(lv)
    if variant == "asym":                        # W_r = 2 W_l : the operator is PSD (2 W A W^T) but not symmetric in (W_l, W_r)
        rv = dict(lv, data=[2 * x for x in lv["data"]])
    return {"cls": "Interpolated", "base": base, "li": li, "lv": lv, "ri": ri, "rv": rv}


LEAF_GRID = ["Dense", "Toeplitz", "Diag", "ConstantDiag", "Identity", "KronDiag", "Chol", "CholU", "Root", "LowRankRoot",
             "LowRank", "RootWide", "Kron", "KronAddedDiag", "SumKron", "AddedDiag", "LowRankRootAddedDiag", "Sum",
             "ConstantMul", "BatchRepeat", "Mul", "DenseSpec", "AddedDiagSpec", "SumSpec"]
STRUCT_GRID = ["PsdSum", "BlockDiag", "BlockInterleaved", "SumBatch", "Interpolated", "InterpolatedPerm", "InterpolatedAsym",
               "BlockDiag(PsdSum)", "PsdSum(BlockDiag,Interpolated)", "Interpolated(BlockInterleaved)", "SumBatch(Interpolated)",
               "Interpolated(PsdSum)", "PsdSum(PsdSum)", "BlockInterleaved(SumBatch)",
               # outside the modelled fragment (direct predicate only): block_dim != -3, broadcasting batch shapes
               "BlockDiagDim0", "PsdSumBroadcast"]
CHILD_ROT = ["Dense", "Diag", "Root", "Identity", "Toeplitz", "ConstantDiag", "Chol", "DenseSpec", "AddedDiag", "LowRank"]
# family (b): the same structured samplers over children whose batch members have different spectra and scales
STRUCT_VAR = [c + "@var" for c in STRUCT_GRID if c not in ("InterpolatedPerm", "InterpolatedAsym")]


def gen_struct(rng, cls, batch, n, rot, var=False):
    batch = list(batch)
    if cls.endswith("@var"):
        cls, var = cls[:-4], True
    pool = H.VAR_CHILD_ROT if var else CHILD_ROT
    ch = lambda i: pool[(rot + i) % len(pool)]
    leaf = lambda c, b, m: gen_leaf(rng, c, b, m)
    if cls == "PsdSum":
        cnt = 2 + rot % 2
        return {"cls": "PsdSum", "ops": [leaf(ch(i), batch, n) for i in range(cnt)]}
    if cls in ("BlockDiag", "BlockInterleaved", "SumBatch"):
        nb = 1 + rot % 3
        return {"cls": cls, "base": leaf(ch(0), batch + [nb], n), "block_dim": -3}
    if cls in ("Interpolated", "InterpolatedPerm", "InterpolatedAsym"):
        base = leaf(ch(0), batch, 2 + rot % 3)
        return gen_interp(rng, base, batch, n, {"Interpolated": "sym", "InterpolatedPerm": "perm", "InterpolatedAsym": "asym"}[cls])
    if cls == "BlockDiag(PsdSum)":
        nb = 1 + rot % 2
        return {"cls": "BlockDiag", "base": gen_struct(rng, "PsdSum", batch + [nb], n, rot + 1, var), "block_dim": -3}
    if cls == "PsdSum(BlockDiag,Interpolated)":
        bd = {"cls": "BlockDiag", "base": leaf(ch(0), batch + [2], n), "block_dim": -3}
        ip = gen_interp(rng, leaf(ch(1), batch, 3), batch, 2 * n)
        return {"cls": "PsdSum", "ops": [bd, ip, leaf("DiagVar" if var else "Diag", batch, 2 * n)]}
    if cls == "Interpolated(BlockInterleaved)":
        bi = {"cls": "BlockInterleaved", "base": leaf(ch(0), batch + [2], 2), "block_dim": -3}
        return gen_interp(rng, bi, batch, n)
    if cls == "SumBatch(Interpolated)":
        nb = 2
        return {"cls": "SumBatch", "base": gen_interp(rng, leaf(ch(0), batch + [nb], 3), batch + [nb], n), "block_dim": -3}
    if cls == "Interpolated(PsdSum)":
        return gen_interp(rng, gen_struct(rng, "PsdSum", batch, 3, rot + 2, var), batch, n)
    if cls == "PsdSum(PsdSum)":
        return {"cls": "PsdSum", "ops": [gen_struct(rng, "PsdSum", batch, n, rot + 3, var), leaf(ch(1), batch, n)]}
    if cls == "BlockDiagDim0":
        nb = 1 + rot % 3
        return {"cls": "BlockDiag", "base": leaf(ch(0), [nb] + batch, n), "block_dim": -3 - len(batch)}
    if cls == "PsdSumBroadcast":
        b1 = [x if i % 2 == 0 else 1 for i, x in enumerate(batch)]
        b2 = [x if i % 2 == 1 else 1 for i, x in enumerate(batch)]
        return {"cls": "PsdSum", "ops": [leaf(ch(0), b1, n), leaf(ch(1), b2, n), leaf("DiagVar" if var else "Diag", [], n)]}
    if cls == "InterpolatedBroadcast":
        base = leaf(ch(0), batch, 2 + rot % 3)
        return gen_interp(rng, base, [], n)
    if cls == "BlockInterleaved(SumBatch)":
        sb = {"cls": "SumBatch", "base": leaf(ch(0), batch + [2, 2], n), "block_dim": -3}
        return {"cls": "BlockInterleaved", "base": sb, "block_dim": -3}
    raise ValueError(cls)


def gen_expr(rng, cls, batch, n, rot, dtype="float64"):
    if cls.endswith("XS") or cls.endswith("@xs"):      # family (d): extreme member scales (c18_hist.xs_scales)
        with H.xs_scales(dtype):
            if cls == "DenseSingXS":
                return {"cls": "Dense", "t": H.sing_xs(rng, batch, n)}
            if cls.endswith("@xs"):
                return gen_struct(rng, cls[:-3] + "@var", batch, n, rot)
            return H.gen_var_leaf(rng, cls[:-2] + "Var", batch, n)
    if cls.endswith("@pc"):                    # family (c): operators that supply a preconditioner (c18_hist.gen_pc)
        c = cls[:-3]
        if c in ("AddedDiag", "AddedDiagSpec"):
            return gen_leaf(rng, c, batch, n)
        return H.gen_pc(rng, c, batch, n, rot, gen_interp)
    if cls in STRUCT_GRID or cls in STRUCT_VAR:
        return gen_struct(rng, cls, batch, n, rot)
    return gen_leaf(rng, cls, batch, n)


# float tensors in expressions: opbuild.tt handles {"shape","data"} with float data (torch.tensor(..., dtype))

BATCHES = opbuild.BATCHES + [[3], [2, 2], [2, 1, 2]]         # [], [1], [2], [2,1], [1,3], [2,3], [3], [2,2], [2,1,2]
MULTI = [i for i, b in enumerate(BATCHES) if M.prod(b) >= 2]       # batches with at least two members
SIZES = [1, 2, 3, 5]
KS = [1, 3]

# family (a): classes whose sampler reads a memoized decomposition, histories applied to the object / its generic leaves
HIST_CLS = ["DenseVar", "AddedDiagVar", "PsdSum@var", "SumVar", "KronVar", "BlockDiag@var", "ConstantMulVar", "Dense",
            "Interpolated@var", "Toeplitz", "BlockInterleaved@var", "SumBatch@var"]
HIST_BATCH = [[0, 1], [2, 6], [5, 7, 8, 4, 3]]                    # non-batch / one batch dim / several batch dims
TARGETS = ["top", "leaf", "all"]
TRANSPLANT_HIST = [[], ["rd"], ["cholesky"], ["sample"], ["ri_cholesky"]]


def hist_tag(steps, target, derive=None, dtype=None):
    return "steps=%s;target=%s;derive=%s" % ("+".join(steps), target, derive or "") + (";dtype=%s" % dtype if dtype else "")


def parse_tag(tag):
    d = dict(x.split("=", 1) for x in tag.split(";"))
    h = {"steps": [x for x in d["steps"].split("+") if x], "target": d["target"], "derive": d["derive"] or None}
    if d.get("dtype"):
        h["dtype"] = d["dtype"]
    return h


def var_cells(quick):
    classes = H.VAR_LEAVES + STRUCT_VAR
    combos = [(b, k, n) for b in MULTI for k in (1, 2, 3) for n in SIZES]          # 84
    cells, idx, cq = [], 0, 0
    for ci, cls in enumerate(classes):
        for si, sn in enumerate(SETTINGS):
            picks = range(2) if quick else range(0, len(combos), 3)
            for j in picks:
                b, k, n = combos[((idx if quick else j) * 37 + ci * 5 + si) % len(combos)]
                idx += 1
                if sn == "ciq":
                    # CIQ derives one quadrature rule per member and broadcasts it over the sample axis: needs k >= 2
                    k, n = 2 + cq % 2, min(n, 3)
                    if M.prod(BATCHES[b]) > 4:
                        b = [2, 6, 7, 8, 3, 4][cq % 6]
                    cq += 1
                cells.append((cls, sn, b, k, n))
    return cells


PC_HIST = [["solve"], ["inv_quad_logdet"], ["logdet"], ["sample"], ["sqrt_inv_matmul"], ["ri_iv1"]]


def pc_cells(quick):
    """family (c): CIQ sampling with an ACTIVE preconditioner (min_preconditioning_size below the size)"""
    classes = [c + "@pc" for c in H.PC_LEAVES + H.PC_STRUCT]
    sizes = [3, 5, 8]
    cells, idx = [], 0
    for ci, cls in enumerate(classes):
        struct = cls[:-3] in H.PC_STRUCT
        for si, sn in enumerate(PRECOND_SETTINGS):
            for j in range(2 if quick else 9):
                b = (idx * 4 + ci + j) % len(BATCHES) if not quick else [0, 2, 5, 6, 7, 3, 8, 4, 1][(idx + ci) % 9]
                n = sizes[(idx + si) % 3]
                k = 1 + idx % 3
                idx += 1
                B = M.prod(BATCHES[b]) * (3 if struct else 1)
                if struct:
                    n = min(n, 5)
                while B * n * k > 96 and k > 1:
                    k -= 1
                if B * n * k > 96:
                    n = 3
                cells.append((cls, sn, b, k, n))
    for hi, steps in enumerate(PC_HIST):
        for bc in range(3):
            for si, sn in enumerate(PRECOND_SETTINGS):
                if quick and (hi + bc) % 3 != si:
                    continue
                bl = HIST_BATCH[bc]
                b = bl[(hi + si) % len(bl)]
                if M.prod(BATCHES[b]) > 4:
                    b = 7
                cls = H.PC_ROT[(hi + bc + si) % 3] + "@pc"
                cells.append((cls, sn, b, 1 + (hi + bc) % 3, [5, 3, 8][(hi + si) % 3] if M.prod(BATCHES[b]) <= 2 else 3,
                              hist_tag(steps, "top")))
    return cells


XS_CLS = ["DenseXS", "AddedDiagXS", "SumXS", "PsdSum@xs", "BlockDiag@xs", "ConstantMulXS"]
XS_HIST = [[], ["diagonalization"], ["diagonalization_symeig"], ["diagonalization_lanczos"], ["eigh"], ["eigvalsh"], ["rd_symeig"],
           ["rd_svd"], ["rd_cholesky"], ["rd"], ["ri"], ["ri_symeig"], ["ri_cholesky"], ["ri_lanczos_iv1"], ["cholesky"], ["logdet"],
           ["solve"], ["svd"], ["inv_quad_logdet"], ["eigh", "ri_iv1"], ["diagonalization", "cholesky"]]
XS_BATCH = [6, 5, 8, 7, 2]            # [3], [2,3], [2,1,2], [2,2], [2]


def xs_cells(quick):
    """family (d): batches whose members differ in scale by more than 1/(n eps) (float64 and float32), sampled after the
    calls that fill the caches _choose_root_method reads; plus the Cholesky-failure -> symeig fallback (singular member)"""
    cells = []
    for hi, steps in enumerate(XS_HIST):
        for di, dt in enumerate(("float64", "float32")):
            for r in range(1 if quick else len(XS_BATCH)):
                for cr in range(1 if quick else 2):
                    b = XS_BATCH[(hi + di + r) % len(XS_BATCH)]
                    cls = XS_CLS[(hi + 2 * di + r + 3 * cr) % len(XS_CLS)]
                    if dt == "float32" and cls.endswith("@xs"):
                        # float32 operators are built without the model tree: their generic leaves are not addressable,
                        # so the history must act on the sampled object itself
                        cls = ["DenseXS", "AddedDiagXS", "SumXS", "ConstantMulXS"][(hi + r + cr) % 4]
                    n = [3, 5, 4, 2][(hi + di + r + cr) % 4]
                    k = 1 + (hi + r) % 3
                    cells.append((cls, "default", b, k, n, hist_tag(steps, TARGETS[(hi + r + cr) % 3], None, dt)))
                    if dt == "float64" and (not quick or hi % 3 == 0):
                        cells.append((cls, "lanczos", b, k, max(n, 3), hist_tag(steps, TARGETS[(hi + r + cr) % 3], None, dt)))
                    if not quick or hi % 4 == 1:
                        cells.append((cls, "fastoff", b, k, max(n, 3), hist_tag(steps, "top", None, dt)))
    for si, steps in enumerate(([], ["rd_cholesky"], ["cholesky"], ["diagonalization"], ["rd"])):
        for di, dt in enumerate(("float64", "float32")):
            for r in range(2 if quick else len(XS_BATCH)):
                b = XS_BATCH[(si + di + r) % len(XS_BATCH)]
                cells.append(("DenseSingXS", "default", b, 1 + (si + r) % 3, [3, 5, 4][(si + r) % 3], hist_tag(steps, "top", None, dt)))
                cells.append(("DenseSingXS", "tinyjitter", b, 1 + (si + r) % 3, [3, 5, 4][(si + r) % 3], hist_tag(steps, "top", None, dt)))
    return cells


def hist_cells(quick):
    cells = []
    nh = len(H.HISTORIES)
    for hi, steps in enumerate(H.HISTORIES):
        for bc in range(3):
            bl = HIST_BATCH[bc]
            for si, sn in enumerate(("default", "lanczos", "fastoff", "ciq")):
                if sn in ("fastoff", "ciq") and quick and (hi + bc) % 4 != si:
                    continue
                reps = 1 if quick else (len(bl) if sn != "ciq" else 1)
                for r in range(reps):
                    b = bl[(hi + si + r) % len(bl)]
                    for cr in range(1 if quick else 2):
                        cls = HIST_CLS[(hi + 3 * bc + 5 * si + 7 * cr + r) % len(HIST_CLS)]
                        n = [3, 5][(hi + bc + r) % 2] if sn != "default" else [3, 5, 2, 3, 1, 5][(hi + bc + r + cr) % 6]
                        k = 1 + (hi + bc + si + r) % 3
                        if sn == "ciq":
                            n, k = 3, 2 + (hi % 2)
                            if M.prod(BATCHES[b]) > 4:
                                b = 7
                        target = TARGETS[(hi + bc + cr) % 3]
                        cells.append((cls, sn, b, k, n, hist_tag(steps, target)))
    # derived operators: built from the history-laden object, then sampled
    di = 0
    for d in H.DERIVATIONS:
        hists = TRANSPLANT_HIST if d in H.DERIVE_APPROX else H.DERIVE_HIST
        sns = ("default", "fastoff") if d in H.DERIVE_APPROX else ("default", "lanczos")
        for steps in hists:
            for sn in sns:
                for bc in (range(3) if not quick else [di % 3]):
                    bl = HIST_BATCH[bc]
                    b = bl[di % len(bl)]
                    if d == "getitem_batch" and BATCHES[b][:1] in ([], [1]):
                        b = [2, 5, 7][di % 3]
                    cls = HIST_CLS[(di * 5) % 8 if d in H.DERIVE_APPROX else (di * 5) % len(HIST_CLS)]
                    if d in H.DERIVE_APPROX:
                        cls = ["DenseVar", "AddedDiagVar", "SumVar", "Dense"][di % 4]
                    n = 3 + 2 * (di % 2)
                    cells.append((cls, sn, b, 1 + di % 3, n, hist_tag(steps, "top", d)))
                    di += 1
    return cells


def grid(ctx):
    """deterministic enumeration of structural cells; the seed only picks values"""
    cells = []
    classes = LEAF_GRID + STRUCT_GRID
    combos = [(b, k, n) for b in range(6) for k in KS for n in SIZES]          # 48
    snames = list(SETTINGS)
    if ctx.quick:
        per = 3
        idx = 0
        for ci, cls in enumerate(classes):
            for si, sn in enumerate(snames):
                for j in range(per):
                    b, k, n = combos[(idx * 11 + ci * 5) % len(combos)]
                    idx += 1
                    if sn == "ciq" and (M.prod(BATCHES[b]) > 2 or n > 3):
                        b, n = b % 3, min(n, 3)
                    cells.append((cls, sn, b, k, n))
    else:
        for cls in classes:
            for sn in snames:
                for (b, k, n) in combos:
                    if sn == "ciq" and (M.prod(BATCHES[b]) > 3 or n > 3 or (k == 3 and M.prod(BATCHES[b]) > 2)):
                        continue
                    cells.append((cls, sn, b, k, n))
        for cls in classes:                     # k = 2 as well
            for sn in ("default", "lanczos"):
                for b in (0, 2, 5):
                    cells.append((cls, sn, b, 2, 3))
    cells += var_cells(ctx.quick)
    cells += hist_cells(ctx.quick)
    cells += pc_cells(ctx.quick)
    cells += xs_cells(ctx.quick)
    seen = set()
    out = []
    for c in cells:
        if c not in seen:
            seen.add(c)
            out.append(c)
    return out


def make_case(seed, cell, idx):
    cls, sn, b, k, n = cell[:5]
    rng = random.Random("%s|%s|%d" % (seed, "|".join(map(str, cell)), 0))
    rot = rng.randrange(1000)
    hist = parse_tag(cell[5]) if len(cell) > 5 else None
    try:
        e = gen_expr(rng, cls, BATCHES[b], n, rot, (hist or {}).get("dtype") or "float64")
    except Exception as ex:                       # generator limitation, not a finding
        return {"cell": cell, "gen_error": repr(ex)[:200]}
    case = {"cell": list(cell), "expr": e, "st_name": sn, "st": list(ALL_SETTINGS[sn]), "k": k,
            "nseed": rng.randrange(1 << 30)}
    if len(cell) > 5:
        case["history"] = parse_tag(cell[5])
    return case


# ----------------------------------------------------------------------------------------- evaluation of one case

def contains(e, pred):
    if isinstance(e, dict):
        if "cls" in e and pred(e):
            return True
        return any(contains(v, pred) for v in e.values())
    if isinstance(e, list):
        return any(contains(v, pred) for v in e)
    return False


def transform(e, f):
    if isinstance(e, dict):
        e2 = {k: transform(v, f) for k, v in e.items()}
        return f(e2) if "cls" in e2 else e2
    if isinstance(e, list):
        return [transform(v, f) for v in e]
    return e


def interp_asym(e):
    if e.get("cls") != "Interpolated":
        return False
    n0 = opbuild.shape_of(e["base"])[-1]
    Wl = opbuild.interp_matrix(opbuild.tt(e["li"]), opbuild.tt(e["lv"]), n0)
    Wr = opbuild.interp_matrix(opbuild.tt(e["ri"]), opbuild.tt(e["rv"]), n0)
    return not torch.equal(Wl, Wr)


def transcribed_dense(e, chol=True, interp=True):
    """dense covariance of the *transcribed* sampler for the two known deviations (used only to attribute a
    failure to a listed finding): Chol(upper=True) sampled as U U^T ; Interpolated sampled with W_l on both sides.
    The deviations can be switched on separately: a Chol(upper) buried in a generic leaf (AddedDiag, Sum, ...) is
    sampled through that leaf's own decomposition of the dense matrix, i.e. correctly."""
    def f(x):
        if chol and x.get("cls") == "Chol" and x.get("upper"):
            return {"cls": "Root", "root": x["t"]}
        if interp and x.get("cls") == "Interpolated":
            return dict(x, ri=x["li"], rv=x["lv"])
        return x
    return opbuild.dense(transform(e, f))


def known_cause(e, cov, B, n, tol):
    """which listed deviation (if any) explains the observed covariance"""
    has_chol = contains(e, lambda x: x["cls"] == "Chol" and x.get("upper"))
    has_asym = contains(e, interp_asym)
    for ch, ip, cause in ((False, True, "interp-asymmetric"), (True, False, "chol-upper"), (True, True, "chol-upper")):
        if (ch and not has_chol) or (ip and not has_asym and not ch):
            continue
        try:
            At = transcribed_dense(e, chol=ch, interp=ip).reshape(B, n, n)
        except Exception:
            continue
        if member_err(cov, At)[0] <= tol:
            return cause if (has_chol or has_asym) else "unknown"
    return None


def spectrum_ok(e, simple=True):
    """every generic leaf matrix has kappa <= 100 and (simple=True) a simple spectrum: the regime in which the Lanczos
    roots (single start vector: needs distinct eigenvalues) resp. the contour quadrature (simple=False: only the
    condition number matters) are accurate; elsewhere their accuracy is property C06 / C11"""
    ok = [True]

    def visit(x):
        if isinstance(x, dict) and "cls" in x:
            if x["cls"] in ("PsdSum", "BlockDiag", "BlockInterleaved", "SumBatch", "Interpolated"):
                for v in x.get("ops", []):
                    visit(v)
                if "base" in x:
                    visit(x["base"])
                return
            if x["cls"] in M.DIAG_CLS or x["cls"] == "Identity":
                return
            A = opbuild.dense(x)
            ev = torch.linalg.eigvalsh((A + A.mT) / 2)
            lo, hi = ev[..., 0], ev[..., -1]
            if bool((lo <= 0).any()) or bool((hi / lo.clamp_min(1e-300) > 100).any()):
                ok[0] = False
                return
            if simple and ev.shape[-1] > 1:
                gaps = (ev[..., 1:] - ev[..., :-1]) / hi[..., None]
                if bool((gaps < 1e-2).any()):
                    ok[0] = False
    visit(e)
    return ok[0]


def member_err(cov, Af):
    """largest entry of |cov - A| per batch member, each entry (i,j) measured against sqrt(A_ii A_jj) (the scale in
    which a root's backward error is invariant under diagonal scaling), floored at 1e-3 of the member's largest entry;
    cov: (k, B, n, n) or (B, n, n).  Returns (error, index of the worst member)."""
    mx = Af.abs().amax(dim=(-2, -1))
    mx = torch.where(mx > 0, mx, torch.ones_like(mx))
    d = torch.diagonal(Af, dim1=-2, dim2=-1).clamp_min(0).sqrt()
    den = torch.maximum(d[..., :, None] * d[..., None, :], 1e-3 * mx[..., None, None])
    err = ((cov - Af).abs() / den).amax(dim=(-2, -1))
    err = torch.where(torch.isnan(err), torch.full_like(err, float("inf")), err)
    while err.dim() > 1:
        err = err.amax(dim=0)
    if not err.numel():
        return 0.0, 0
    j = int(err.argmax())
    return float(err[j]), j


def eval_case(case):
    """run the implementation on one case; returns a JSON-able result (and the Coq literal of the case)"""
    torch.set_num_threads(1)
    e, st, k = case["expr"], tuple(case["st"]), case["k"]
    hist = case.get("history") or {}
    steps, target, dname = hist.get("steps", []), hist.get("target", "top"), hist.get("derive")
    res = {"fails": [], "notes": [], "coq": None}
    A = opbuild.dense(e)
    f32 = hist.get("dtype") == "float32"
    ftol = 1e-4 if f32 else 1e-9          # exact paths: a few units of round-off of the dtype, relative to the member
    try:
        torch.manual_seed(case["nseed"] % (1 << 31))
        try:
            if f32:
                raise M.Unsupported("float32 (the model is compared on binary64 only)")
            op, node = M.build_tree(e)
        except M.Unsupported as u:
            op, node = opbuild.build(e, torch.float32 if f32 else torch.float64), None
            res["notes"].append("unmodelled: %s" % u)
    except Exception as ex:
        res["skip"] = "constructor raised %s" % repr(ex)[:160]
        return res
    rng = random.Random(case["nseed"])
    inexact = False
    hist_n = int(A.shape[-1])
    try:
        with settings_ctx(st):
            if steps:
                # family (a): other public calls on the same object(s) first; they may fill the caches the sampler reads
                leaf_ops = [lf["leaf"] for lf in (M.leaves(node) if node is not None else []) if lf["s"] == "gen"]
                targets = {"top": [op], "leaf": leaf_ops or [op], "all": leaf_ops + [op] if leaf_ops != [op] else [op]}[target]
                hist_n = max([hist_n] + [int(t.shape[-1]) for t in targets])
                res["hist_raised"] = H.apply_history(targets, steps, case["nseed"])
            if dname:
                try:
                    op, A = H.derive(dname, op, A, case["nseed"])
                except Exception as ex:           # the derivation itself is not what C18 talks about
                    res["skip"] = "derivation %s: %s" % (dname, repr(ex)[:120])
                    return res
                node = None
                res["notes"].append("unmodelled: derived operator (%s)" % dname)
            exp_shape = [k] + [int(x) for x in A.shape[:-1]]
            with N.patched() as patch:
                out0, plan = N.run_with(patch, op.zero_mean_mvn_samples, k, None)
                res["plan"] = [list(s) for s, _ in plan]
                res["out_shape"] = [int(x) for x in out0.shape]
                if out0.dtype != op.dtype:
                    res["fails"].append({"fail": "dtype", "observed": str(out0.dtype), "expected": str(op.dtype)})
                if res["out_shape"] != exp_shape:
                    res["fails"].append({"fail": "shape", "observed": res["out_shape"], "expected": exp_shape})
                    return res
                degenerate = (st[0] or (st[1] < 800 and st[2]) or H.history_approx(steps, hist_n, st[1])) and not spectrum_ok(e, simple=not st[0])
                if degenerate and not bool(torch.isfinite(out0).all()):
                    # NaN root from a Lanczos breakdown on a degenerate spectrum: properties C06 / C09
                    res["notes"].append("root accuracy not assessed (approximate root is not finite on a degenerate spectrum)")
                    res["root_failed"] = True
                    return res
                if not st[0] and out0.numel() and float(out0.abs().max()) != 0.0:
                    res["fails"].append({"fail": "not-linear", "what": "non-zero draws from zero noise",
                                         "observed": float(out0.abs().max())})
                zs = [[rng.randint(-8, 8) / 4 for _ in range(M.prod(s))] for s, _ in plan]
                if st[0]:
                    # CIQ starts its eigenvalue-estimating Lanczos run at the first noise vector of every member: an
                    # exactly zero vector (possible for dyadic noise, probability 0 for Gaussian noise) is degenerate
                    zs = [[x if x != 0 else 0.25 for x in z] for z in zs]
                if st[0]:
                    with N.ciq_recorder() as rec:
                        out1, plan1 = N.run_with(patch, op.zero_mean_mvn_samples, k, zs)
                    res["ciq_rules"], res["ciq_rec_errors"] = rec.rules, rec.errors
                else:
                    out1, plan1 = N.run_with(patch, op.zero_mean_mvn_samples, k, zs)
                base = None
                if st[0]:      # CIQ: finite differences around generic noise (see c18_noise.jacobian)
                    g = torch.Generator().manual_seed(case["nseed"] % (1 << 31))
                    base = [N._real_randn(M.prod(s), generator=g, dtype=torch.float64) for s, _ in plan]
                J, offs = N.jacobian(patch, op.zero_mean_mvn_samples, k, plan, base=base)
                if node is not None:
                    # rank-deficient members: psd_safe_cholesky's jitter / the symeig fallback decide the root (C16): read it
                    M.resolve_roots(node, st, observed=bool(steps) or "SingXS" in str(case["cell"][0]))
    except Exception as ex:
        tb = traceback.extract_tb(ex.__traceback__)
        where = next((f for f in reversed(tb) if "linear_operator" in f.filename), tb[-1])
        approx_setting = st[0] or (st[1] < 800 and st[2]) or H.history_approx(steps, hist_n, st[1])
        if approx_setting and os.path.basename(where.filename) in ("lanczos.py", "_root_decomposition.py", "contour_integral_quad.py",
                                                                    "minres.py", "linear_cg.py") and not spectrum_ok(e, simple=not st[0]):
            # the approximate root itself broke down on a degenerate / ill-conditioned spectrum: properties C06 / C09 / C11
            res["notes"].append("root accuracy not assessed (approximate root failed on a degenerate spectrum: %s)" % type(ex).__name__)
            res["root_failed"] = True
            return res
        res["fails"].append({"fail": "raises", "exc": type(ex).__name__, "msg": str(ex)[:200],
                             "where": "%s:%s" % (os.path.basename(where.filename), where.name)})
        return res
    gens = [lf for lf in (M.leaves(node) if node is not None else [])]
    methods = sorted({lf.get("method") for lf in gens if lf["s"] == "gen"})
    res["methods"] = methods
    if node is None:
        inexact = st[0] or (st[1] < 800 and st[2])
    else:
        inexact = any(m in ("ciq", "lanczos") for m in methods) or \
            any(lf["s"] == "gen" and lf["method"] == "given" and lf["cls"] not in M.CONSTRUCTOR_ROOT and (st[1] < 800 and st[2])
                for lf in gens)
    inexact = inexact or H.history_approx(steps, hist_n, st[1])
    scale = max(1.0, float(A.abs().max()))
    Aq = A.reshape(-1, A.shape[-2], A.shape[-1])
    offd = Aq - torch.diag_embed(torch.diagonal(Aq, dim1=-2, dim2=-1))
    res["nontrivial"] = bool(offd.abs().max() > 0) or bool(Aq.shape[0] > 1 and (Aq - Aq[:1]).abs().max() > 0)
    # ---- direct predicate
    B = M.prod(exp_shape[1:-1])
    n = exp_shape[-1]
    Af = A.reshape(B, n, n)
    if J is not None:
        Jf = J.reshape(k, B, n, J.shape[-1])
        zflat = torch.tensor([x for z in zs for x in z], dtype=torch.float64)
        lin = float((Jf @ zflat - out1.reshape(k, B, n).to(torch.float64)).abs().max())
        lin_tol = (1e-5 if st[0] else ftol) * max(1.0, float(out1.abs().max()))
        if st[0] and not spectrum_ok(e, simple=not st[0]):
            lin_tol = None        # CIQ outside its accurate regime: the quadrature (chosen from the noise) is visibly noise dependent
        if lin_tol is not None and not lin <= lin_tol:
            res["fails"].append({"fail": "not-linear", "what": "draws(z) != J z", "err": lin})
        cov = Jf @ Jf.transpose(-1, -2)                       # (k, B, n, n)
        # per batch member, in that member's own scale (members of the var families differ by up to 64^2)
        cov_err, worst = member_err(cov, Af)
        cross = 0.0
        for t in range(k):
            for t2 in range(t + 1, k):
                cross = max(cross, member_err(Jf[t] @ Jf[t2].transpose(-1, -2) + Af, Af)[0])
        res["cov_err"], res["cross"] = cov_err, cross
        if inexact:
            if spectrum_ok(e, simple=not st[0]):
                # Lanczos roots carry a ~1e-6 relative jitter; the contour quadrature (no Lanczos root involved: every
                # generic sampler runs CIQ, sizes <= 20 so its eigenvalue estimates and MINRES are exact) is accurate to
                # ~1e-14 on these spectra (kappa <= 100)
                tol = 1e-6 if st[0] else 1e-3
            else:
                tol = None
                res["notes"].append("root accuracy not assessed (approximate root, spectrum not simple / kappa > 100)")
        else:
            tol = ftol
        if tol == ftol and "SingXS" in str(case["cell"][0]):
            # the rank-deficient member is factorized with psd_safe_cholesky's jitter (up to 100 x settings.cholesky_jitter,
            # absolute, on a member of scale >= 1) unless the symeig fallback is taken: the jitter loop itself is C16's
            tol = 3e-4 if f32 else 2e-6
        if f32 and inexact:
            tol = None
            res["notes"].append("root accuracy not assessed (approximate root in float32)")
        res["cov_tol"] = tol
        if tol is not None and not cov_err <= tol:
            f = {"fail": "cov", "err": cov_err, "tol": tol, "member": worst, "members": B}
            cause = known_cause(e, cov, B, n, tol) if not dname else None
            if cause:
                f["cause"] = cause
            if "cause" not in f and st[0]:
                # CIQ runs MINRES on closures around op._matmul; operators whose _matmul returns its argument
                # (Identity-like) are corrupted by MINRES' in-place updates (listed under property C11)
                try:
                    for lop in ([lf["leaf"] for lf in gens if lf["s"] == "gen"] or [op]):
                        x = torch.ones(*lop.shape[:-1], 1, dtype=torch.float64)
                        if lop._matmul(x).data_ptr() == x.data_ptr():
                            f["cause"] = "matmul-returns-argument"
                except Exception:
                    pass
            res["fails"].append(f)
        if not cross <= (1e-5 if st[0] else ftol):
            res["fails"].append({"fail": "draws-correlated", "err": cross})
    else:
        res["notes"].append("no noise requested")
        if float(Af.abs().max()) > 0:
            res["fails"].append({"fail": "cov", "err": float(Af.abs().max()) / scale, "tol": 0.0, "what": "no randn call"})
    # ---- Coq case
    if node is not None:
        try:
            opaque = M.has_opaque(node, st)
            root = None
            if not opaque and J is not None:
                R, unexpl = M.canonical_root(node, st, k, J, offs)
                res["unexplained"] = unexpl
                root = M.flat(R)
                if not unexpl <= 1e-9 * scale:
                    res["model_struct_mismatch"] = unexpl
            tol = 1e-9
            res["coq"] = M.coq_case(st, k, node, opaque, zs, res["plan"], res["out_shape"], M.flat(out1),
                                    root, M.flat(Af), tol)
            res["desc"] = M.describe_node(node)
            res["nd"] = M.nd(node, st)
        except Exception as ex:
            res["notes"].append("abstraction failed: %s" % repr(ex)[:200])
            res["abstraction_error"] = traceback.format_exc()[-600:]
    return res


# ----------------------------------------------------------------------------------------- probe vectors of inv_quad_logdet

PROBE_CELLS = [(b, n, t) for b in ([], [2], [1, 3]) for n in (4, 7) for t in (1, 3)]


def eval_probe(pc):
    """functions/_inv_quad_logdet.py draws its probe vectors with precond_lt.zero_mean_mvn_samples(num_trace_samples)
    (precond_lt = PsdSum(Root(L), Diag) of AddedDiagLinearOperator's pivoted-Cholesky preconditioner), moves the sample
    axis last and normalises.  With recorded noise: (i) the preconditioner's sampler obeys the property (same checks and the
    same Coq comparison as any other case), (ii) ctx.probe_vectors * ctx.probe_vector_norms is that draw in layout (*batch, n, t)."""
    import linear_operator.operators as O
    from linear_operator import settings
    torch.set_num_threads(1)
    batch, n, t, seed = pc["batch"], pc["n"], pc["t"], pc["nseed"]
    res = {"fails": [], "notes": [], "coq": None, "probe": True}
    g = torch.Generator().manual_seed(seed)
    Bm = N._real_randn(*batch, n, n, generator=g, dtype=torch.float64)
    A = (Bm @ Bm.mT / n + torch.eye(n, dtype=torch.float64)).requires_grad_(True)
    d = (torch.rand(*batch, n, generator=g, dtype=torch.float64) + 0.5)
    rng = random.Random(seed)
    store = {}
    try:
        op = O.AddedDiagLinearOperator(O.DenseLinearOperator(A), O.DiagLinearOperator(d))
        with settings.max_cholesky_size(0), settings.min_preconditioning_size(1), settings.max_preconditioner_size(2), \
                settings.num_trace_samples(t), N.patched() as patch:
            def prov(idx, size):
                if idx not in store:
                    store[idx] = torch.tensor([rng.randint(-8, 8) / 4 for _ in range(M.prod(size))], dtype=torch.float64)
                return store[idx]
            patch.calls, patch.provider = [], prov
            _, ld = op.inv_quad_logdet(inv_quad_rhs=None, logdet=True)
            plan = list(patch.calls)
            node_fn, stack, seen = None, [ld.grad_fn], set()
            while stack:
                f = stack.pop()
                if f is None or f in seen:
                    continue
                seen.add(f)
                if hasattr(f, "probe_vectors"):
                    node_fn = f
                    break
                stack += [x for x, _ in f.next_functions]
            if node_fn is None or not plan:
                res["fails"].append({"fail": "probe-not-reached", "what": "inv_quad_logdet drew no sampler noise / saved no probe vectors",
                                     "observed": [list(s_) for s_, _ in plan]})
                return res
            pv, pn = node_fn.probe_vectors.detach(), node_fn.probe_vector_norms.detach()
            plt = op._preconditioner()[1]
            L = plt.linear_ops[0].root.to_dense().detach().to(torch.float64)
            dd = plt.linear_ops[1]._diag.detach().to(torch.float64)
            L = L.expand(*batch, *L.shape[-2:])
            dd = dd.expand(*batch, n)
            P = L @ L.mT + torch.diag_embed(dd)                       # dense meaning of the preconditioner
            zs = [store[i].tolist() for i in range(len(plan))]
            smp, plan2 = N.run_with(patch, plt.zero_mean_mvn_samples, t, zs)
            J, offs = N.jacobian(patch, plt.zero_mean_mvn_samples, t, plan2)
    except Exception as ex:
        tb = traceback.extract_tb(ex.__traceback__)
        where = next((f for f in reversed(tb) if "linear_operator" in f.filename), tb[-1])
        res["fails"].append({"fail": "raises", "exc": type(ex).__name__, "msg": str(ex)[:200],
                             "where": "%s:%s" % (os.path.basename(where.filename), where.name)})
        return res
    res["plan"] = [list(s_) for s_, _ in plan2]
    res["out_shape"] = [int(x) for x in smp.shape]
    exp_shape = [t] + list(batch) + [n]
    if [list(s_) for s_, _ in plan] != res["plan"]:
        res["fails"].append({"fail": "probe-noise", "what": "inv_quad_logdet did not draw exactly the preconditioner sampler's noise",
                             "observed": [list(s_) for s_, _ in plan], "expected": res["plan"]})
    if res["out_shape"] != exp_shape:
        res["fails"].append({"fail": "shape", "observed": res["out_shape"], "expected": exp_shape})
        return res
    Bn = M.prod(batch)
    Jf = J.reshape(t, Bn, n, J.shape[-1])
    cov = Jf @ Jf.transpose(-1, -2)
    scale = max(1.0, float(P.abs().max()))
    res["cov_err"] = float((cov - P.reshape(Bn, n, n)[None]).abs().max()) / scale
    res["cov_tol"] = 1e-9
    res["cross"] = 0.0
    res["methods"] = ["given"]
    if not res["cov_err"] <= 1e-9:
        res["fails"].append({"fail": "cov", "err": res["cov_err"], "tol": 1e-9, "what": "preconditioner sampler"})
    expect = smp.permute(*range(1, smp.dim()), 0).to(torch.float64)          # (*batch, n, t)
    lay = float((pv * pn - expect).abs().max()) if pv.shape == expect.shape else float("inf")
    nrm = float((pn - expect.norm(dim=-2, keepdim=True)).abs().max()) if pv.shape == expect.shape else float("inf")
    res["probe_layout_err"], res["probe_norm_err"] = lay, nrm
    if not (lay <= 1e-9 * scale and nrm <= 1e-9 * scale):
        res["fails"].append({"fail": "probe-layout", "layout_err": lay, "norm_err": nrm,
                             "observed_shape": list(pv.shape), "expected_shape": list(expect.shape)})
    r = int(L.shape[-1])
    node = {"s": "add", "l": {"s": "add", "l": {"s": "zero", "bs": list(batch), "n": n},
                               "r": {"s": "gen", "bs": list(batch), "n": n, "A": M.flat(L @ L.mT), "cls": "Root",
                                     "rk": ("given", r, M.flat(L)), "method": "given" if n > 1 else "sqrt"}},
            "r": {"s": "diag", "bs": list(batch), "n": n, "d": M.flat(dd)}}
    st = (False, 0, True)
    try:
        R, unexpl = M.canonical_root(node, st, t, J, offs)
        if not unexpl <= 1e-9 * scale:
            res["model_struct_mismatch"] = unexpl
        res["coq"] = M.coq_case(st, t, node, False, zs, res["plan"], res["out_shape"], M.flat(smp), M.flat(R), M.flat(P.reshape(Bn, n, n)), 1e-9)
        res["desc"] = "probe:" + M.describe_node(node)
    except Exception as ex:
        res["notes"].append("abstraction failed: %s" % repr(ex)[:200])
        res["abstraction_error"] = traceback.format_exc()[-600:]
    return res


METH_CODE = {"symeig": 0, "diagonalization": 1, "lanczos": 2, "cholesky": 3}


def probe_method_table():
    """LinearOperator._choose_root_method on a real operator for every combination of cached entries
    {symeig, diagonalization, lanczos} x size below / above max_cholesky_size x fast covar_root_decomposition on / off;
    rows (max_chol, fast, has_symeig, has_diag, has_lanczos, n, observed code) for coq/C18/Check.v bad_meth"""
    import itertools
    import linear_operator.operators as O
    from linear_operator import settings
    from linear_operator.utils.memoize import add_to_cache
    rows = []
    for (n, mc) in ((3, 800), (3, 2), (2, 2), (1, 0), (5, 4)):
        for fast in (True, False):
            for flags in itertools.product((False, True), repeat=3):
                op = O.DenseLinearOperator(torch.eye(n, dtype=torch.float64))
                for name, on in zip(("symeig", "diagonalization", "lanczos"), flags):
                    if on:
                        add_to_cache(op, name, object())
                with settings.max_cholesky_size(mc), settings.fast_computations(covar_root_decomposition=fast):
                    try:
                        got = METH_CODE.get(op._choose_root_method(), 99)
                    except Exception:
                        got = 98
                rows.append((mc, fast, flags[0], flags[1], flags[2], n, got))
    return rows


def meth_shard_src(rows):
    lit = ";\n ".join("(MkMeth (MkSett false %d %s) (MkCState %s %s %s) %d %d)" % (
        mc, common.coq_bool(fast), common.coq_bool(a), common.coq_bool(b), common.coq_bool(c), n, got)
        for (mc, fast, a, b, c, n, got) in rows)
    return ("From mathcomp Require Import ssreflect ssrfun ssrbool eqtype ssrnat seq.\n"
            "From Coq Require Import PrimFloat.\nRequire Import C18.Model C18.ModelBatch C18.Check.\n"
            "Definition cases : seq methcase := [::\n %s].\nEval vm_compute in (bad_meth cases 0).\n" % lit)


def _worker(case):
    try:
        if case.get("probe"):
            return eval_probe(case)
        return eval_case(case)
    except Exception:
        return {"fails": [], "notes": [], "coq": None, "harness_error": traceback.format_exc()[-1200:]}


def run_cases(cases, workers=None):
    import multiprocessing as mp
    torch.set_num_threads(1)
    if workers is None:
        workers = int(os.environ.get("C18_WORKERS", "6"))
    if workers <= 1 or len(cases) < 8:
        return [_worker(c) for c in cases]
    with mp.get_context("fork").Pool(workers) as pool:
        return pool.map(_worker, cases, chunksize=4)


# ----------------------------------------------------------------------------------------- reporting

def case_key(case, f):
    key = {"cls": opbuild.describe(case["expr"]), "top": case["expr"]["cls"], "setting": case["st_name"], "fail": f["fail"]}
    for a in ("cause", "exc", "where"):
        if a in f:
            key[a] = f[a]
    h = case.get("history")
    if h:
        key["history"] = "+".join(h["steps"])
        key["target"] = h["target"]
        if h.get("derive"):
            key["derive"] = h["derive"]
    return key


def report(ctx, case, res, seen):
    n = 0
    for f in res["fails"]:
        key = case_key(case, f)
        sig = json.dumps({k: v for k, v in key.items() if k != "cls"}, sort_keys=True) + key["cls"].split("(")[0]
        if sig in seen:
            continue
        seen.add(sig)
        ctx.violation({"kind": "sampling-failure", "case": dict(case),
                       "failure": f, "observed": {k: res.get(k) for k in ("out_shape", "plan", "cov_err", "cross", "methods")},
                       "expected": "draws of shape (k,*batch,n) = R z with R R^T = dense(expr) per batch member"}, key=key)
        n += 1
    return n


def parse_bad(out):
    m = re.search(r"=\s*\[::\s*(.*?)\]\s*:\s*seq", out, re.S)
    if not m:
        if re.search(r"=\s*\[::\]\s*:\s*seq", out):
            return []
        return None
    body = m.group(1).strip()
    if not body:
        return []
    return [int(re.sub(r"%\w+", "", x).strip()) for x in body.split(";")]


CODES = {1: "wf", 2: "randn-shapes", 3: "output-shape", 4: "model-has-no-value", 5: "draws", 6: "root", 7: "dense-meaning"}


def regenerate():
    os.makedirs(os.path.join(common.COQ, PROP, "gen"), exist_ok=True)
    return None


def run(ctx):
    regenerate()
    torch.set_num_threads(1)
    cells = grid(ctx)
    cases = [make_case(ctx.seed, c, i) for i, c in enumerate(cells)]
    gen_err = [c for c in cases if "gen_error" in c]
    cases = [c for c in cases if "gen_error" not in c]
    for i, (b, n, t) in enumerate(PROBE_CELLS):
        cases.append({"probe": True, "batch": b, "n": n, "t": t, "nseed": random.Random("%s|probe|%d" % (ctx.seed, i)).randrange(1 << 30),
                      "cell": ["probe-vectors", "cg+precond", b, t, n], "st_name": "probe", "st": [False, 0, True], "k": t,
                      "expr": {"cls": "AddedDiag(probe)"}})

    state = {"results": None}
    phase = {}

    def evaluate():
        if state["results"] is None:
            t0 = time.time()
            state["results"] = run_cases(cases)
            phase["evaluate_s"] = round(time.time() - t0, 1)
        return state["results"]

    def on_fail(info):
        # a proof obligation / the build no longer checks: search the implementation at thorough width
        results = evaluate()
        seen = set()
        found = sum(report(ctx, c, r, seen) for c, r in zip(cases, results))
        if not found and ctx.quick:
            class _T:
                quick = False
            wide = [make_case(ctx.seed, c, i) for i, c in enumerate(grid(_T))]
            wide = [c for c in wide if "gen_error" not in c][::3]
            found = sum(report(ctx, c, r, seen) for c, r in zip(wide, run_cases(wide)))
        return found > 0

    t0 = time.time()
    ok = common.proof_stage(ctx, on_fail)
    phase["proof_stage_s"] = round(time.time() - t0, 1)
    results = evaluate()
    seen = set()
    direct = 0
    if ok:
        direct = sum(report(ctx, c, r, seen) for c, r in zip(cases, results))
    for c, r in zip(cases, results):
        if "harness_error" in r:
            ctx.violation({"kind": "harness-crash", "case": c["cell"], "trace": r["harness_error"]}, no_input=True)
    # ---- correspondence shards
    coq_idx = [i for i, r in enumerate(results) if r.get("coq")]
    SH = 60
    shards = []
    for s in range(0, len(coq_idx), SH):
        shards.append(("c18_%d" % (s // SH), M.shard_src([results[i]["coq"] for i in coq_idx[s:s + SH]])))
    n_main = len(shards)
    # CIQ broadcast of the per-member quadrature rule over the sample axis (ModelBatch.t_expand_lead)
    ciq_items = [(i, rule) for i, r in enumerate(results) for rule in (r.get("ciq_rules") or [])]
    CSH = 40
    for s in range(0, len(ciq_items), CSH):
        shards.append(("c18_ciq_%d" % (s // CSH), M.ciq_shard_src([M.coq_ciq_case(rule, 1e-6) for _, rule in ciq_items[s:s + CSH]])))
    n_ciq_end = len(shards)
    meth_rows = probe_method_table()
    shards.append(("c18_meth", meth_shard_src(meth_rows)))
    mism = []
    ciq_mism = []
    meth_mism = []
    if ok and shards:
        t0 = time.time()
        out = common.run_shards(ctx, shards, timeout=600)
        phase["shards_s"] = round(time.time() - t0, 1)
        for si, (name, _) in enumerate(shards):
            rc, o = out[name]
            bad = parse_bad(o) if rc == 0 else None
            if bad is None:
                ctx.violation({"kind": "shard-failed", "shard": name, "out": o[-600:]}, no_input=True)
                continue
            for x in bad:
                if si < n_main:
                    mism.append((coq_idx[si * SH + x // 8], x % 8))
                elif si >= n_ciq_end:
                    meth_mism.append(meth_rows[x // 8])
                else:
                    ciq_mism.append((ciq_items[(si - n_main) * CSH + x // 8], x % 8))
    for row in meth_mism[:3]:
        ctx.violation({"kind": "model-implementation-disagreement", "comparison": "root-method-table",
                       "row": dict(zip(("max_cholesky_size", "fast_root", "has_symeig", "has_diagonalization", "has_lanczos", "n",
                                        "observed_code"), row)),
                       "correspondence": "coq/C18/Check.v bad_meth (ModelBatch.choose_root_method vs _choose_root_method)"},
                      no_input=True)
    n_ciq_alarm = 0
    for (i, rule), code in ciq_mism:
        if results[i]["fails"]:
            continue          # already reported with a concrete failing input by the direct predicate
        n_ciq_alarm += 1
        if n_ciq_alarm <= 3:
            ctx.violation({"kind": "model-implementation-disagreement",
                           "comparison": "ciq-broadcast-" + {1: "rule-size", 2: "weights", 3: "shifts"}.get(code, str(code)),
                           "case": dict(cases[i]), "observed": {k: rule[k] for k in ("Q", "k", "B", "W_shape", "S_shape")},
                           "correspondence": "coq/C18/Check.v check_ciq (t_expand_lead of the per-member rule vs the rule used)"},
                          no_input=True)
    for i, r in enumerate(results):
        if r.get("ciq_rec_errors") and not r["fails"]:
            ctx.violation({"kind": "model-implementation-disagreement", "comparison": "ciq-broadcast (rule could not be recorded)",
                           "case": dict(cases[i]), "trace": r["ciq_rec_errors"][:2]}, no_input=True)
    n_model_alarm = 0
    for i, code in mism:
        c, r = cases[i], results[i]
        if r["fails"]:
            continue          # the implementation fails the property on this case: already reported with its key
        n_model_alarm += 1
        if n_model_alarm <= 5:
            ctx.violation({"kind": "model-implementation-disagreement", "comparison": CODES.get(code, code),
                           "case": dict(c),
                           "observed": {k: r.get(k) for k in ("out_shape", "plan", "cov_err", "desc", "methods")},
                           "correspondence": "coq/C18/Check.v check (model on PrimFloat vs implementation)"}, no_input=True)
    for i, r in enumerate(results):
        if r.get("abstraction_error") and not r["fails"]:
            ctx.violation({"kind": "model-implementation-disagreement", "comparison": "the model could not be evaluated on the observed run",
                           "case": dict(cases[i]), "trace": r["abstraction_error"]}, no_input=True)
        if r.get("model_struct_mismatch") is not None and not r["fails"]:
            ctx.violation({"kind": "model-implementation-disagreement", "comparison": "noise-coordinate structure",
                           "case": dict(cases[i]),
                           "unexplained": r["model_struct_mismatch"]}, no_input=True)
    # ---- coverage
    distinct = set()
    dist = {}
    for c, r in zip(cases, results):
        if r.get("skip") or "cov_err" not in r:
            continue
        if not (r.get("nontrivial") or r.get("probe")):
            continue
        distinct.add((opbuild.describe(c["expr"]), c["st_name"], tuple(r.get("out_shape", [])), c["k"], tuple(map(tuple, r.get("plan", []))),
                      json.dumps(c.get("history"), sort_keys=True)))
        for m_ in r.get("methods", []) or ["(no generic leaf)"]:
            dist[m_] = dist.get(m_, 0) + 1
    evaluated = [r for r in results if "cov_err" in r]
    samples = []
    for c, r in list(zip(cases, results))[:: max(1, len(cases) // 3)][:3]:
        samples.append({"cell": c["cell"], "expr": opbuild.describe(c["expr"]), "setting": c["st_name"], "k": c["k"],
                        "randn_shapes": r.get("plan"), "out_shape": r.get("out_shape"), "cov_err": r.get("cov_err"),
                        "model": r.get("desc")})
    ctx.coverage.update({
        "trusted_base": common.COQ_TRUSTED + [
            "torch primitives modelled by their mathematical meaning in coq/C18/Model.v: matmul, permute/transpose/reshape/"
            "unsqueeze/squeeze/contiguous (index maps on flat row-major data), sqrt, elementwise mul/add with broadcasting, "
            "sum(-3), gather (left_interp), linalg.cholesky (Cholesky-Banachiewicz transcription, no jitter)",
            "roots produced by Lanczos / class-specific root_decomposition overrides (Kron, ConstantMul, ...) are taken from the "
            "implementation (observed) and only their use by the sampler is modelled; their validity is property C06",
            "CIQ branch: only its index layout is modelled (coq/C18/ModelBatch.v ciq_sample: MINRES-then-matmul stands for a "
            "per-member, per-shift matrix); the broadcast of the per-member quadrature rule over the sample axis is compared in Coq "
            "(check_ciq: t_expand_lead of the rule contour_integral_quad builds for the first slice alone vs the rule it used); "
            "quadrature / MINRES accuracy: predicate on the implementation only (C11)",
            "histories: the memoize protocol of the 'root_decomposition' entry (ModelBatch.v hist_run / root_inv_entry) is a hand "
            "transcription; in history cases the root in use is read from the object after sampling (observed, RGiven) and only "
            "its use by the sampler is compared; the validity of what each prior call stores is C06 / C09 / C12",
            "harness/c18_noise.py (torch.randn replaced in-process; call classification by stack inspection), harness/c18_model.py "
            "(operator expression -> sampler expression; checked each run: den vs dense oracle, alg_sample vs draws), "
            "harness/opbuild.py dense oracle",
            "IEEE rounding (exact-arithmetic theorems; tolerance 1e-9 in the correspondence)"],
        "evaluations": len(evaluated),
        "distinct_nontrivial": len(distinct),
        "rule": "cells = class (leaf PSD constructors, structured samplers and two-level nestings; the same over children whose "
                "batch members have different spectra and scales) x settings {default, lanczos (max_cholesky_size=2), fastoff "
                "(max_cholesky_size=2, covar_root_decomposition off), ciq} x batch kind (9, up to 3 batch dims) x k {1,2,3} x size "
                "{1,2,3,5} [x history of prior calls on the object / its generic leaves x derivation]; plus CIQ sampling with an "
                "ACTIVE preconditioner (AddedDiag with constant / non-constant diagonal and low-rank base, alone and under Block* / "
                "SumBatch / PsdSum / Sum / Interpolated; min_preconditioning_size 1, max_preconditioner_size 2, 5, 15; sizes 3, 5, 8); non-trivial = the sampler "
                "returned draws, the complete noise->draws matrix was reconstructed and the dense covariance is not a multiple "
                "of one repeated diagonal member; distinct by (class tree, setting, output shape, k, randn call shapes, history)",
        "history_cases": sum(1 for c in cases if c.get("history")),
        "history_kinds": len(H.HISTORIES), "derivations": len(H.DERIVATIONS),
        "history_steps_that_raised": sum(len(r.get("hist_raised") or []) for r in results),
        "different_member_cases": sum(1 for c in cases if "Var" in str(c["cell"][0]) or "@var" in str(c["cell"][0])),
        "preconditioned_ciq_cases": sum(1 for c in cases if str(c.get("st_name", "")).startswith("ciq_pc")),
        "batch_shapes": [list(b) for b in BATCHES],
        "cells": len(cells), "generator_errors": len(gen_err), "phase_seconds": phase,
        "skipped_constructor": sum(1 for r in results if r.get("skip")),
        "coq_compared": len(coq_idx), "coq_mismatches": len(mism), "model_alarms": n_model_alarm,
        "ciq_rules_compared": len(ciq_items), "ciq_rule_mismatches": len(ciq_mism),
        "method_table_rows": len(meth_rows), "method_table_mismatches": len(meth_mism),
        "extreme_scale_cases": sum(1 for c in cases if "XS" in str(c["cell"][0]) or "@xs" in str(c["cell"][0])),
        "float32_cases": sum(1 for c in cases if (c.get("history") or {}).get("dtype") == "float32"),
        "direct_property_failures": direct,
        "root_accuracy_not_assessed": sum(1 for r in results if any("not assessed" in x for x in r.get("notes", []))),
        "unmodelled": sum(1 for r in results if any(x.startswith("unmodelled") for x in r.get("notes", []))),
        "abstraction_errors": sum(1 for r in results if r.get("abstraction_error")),
        "leaf_methods": dist,
        "max_cov_err_exact": max([r["cov_err"] for r in evaluated if r.get("cov_tol") == 1e-9 and not r["fails"]] or [0.0]),
        "max_cov_err_approx": max([r["cov_err"] for r in evaluated if r.get("cov_tol") == 1e-3 and not r["fails"]] or [0.0]),
        "max_cov_err_ciq": max([r["cov_err"] for r in evaluated if r.get("cov_tol") == 1e-6 and not r["fails"]] or [0.0]),
        "samples": samples,
    })
    ctx.assumptions = [
        "operators are positive semi-definite and symmetric; Interpolated operators have W_r = W_l (visible hypothesis interp_sym)",
        "the leaf roots returned by root_decomposition are valid (R R^T = A: property C06); psd_safe_cholesky adds no jitter on the grid's matrices (C16)",
        "Lanczos / CIQ accuracy is assessed only for simple spectra with kappa <= 100 (tolerance 1e-3); elsewhere only shape, linearity and independence of draws",
        "torch.randn is the only noise source of the samplers and returns i.i.d. standard normals",
        "block_dim = -3 for block operators; batch shapes of children equal (no broadcasting inside PsdSum / Interpolated) in the modelled fragment",
        "histories: every prior call's own result is valid (the first probe of the Lanczos roots is a root of every member, "
        "root_decomposition() returns a valid root: C06 / C09); add_low_rank / cat_rows transplants only with a Cholesky-compatible "
        "root / inverse-root pair (their mismatch is a listed C12 defect)",
    ]


def replay(rp):
    case = rp.get("case")
    if not case:
        print("nothing to replay:", rp.get("kind"), json.dumps(rp.get("obligation", ""))[:400])
        return 1
    torch.set_num_threads(1)
    r = eval_probe(case) if case.get("probe") else eval_case(case)
    if r.get("coq"):
        gen = os.path.join(common.COQ, PROP, "gen")
        os.makedirs(gen, exist_ok=True)
        path = os.path.join(gen, "cases_replay_%d.v" % os.getpid())
        open(path, "w").write(M.shard_src([r["coq"]]))
        rc, out = common.coqc_file(PROP, path, timeout=300)
        bad = parse_bad(out) if rc == 0 else None
        print("model (Coq, PrimFloat) vs implementation:", "agree" if bad == [] else
              ("could not be evaluated: %s" % out[-300:] if bad is None else "DISAGREE on %s" % [CODES.get(x % 8, x) for x in bad]))
        for ext in (".v", ".vo", ".vok", ".vos", ".glob"):
            try:
                os.remove(path[:-2] + ext)
            except OSError:
                pass
        try:
            os.remove(os.path.join(gen, "." + os.path.basename(path)[:-2] + ".aux"))
        except OSError:
            pass
        if bad and not r["fails"]:
            r["fails"].append({"fail": "model-disagreement", "codes": bad})
    print("expr:", opbuild.describe(case["expr"]), "setting:", case["st_name"], "k:", case["k"])
    print("randn shapes:", r.get("plan"), "out shape:", r.get("out_shape"), "cov_err:", r.get("cov_err"))
    print("failures:", json.dumps(r["fails"]))
    return 1 if r["fails"] else 0
