"""C19 — incompatible shapes and out-of-range indices raise, never mis-compute.

tie      : translator harness/c19_tr.py (AST of /repo -> coq/C19/gen/Guards.v: _matmul_broadcast_shape, the int branch
           of _compute_getitem_size, the class x entry-point guard table; theorems of Property.v are re-proved over it)
           + correspondence: for every constructor x operation x operand-shape class / index class the implementation's
           verdict (raises? result shape) and torch's verdict on the dense matrix are written into case shards;
           Coq evaluates (a) its SPEC of torch's rules against torch's verdict and (b) the MODEL (guard table verdict +
           translated guards, or the transcription of the pinned override) against the implementation's verdict.
search   : the property predicate evaluated directly on every case:  torch refuses  =>  the implementation raises
           (a lazily constructed result whose .shape raises counts as raising; one that advertises a shape is a returned result).
"""
import json
import os
import random
import warnings

from . import common, c19_tr, c19_pairs

warnings.filterwarnings("ignore")

ENTRY_OF = {"matmul": "E_matmul", "rmatmul": "E_rmatmul", "solve": "E_solve", "inv_quad": "E_inv_quad",
            "inv_quad_logdet": "E_inv_quad_logdet", "inv_quad_logdet_ld": "E_inv_quad_logdet",
            "add": "E_add", "sub": "E_sub", "mul": "E_mul"}
SQUARE_ENTRY = {"solve": "E_solve", "inv_quad": "E_inv_quad", "inv_quad_logdet": "E_inv_quad_logdet",
                "add_diagonal": "E_add_diagonal", "logdet": "E_logdet", "diagonalization": "E_diagonalization",
                "root_decomposition": "E_root_decomposition", "root_inv_decomposition": "E_root_inv_decomposition",
                "cholesky": "E_cholesky"}


def regenerate():
    gen = os.path.join(common.COQ, "C19", "gen")
    os.makedirs(gen, exist_ok=True)
    code, meta = c19_tr.translate(common.REPO)
    p = os.path.join(gen, "Guards.v")
    if not os.path.exists(p) or open(p).read() != code:
        open(p, "w").write(code)
    json.dump(meta, open(os.path.join(gen, "guards_meta.json"), "w"), indent=0)
    return meta


# ----------------------------------------------------------------------------------------------- operators

SplitRng = c19_pairs.SplitRng


def operators(seed, quick):
    """deterministic list of operator instances: (expr, batch, square?)"""
    from . import opbuild as ob
    batches = [[], [2]] if quick else [[], [2], [2, 1], [1, 3]]
    out = []
    for cls in ob.ALL:
        for batch in batches:
            for (m, n) in ((3, 3), (3, 2)):
                if (m != n) and cls in ob.SQUARE_ONLY:
                    continue
                psd = (m == n) and cls in ob.PSD_CAPABLE
                tag = "%s|%s|%d|%d" % (cls, batch, m, n)
                rng = SplitRng(random.Random("C19-struct-" + tag), random.Random("%d-%s" % (seed, tag)))
                child = "Dense" if cls in ob.COMPOSITE else None
                try:
                    e = ob.gen(rng, cls, batch=batch, m=m, n=n, psd=psd, child=child)
                except Exception:
                    try:
                        e = ob.gen(rng, cls, batch=batch, m=m, n=n, psd=False, child=child)
                    except Exception:
                        continue
                out.append((tag, e))
    return out


THIN_SHAPES = ((3, 1), (2, 1), (1, 3), (2, 3))
SQUARE_ONLY_OPS = ("solve", "inv_quad", "inv_quad_logdet", "logdet", "cholesky", "root_decomposition", "root_inv_decomposition",
                   "diagonalization", "sqrt_inv_matmul")


def thin_operators(seed, quick):
    """rectangular instances of every class that has them, in the shapes the main grid (3 x 2) does not have: a single
    COLUMN (m x 1: torch's Cholesky / eigendecompositions of the data do not fail on it), a single row, wide — for the
    square-only operations"""
    from . import opbuild as ob
    out = []
    for cls in ob.ALL:
        if cls in ob.SQUARE_ONLY:
            continue
        for B in ([], [2]) if quick else ([], [2], [2, 1]):
            for (m, k) in THIN_SHAPES:
                e = c19_pairs.rhs_expr(cls, B, m, k, seed)
                if e is not None:
                    out.append(("%s|%s|%d|%d|thin" % (cls, B, m, k), e))
    return out


def square_only_cases(sh, rng):
    m, k = sh[-2], sh[-1]
    kind = "nonsquare_col" if k == 1 else ("nonsquare_row" if m == 1 else ("nonsquare_wide" if m < k else "nonsquare"))
    cs = [{"op": o, "kind": kind, "arg": tspec(rng, [m, 2])} for o in SQUARE_ONLY_OPS]
    cs.append({"op": "add_diagonal", "kind": kind, "arg": tspec(rng, [k])})
    cs.append({"op": "add_jitter", "kind": kind, "arg": tspec(rng, [])})
    return cs


def small_operators(seed):
    """1 x 1 (unbatched) instances of every constructor that has one: for `@`, a 1 x 1 LEFT operand against a larger
    right operand is the other way for an inner dimension of size 1 to be broadcast"""
    from . import opbuild as ob
    out = []
    for cls in ob.ALL:
        tag = "%s|[]|1|1" % cls
        rng = SplitRng(random.Random("C19-struct-" + tag), random.Random("%d-%s" % (seed, tag)))
        try:
            e = ob.gen(rng, cls, batch=[], m=1, n=1, psd=False, child="Dense" if cls in ob.COMPOSITE else None)
            if ob.shape_of(e) != [1, 1]:
                continue
        except Exception:
            continue
        out.append((tag, e))
    return out


# ----------------------------------------------------------------------------------------------- cases

def tspec(rng, shape, lo=1, hi=3):
    import math
    n = int(math.prod(shape)) if shape else 1
    return {"shape": list(shape), "data": [rng.randint(lo, hi) for _ in range(n)]}


def matmul_operands(B, m, n):
    """(shape class, operand shape, torch should refuse?) for  A(B, m, n) @ X"""
    w = n + 1
    out = [("wrong_inner", [w, 2]), ("wrong_inner_vec", [w]), ("wrong_inner_batched", B + [w, 2]),
           ("scalar", []), ("extra_batch_wrong_inner", [2, w, 2])]
    if n != 1:
        out += [("size1_inner", [1, 2]), ("size1_inner_vec", [1]), ("size1_inner_batched", B + [1, 2]),
                ("extra_batch_size1_inner", [2, 1, 2])]
    if m != n:
        out.append(("transposed_inner", [m, 2]))
    if B and B[0] != 1:
        out.append(("bad_batch", [B[0] + 3] + B[1:] + [n, 2]))
        out.append(("bad_batch_longer", [7] + [b + 2 for b in B] + [n, 2]))
    # valid controls
    out += [("ok_vec", [n]), ("ok_mat", [n, 2]), ("ok_batched", B + [n, 2]), ("ok_extra_batch", [2] + B + [n, 2])]
    if B:
        out.append(("ok_bcast_batch", [1] * len(B) + [n, 2]))
    return out


def elementwise_operands(B, m, n):
    out = [("wrong_col", B + [m, n + 1]), ("wrong_row", B + [m + 1, n]), ("wrong_vec", [n + 1]),
           ("extra_dim_wrong", [2, m, n + 2])]
    if B and B[0] != 1:
        out.append(("bad_batch", [B[0] + 3] + B[1:] + [m, n]))
    out += [("ok_same", B + [m, n]), ("ok_row_vec", [n]), ("ok_col", [m, 1]), ("ok_extra_batch", [2] + B + [m, n])]
    return out


def cases_for(sh, rng):
    """declarative cases for an operator of shape sh (list); each: dict(op, kind, arg)"""
    B, m, n = sh[:-2], sh[-2], sh[-1]
    sq = m == n
    cs = []
    for kind, s in matmul_operands(B, m, n):
        x = tspec(rng, s)
        cs.append({"op": "matmul", "kind": kind, "arg": x})
        if sq:
            for op in ("solve", "inv_quad", "inv_quad_logdet", "inv_quad_logdet_ld"):
                cs.append({"op": op, "kind": kind, "arg": x})
    for kind, s in matmul_operands(B, n, m):       # X @ A : X is (..., p, m)
        s2 = s if len(s) < 2 else s[:-2] + [s[-1], s[-2]]
        cs.append({"op": "rmatmul", "kind": kind, "arg": tspec(rng, s2)})
    for kind, s in elementwise_operands(B, m, n):
        x = tspec(rng, s)
        for op in ("add", "sub", "mul"):
            cs.append({"op": op, "kind": kind, "arg": x})
        if len(s) >= 2:
            for op in ("add_lo", "mul_lo"):
                cs.append({"op": op, "kind": kind, "arg": x})
    for kind, s in matmul_operands(B, m, n):
        if len(s) >= 2:
            cs.append({"op": "matmul_lo", "kind": kind, "arg": tspec(rng, s)})
    # add_diagonal
    dl = [("wrong_len", [n + 1]), ("wrong_len_short", [2] if n != 2 else [4]), ("wrong_len_batched", B + [n + 1]),
          ("ok_full", [n]), ("ok_const", [1]), ("ok_scalar", []), ("ok_batched", B + [n])]
    if B and B[0] != 1:
        dl.append(("bad_batch", [B[0] + 3] + B[1:] + [n]))
    for kind, s in dl:
        cs.append({"op": "add_diagonal", "kind": kind if sq else "nonsquare_" + kind, "arg": tspec(rng, s)})
    # expand
    el = [("wrong_matrix", B + [m + 1, n]), ("fewer_dims", [n]), ("neg_new_dim", [-1] + B + [m, n]),
          ("ok_same", B + [m, n]), ("ok_new_batch", [2] + B + [m, n]), ("ok_minus1", B + [-1, -1])]
    if B and B[0] != 1:
        el.append(("nonsingleton_batch", [B[0] + 1] + B[1:] + [m, n]))
    if B and B[0] == 1:
        el.append(("ok_expand_singleton", [4] + B[1:] + [m, n]))
    for kind, s in el:
        cs.append({"op": "expand", "kind": kind, "arg": {"sizes": s}})
    # cat
    nd = len(sh)
    for dim in (-1, -2) + ((0,) if B else ()):
        bad = list(sh)
        bad[-2 if dim == -1 else -1] += 1
        ok = list(sh)
        for pos in (0, 1):
            cs.append({"op": "cat", "kind": "mismatch_dim%d_pos%d" % (dim, pos),
                       "arg": {"others": [tspec(rng, bad)], "pos": pos, "dim": dim}})
        cs.append({"op": "cat", "kind": "rank_mismatch_dim%d" % dim,
                   "arg": {"others": [tspec(rng, [2] + list(sh))], "pos": 0, "dim": dim}})
        cs.append({"op": "cat", "kind": "ok_dim%d" % dim, "arg": {"others": [tspec(rng, ok)], "pos": 0, "dim": dim}})
    cs.append({"op": "cat", "kind": "dim_out_of_range", "arg": {"others": [tspec(rng, list(sh))], "pos": 0, "dim": nd}})
    # cat_rows(cross_mat, new_mat):  [[A, B^T], [B, D]]
    for kind, cs_, ns_ in (("wrong_cols", B + [2, n + 1], B + [2, 2]), ("new_mat_wrong", B + [2, n], B + [3, 3]),
                           ("new_mat_rect", B + [2, n], B + [2, 3]), ("ok", B + [2, n], B + [2, 2])):
        cs.append({"op": "cat_rows", "kind": kind if sq or kind != "ok" else "nonsquare_ok_shapes",
                   "arg": {"cross": tspec(rng, cs_), "new": tspec(rng, ns_)}})
    # getitem
    for pos in range(nd):
        size = sh[pos]
        for kind, v in (("ge", size), ("lt", -size - 1), ("far", size + 7), ("ok_last", size - 1), ("ok_neg", -size)):
            where = "pos%d" % (pos - nd)
            idx = [{"slice": None}] * pos + [{"int": v}] + [{"slice": None}] * (nd - pos - 1)
            cs.append({"op": "getitem_int", "kind": "%s_%s" % (kind, where), "arg": {"idx": idx}})
            idx = [{"slice": None}] * pos + [{"tensor": {"shape": [2], "data": [0, v]}}] + [{"slice": None}] * (nd - pos - 1)
            cs.append({"op": "getitem_tensor", "kind": "%s_%s" % (kind, where), "arg": {"idx": idx}})
            idx = [{"tensor": {"shape": [2], "data": [0, v if p == pos else 0]}} for p in range(nd)]
            cs.append({"op": "getitem_alltensor", "kind": "%s_%s" % (kind, where), "arg": {"idx": idx}})
    cs.append({"op": "getitem_int", "kind": "too_many", "arg": {"idx": [{"int": 0}] * (nd + 1)}})
    cs += index_family_cases(sh)
    # constructors with a dense counterpart (checked by _check_args under settings.debug, or lazily by _size)
    for kind, s in matmul_operands(B, m, n):
        if len(s) >= 2:
            cs.append({"op": "ctor_matmul", "kind": kind, "arg": tspec(rng, s)})
    for kind, s in (("wrong_len", [n + 1]), ("wrong_len_batched", B + [n + 1]), ("ok_full", B + [n])):
        cs.append({"op": "add_diag_lo", "kind": kind if sq else "nonsquare_" + kind, "arg": tspec(rng, s)})
    if not sq:
        for op in ("solve", "inv_quad", "inv_quad_logdet", "logdet", "cholesky", "root_decomposition",
                   "root_inv_decomposition", "diagonalization"):
            cs.append({"op": op, "kind": "nonsquare", "arg": tspec(rng, [m, 2])})
    return cs


INDEX_DTYPES = ("int32", "int16", "int8", "uint8")     # besides the default int64; kept only where torch accepts them as index


def index_family_cases(sh):
    """out-of-range index cells varied over the index DTYPE (everything torch may accept as an index: the harness probes
    torch on the dense tensor with an in-range index of the same dtype / container and drops the cell when torch refuses the
    dtype itself — a legacy uint8 mask, int16 / int8 on this torch) and over the index CONTAINER (tensor, python list, 0-d
    tensor), on the absorbed path (row and column both tensors; batch dimensions sliced or indexed too) and the mixed paths
    (one tensor, the rest slices / ints)."""
    nd = len(sh)
    S = {"slice": None}
    cs = []

    def T(vals, dt):
        return {"tensor": {"shape": [len(vals)], "data": list(vals)}, "dtype": dt}

    def add(op, kind, idx, dt, cont):
        cs.append({"op": op, "kind": kind, "arg": {"idx": idx}, "idx_dtype": dt, "idx_container": cont, "probe": True})
    for pos in range(nd):
        size = sh[pos]
        where = "pos%d" % (pos - nd)
        for kind, v in (("ge", size), ("lt", -size - 1), ("ok_last", size - 1)):
            for dt in INDEX_DTYPES:
                if v < 0 and dt == "uint8":
                    continue
                k = "%s_%s" % (kind, where)
                # one tensor index, slices elsewhere (interpolation / _getitem path)
                add("getitem_tensor", k, [S] * pos + [T([0, v], dt)] + [S] * (nd - pos - 1), dt, "tensor")
                # every dimension a tensor (absorbed _get_indices path)
                add("getitem_alltensor", k, [T([0, v if p == pos else 0], dt) for p in range(nd)], dt, "tensor")
                # row and column tensors, batch dimensions sliced (absorbed path of batched operators)
                if nd > 2 and pos >= nd - 2:
                    add("getitem_rowcol", k, [S] * (nd - 2) + [T([0, v if p == pos else 0], dt) for p in (nd - 2, nd - 1)],
                        dt, "tensor")
            # mixed dtypes on the absorbed path: the out-of-range index int32, the others int64
            if kind != "ok_last":
                add("getitem_alltensor", "%s_%s" % (kind, where),
                    [T([0, v if p == pos else 0], "int32" if p == pos else "int64") for p in range(nd)], "int32+int64", "tensor")
        for kind, v in (("ge", size), ("lt", -size - 1), ("ok_last", size - 1)):
            k = "%s_%s" % (kind, where)
            # python lists (converted by __getitem__ to int64 tensors)
            add("getitem_tensor", k, [S] * pos + [{"list": [0, v]}] + [S] * (nd - pos - 1), "int64", "list")
            add("getitem_alltensor", k, [{"list": [0, v if p == pos else 0]} for p in range(nd)], "int64", "list")
            # 0-d tensors (converted by __getitem__ to python ints)
            for dt in ("int64", "int32"):
                add("getitem_int", k, [S] * pos + [{"scalar": v, "dtype": dt}] + [S] * (nd - pos - 1), dt, "tensor0d")
    # mixed paths on the matrix dimensions: tensor row + int column, int row + tensor column
    m, n = sh[-2], sh[-1]
    for dt in ("int64", "int32"):
        pre = [S] * (nd - 2)
        for kind, r, c in (("tensor_ge_row", T([0, m], dt), {"int": 0}), ("int_ge_col", T([0, 1 % m], dt), {"int": n}),
                           ("tensor_lt_col", {"int": 0}, T([0, -n - 1], dt)), ("int_lt_row", {"int": -m - 1}, T([0, 1 % n], dt)),
                           ("ok", T([0, m - 1], dt), {"int": n - 1})):
            add("getitem_mixed", kind, pre + [r, c], dt, "tensor+int")
    return cs


INV_FORMS = ("direct", "times_const", "unsqueeze", "expand", "sum_self", "matmul_eye")
INV_OPS = ("solve", "inv_quad", "inv_quad_logdet", "sqrt_inv_matmul", "linalg_solve")


def inverse_form(name, op, D):
    """(wrapped / composite operator whose _solve is the generic one, its dense value)"""
    import torch
    from linear_operator.operators import DenseLinearOperator
    n = D.shape[-1]
    if name == "direct":
        return op, D
    if name == "times_const":
        return op * 2.5, D * 2.5
    if name == "unsqueeze":
        return op.unsqueeze(0), D.unsqueeze(0)
    if name == "expand":
        return op.expand(2, *D.shape), D.expand(2, *D.shape)
    if name == "sum_self":
        return op + op, D + D
    if name == "matmul_eye":
        eye = torch.eye(n, dtype=D.dtype).expand(*D.shape[:-2], n, n)
        return op @ DenseLinearOperator(eye.contiguous()), D.clone()
    raise ValueError(name)


def inverse_family_cases(sh, rng):
    """invalid right-hand-side ROW COUNTS for the inverse-type entry points, on both solver routes (Cholesky: default
    settings; CG / Lanczos: max_cholesky_size(0)): integer multiples and divisors of N (2N, 3N, N/2 — they survive every
    `reshape(n_i, -1)` / chunking of a structured `_matmul` closure), N + 1, N - 1 and 1, plus the valid control"""
    B, n = sh[:-2], sh[-1]
    rows = [("rows_2N", 2 * n), ("rows_3N", 3 * n), ("rows_Np1", n + 1), ("ok", n)]
    if n % 2 == 0 and n // 2 > 1:
        rows.append(("rows_Nhalf", n // 2))
    if n - 1 > 1:
        rows.append(("rows_Nm1", n - 1))
    if n > 1:
        rows.append(("rows_1", 1))
    cs = []
    for kind, r in rows:
        for route in ("chol", "cg"):
            for o in INV_OPS:
                cs.append({"op": "inv_" + o, "kind": kind, "route": route, "rows": r, "cols": 2, "arg": {"rows": r, "cols": 2}})
    return cs


def execute_inverse(L, DL, case, x):
    """-> (impl verdict, torch verdict); x = right-hand side of shape (batch of L, rows, cols)"""
    import torch
    import linear_operator
    o = case["op"][4:]

    def call():
        if o == "solve":
            return L.solve(x)
        if o == "inv_quad":
            return L.inv_quad(x)
        if o == "inv_quad_logdet":
            return L.inv_quad_logdet(x, logdet=False)[0]
        if o == "sqrt_inv_matmul":
            return L.sqrt_inv_matmul(x)
        return torch.linalg.solve(L, x)

    def run():
        if case["route"] == "cg":
            with linear_operator.settings.max_cholesky_size(0):
                return call()
        return call()

    def ref():
        if DL.shape[-1] != DL.shape[-2]:
            raise RuntimeError("torch: not square")
        return torch.zeros_like(DL).matmul(x)          # the shape rule of A^{-1} X
    return c19_pairs.attempt_shape(run), c19_pairs.attempt_shape(ref)


def ctor_cases(clsname, sh, rng):
    """constructor calls tied to one class: DenseLinearOperator(non-matrix), MulLinearOperator(shape mismatch),
    InterpolatedLinearOperator(index / value shape mismatch)"""
    B, m, n = sh[:-2], sh[-2], sh[-1]
    cs = []
    if clsname == "DenseLinearOperator":
        for kind, s in (("vector", [n]), ("scalar", []), ("ok_matrix", [m, n]), ("ok_batched", [2, m, n])):
            cs.append({"op": "ctor_dense", "kind": kind, "arg": tspec(rng, s)})
    if clsname == "RootLinearOperator" and m == n:
        for kind, s in (("wrong_size", B + [n + 1, 2]), ("ok_same", B + [n, 2])) + \
                ((("bad_batch", [B[0] + 3] + B[1:] + [n, 2]),) if B and B[0] != 1 else ()):
            cs.append({"op": "ctor_mul", "kind": kind, "arg": tspec(rng, s)})
    if clsname == "InterpolatedLinearOperator":
        for kind in ("left_values_shape", "right_values_shape", "ok"):
            cs.append({"op": "ctor_interp", "kind": kind, "arg": {"which": kind}})
    return cs


def py_index(idx, zero=False):
    """zero=True: the same index with every value replaced by 0 (the dtype / container probe)"""
    import torch
    out = []
    for it in idx:
        if "int" in it:
            out.append(0 if zero else int(it["int"]))
        elif "tensor" in it:
            dt = getattr(torch, it.get("dtype", "int64"))
            data = [0 if zero else v for v in it["tensor"]["data"]]
            out.append(torch.tensor(data, dtype=dt).reshape(it["tensor"]["shape"]))
        elif "list" in it:
            out.append([0 if zero else int(v) for v in it["list"]])
        elif "scalar" in it:
            out.append(torch.tensor(0 if zero else int(it["scalar"]), dtype=getattr(torch, it.get("dtype", "int64"))))
        else:
            out.append(slice(None))
    return tuple(out)


def force(r):
    """shape of a result.  A lazily constructed operator whose .shape cannot even be read counts as raising; one that
    advertises a shape is a returned result, also when its dense form then fails (its shape is what the caller sees)."""
    if isinstance(r, tuple):
        r = r[0]
    if hasattr(r, "to_dense") and not hasattr(r, "storage"):
        shp = tuple(r.shape)
        try:
            d = r.to_dense()
        except Exception:
            return shp
        return tuple(d.shape)
    return tuple(r.shape)


def attempt(f):
    try:
        return ("ok", list(force(f())))
    except Exception as ex:                      # noqa: any exception is "raises"
        return ("raise", (type(ex).__name__ + ": " + str(ex))[:90])


def execute(op, D, case):
    """-> (impl verdict, torch verdict)"""
    import torch
    from . import opbuild as ob
    from linear_operator.operators import cat as lo_cat, to_linear_operator, DenseLinearOperator
    o, arg = case["op"], case["arg"]
    sq = D.shape[-1] == D.shape[-2]

    def need_square(f):
        def g():
            if not sq:
                raise RuntimeError("torch: not square")
            return f()
        return g
    if o in ("matmul", "rmatmul", "solve", "inv_quad", "inv_quad_logdet", "inv_quad_logdet_ld", "add", "sub", "mul",
             "add_lo", "mul_lo", "matmul_lo", "add_diagonal"):
        X = ob.tt(arg)
    if o.startswith("ctor_") and isinstance(arg, dict) and "shape" not in arg and o != "ctor_interp":
        raise ValueError(o)
    Z = None
    if o == "matmul":
        return attempt(lambda: op.matmul(X)), attempt(lambda: D.matmul(X))
    if o == "matmul_lo":
        return attempt(lambda: op.matmul(DenseLinearOperator(X))), attempt(lambda: D.matmul(X))
    if o == "rmatmul":
        return attempt(lambda: op.rmatmul(X)), attempt(lambda: X.matmul(D))
    if o in ("solve", "inv_quad", "inv_quad_logdet", "inv_quad_logdet_ld") and case["kind"] != "nonsquare":
        ref = attempt(need_square(lambda: torch.zeros_like(D).matmul(X)))
        if o == "solve":
            return attempt(lambda: op.solve(X)), ref
        if o == "inv_quad":
            return attempt(lambda: op.inv_quad(X)), ref
        if o == "inv_quad_logdet":
            return attempt(lambda: op.inv_quad_logdet(X, logdet=False)), ref
        return attempt(lambda: op.inv_quad_logdet(X, logdet=True)), ref
    if o == "add":
        return attempt(lambda: op + X), attempt(lambda: D + X)
    if o == "sub":
        return attempt(lambda: op - X), attempt(lambda: D - X)
    if o == "mul":
        return attempt(lambda: op * X), attempt(lambda: D * X)
    if o == "add_lo":
        return attempt(lambda: op + DenseLinearOperator(X)), attempt(lambda: D + X)
    if o == "mul_lo":
        return attempt(lambda: op * DenseLinearOperator(X)), attempt(lambda: D * X)
    if o == "add_diagonal":
        def ref():
            bs = torch.broadcast_shapes(D.shape[:-1], X.shape)
            return D + torch.diag_embed(X.expand(bs))
        return attempt(lambda: op.add_diagonal(X)), attempt(need_square(ref))
    if o == "expand":
        s = arg["sizes"]
        return attempt(lambda: op.expand(*s)), attempt(lambda: D.expand(*s))
    if o == "cat":
        others = [ob.tt(t) for t in arg["others"]]
        pos, dim = arg["pos"], arg["dim"]
        ins_lo = [to_linear_operator(t) for t in others]
        ins_lo.insert(pos, op)
        ins_d = list(others)
        ins_d.insert(pos, D)
        return attempt(lambda: lo_cat(ins_lo, dim=dim)), attempt(lambda: torch.cat(ins_d, dim=dim))
    if o == "ctor_matmul":
        from linear_operator.operators import MatmulLinearOperator
        X = ob.tt(arg)
        return attempt(lambda: MatmulLinearOperator(op, DenseLinearOperator(X))), attempt(lambda: D.matmul(X))
    if o == "add_diag_lo":
        from linear_operator.operators import DiagLinearOperator
        X = ob.tt(arg)

        def ref():
            return D + torch.diag_embed(X)
        return attempt(lambda: op + DiagLinearOperator(X)), attempt(need_square(ref))
    if o == "ctor_dense":
        X = ob.tt(arg)
        return attempt(lambda: DenseLinearOperator(X)), (("ok", list(X.shape)) if X.dim() >= 2 else
                                                         ("raise", "contract: a matrix or a batch of matrices"))
    if o == "ctor_mul":
        from linear_operator.operators import MulLinearOperator, RootLinearOperator
        R = ob.tt(arg)
        other = RootLinearOperator(R)
        return attempt(lambda: MulLinearOperator(op, other)), attempt(lambda: D * (R @ R.mT))
    if o == "ctor_interp":
        from linear_operator.operators import InterpolatedLinearOperator
        li, lv = op.left_interp_indices, op.left_interp_values
        ri, rv = op.right_interp_indices, op.right_interp_values
        if arg["which"] == "left_values_shape":
            lv = lv[..., :-1, :]
        elif arg["which"] == "right_values_shape":
            rv = torch.cat([rv, rv], dim=-1)
        ref = ("ok", list(D.shape)) if arg["which"] == "ok" else ("raise", "contract: indices and values have the same shape")
        return attempt(lambda: InterpolatedLinearOperator(op.base_linear_op, li, lv, ri, rv)), ref
    if o == "cat_rows":
        Bm, Dn = ob.tt(arg["cross"]), ob.tt(arg["new"])

        def ref():
            return torch.cat([torch.cat([D, Bm], dim=-2), torch.cat([Bm.mT, Dn], dim=-2)], dim=-1)
        return attempt(lambda: op.cat_rows(Bm, Dn, generate_roots=False, generate_inv_roots=False)), attempt(ref)
    if o.startswith("getitem"):
        if case.get("probe"):
            idx0 = py_index(arg["idx"], zero=True)
            if attempt(lambda: D[idx0])[0] == "raise":
                return None                 # torch does not accept this dtype / container as an index at all: not a cell
        idx = py_index(arg["idx"])
        return attempt(lambda: op[idx]), attempt(lambda: D[idx])
    # square-only operations on a rectangular operator
    X = ob.tt(arg)
    fs = {"solve": lambda: op.solve(X), "inv_quad": lambda: op.inv_quad(X),
          "inv_quad_logdet": lambda: op.inv_quad_logdet(X, logdet=True), "logdet": lambda: op.logdet(),
          "cholesky": lambda: op.cholesky(), "root_decomposition": lambda: op.root_decomposition(),
          "sqrt_inv_matmul": lambda: op.sqrt_inv_matmul(X), "add_jitter": lambda: op.add_jitter(0.5),
          "root_inv_decomposition": lambda: op.root_inv_decomposition(), "diagonalization": lambda: op.diagonalization()}
    return attempt(fs[o]), ("raise", "square-only operation on a rectangular matrix")


# ----------------------------------------------------------------------------------------------- Coq literals

def shape_lit(s):
    return "[" + "; ".join(str(int(x)) for x in s) + "]"


def verdict_lit(v):
    if v[0] == "raise":
        return "VRaise"
    if any(int(x) < 0 for x in v[1]):
        return "VOkAny"                      # an advertised shape with a negative entry is not a shape
    return "(VOk %s)" % shape_lit(v[1])


COQ_DTYPE = {"int64": "DInt64", "int32": "DInt32", "int16": "DInt16", "int8": "DInt8", "uint8": "DUInt8"}
PAIR_QUERY = {"add_op": "PAdd", "torch_add": "PAdd", "sub_op": "PSub", "torch_sub": "PSub", "mul_op": "PMul",
              "torch_mul": "PMul", "matmul_op": "PMatmul", "torch_matmul": "PMatmul"}


MODELLED_DISPATCH = {"ZeroLinearOperator.__add__", "ConstantDiagLinearOperator.__add__", "DiagLinearOperator.__add__",
                     "DenseLinearOperator.__add__", "ZeroLinearOperator.mul"}


def pair_row_wanted(r, quick):
    """which operator (+) operator records go into the Coq shards (ALL of them are judged by the direct predicate).
    thorough: every record with a query.  quick: the records the model of Check.v says something about —
    the transcribed overrides (by dispatch target), every ZeroLinearOperator operand (pinned fast paths), and, for the
    base-class guards of `*` and `@`, the refused operands of the unbatched direct left operands."""
    if not quick:
        return True
    o = r["case"]["op"]
    if (r.get("impl_of") or [""])[0] in MODELLED_DISPATCH or r.get("rhs_cls") == "ZeroLinearOperator":
        return True
    return (r["torch"][0] == "raise" and o in ("mul_op", "matmul_op") and r.get("left") == "direct" and len(r["shape"]) == 2)


def query_lit(case, sh, rec=None):
    o, arg = case["op"], case["arg"]
    if o in PAIR_QUERY:
        if rec is None or rec.get("rhs_shape") is None or (rec.get("impl_of") or [""])[0].startswith("flipped:"):
            return None      # torch.<fn>(L, R) dispatched to the reflected method of a subclass R: predicate only
        return '(QPair %s "%s"%%string %s)' % (PAIR_QUERY[o], rec["rhs_cls"], shape_lit(rec["rhs_shape"]))
    if case["kind"].startswith("nonsquare") and o in SQUARE_ENTRY:
        return "(QSquare %s)" % SQUARE_ENTRY[o]
    if o in ENTRY_OF:
        return "(QEntry %s %s)" % (ENTRY_OF[o], shape_lit(arg["shape"]))
    if o == "add_diagonal":
        return "(QAddDiag %s)" % shape_lit(arg["shape"])
    if o == "expand":
        return "(QExpand %s)" % common.zlist(arg["sizes"])
    if o == "cat":
        return "(QCat %d %s %s)" % (arg["pos"], "[" + "; ".join(shape_lit(t["shape"]) for t in arg["others"]) + "]",
                                    common.zlit(arg["dim"]))
    if o == "ctor_dense":
        return "(QCtorDense %s)" % shape_lit(arg["shape"])
    if o == "ctor_mul":
        r = arg["shape"]
        return "(QCtorMul %s)" % shape_lit(r[:-2] + [r[-2], r[-2]])
    if o.startswith("getitem"):
        items = []
        for k, it in enumerate(arg["idx"]):
            if "int" in it:
                items.append("CInt %s" % common.zlit(it["int"]))
            elif "tensor" in it and it.get("dtype") == "uint8":
                return None          # torch reads a uint8 tensor as a legacy MASK: predicate only
            elif "tensor" in it:
                items.append("CTensor %s %s %s" % (COQ_DTYPE[it.get("dtype", "int64")], shape_lit(it["tensor"]["shape"]),
                                                   common.zlist(it["tensor"]["data"])))
            elif "list" in it:
                items.append("CTensor DInt64 %s %s" % (shape_lit([len(it["list"])]), common.zlist(it["list"])))
            elif "scalar" in it:
                items.append("CInt %s" % common.zlit(it["scalar"]))
            else:
                items.append("CSlice %d" % (sh[k] if k < len(sh) else 0))
        return "(QGetitem [%s])" % "; ".join(items)
    return None          # predicate-only operations (LinearOperator operands, cholesky)


def shard_src(rows):
    """class-name strings are bound once per shard (type-checking a long string literal per case dominates otherwise)"""
    import re
    names = {}

    def sym(m):
        return names.setdefault(m.group(1), "s%d" % len(names))
    lines = []
    for r in rows:
        q = re.sub(r'"([A-Za-z_]+)"%string', sym, r[2])
        lines.append('C %s %s %s %s %s' % (names.setdefault(r[0], "s%d" % len(names)), r[1], q, r[3], r[4]))
    defs = "".join('Definition %s := "%s"%%string.\n' % (v, k) for k, v in names.items())
    return ("From Coq Require Import String.\nFrom Coq Require Import List ZArith Bool.\nImport ListNotations.\n"
            "Require Import C19.Model C19.gen.Guards C19.Check.\nOpen Scope nat_scope.\n" + defs +
            "Definition cases : list case := [\n %s].\n"
            "Eval vm_compute in (bad_cases cases 0).\n"
            "Eval vm_compute in (count_modelled cases).\n" % ";\n ".join(lines))


# ----------------------------------------------------------------------------------------------- run

def key_of(r):
    """structural key of a cell.  Operator (+) operator cells additionally carry the runtime class of the right operand,
    the method the call dispatches to (`impl`: the class whose __add__ / mul / matmul runs, `impl2`: its _mul_matrix /
    rmatmul) and how the left operand was produced (`left`: direct constructor, or the collapsed structure of a
    composite made by a public method)"""
    case = r["case"]
    k = {"class": r["cls"], "op": case["op"], "shape_class": case["kind"]}
    if "idx_dtype" in case:
        k.update({"index_dtype": case["idx_dtype"], "index_container": case["idx_container"]})
    if "route" in case:
        k.update({"route": case["route"], "form": case["form"], "solve_impl": r.get("solve_impl"),
                  "base_class": r.get("base_cls")})
    if case["op"] in c19_pairs.PAIR_OPS:
        im = r.get("impl_of") or ["", ""]
        k.update({"rhs_class": r.get("rhs_cls"), "impl": im[0], "impl2": im[1], "left": r.get("left", "direct")})
    return k


ADD_LIKE = ("add_op", "sub_op", "torch_add", "torch_sub", "radd", "rsub", "torch_add_t", "torch_sub_t", "torch_add_rt",
            "torch_sub_rt")
MUL_LIKE = ("mul_op", "torch_mul", "rmul", "torch_mul_t", "torch_mul_rt")
MATMUL_LIKE = ("matmul_op", "torch_matmul", "rmatmul_dunder", "torch_matmul_rt")


def impl_of(op, o, R=None):
    """[impl, impl2]: the methods Python dispatches the operation to, as `DefiningClass.method`.  torch.<fn>(L, R) with
    type(R) a proper subclass of type(L) is dispatched to R's __torch_function__, which calls the reflected method of R
    (`flipped:`)."""
    t, pre = type(op), ""
    if R is not None and o.startswith("torch_") and type(R) is not t and issubclass(type(R), t):
        t, pre = type(R), "flipped:"

    def q(name):
        f = getattr(t, name, None)
        return pre + getattr(f, "__qualname__", name)
    if o in ADD_LIKE:
        return [q("__add__"), ""]
    if o in MUL_LIKE:
        return [q("mul"), q("_mul_matrix")]
    if o in MATMUL_LIKE:
        return [q("matmul"), q("rmatmul")]
    if o == "add_low_rank":
        return [q("add_low_rank"), ""]
    return [o, ""]


def collapsed_signature(op):
    """class of a composite operator with its operator arguments: diagonal-family arguments by class, the others as `_`"""
    diag = ("DiagLinearOperator", "ConstantDiagLinearOperator", "IdentityLinearOperator",
            "KroneckerProductDiagLinearOperator", "ZeroLinearOperator")
    kids = []
    for a in getattr(op, "_args", ()):
        if hasattr(a, "_args") and hasattr(a, "to_dense"):
            n = type(a).__name__
            kids.append(n if n in diag else "_")
    return type(op).__name__ + ("(" + ",".join(kids) + ")" if kids else "")


def _build_left(tag, e):
    from . import opbuild as ob
    try:
        op = ob.build(e)
        D = ob.dense(e)
    except Exception:
        return None
    sh = list(D.shape)
    if list(op.shape) != sh:
        return None
    return op, D, sh


def _derive_rng(seed, tag, name):
    return random.Random("%d-derive-%s-%s" % (seed, tag, name))


def select_derived(seed, quick):
    """{tag: [derivation names]}: composite left operands produced by public methods, one (quick) / two (thorough)
    per collapsed structure x batched? x square? — chosen deterministically in grid order"""
    import torch
    torch.set_num_threads(1)
    per = 1 if quick else 2
    seen, out = {}, {}
    for tag, e in operators(seed, quick):
        b = _build_left(tag, e)
        if b is None:
            continue
        op, D, sh = b
        sq = sh[-1] == sh[-2]
        for name in (c19_pairs.SQ_DERIVED if sq else c19_pairs.RECT_DERIVED):
            try:
                L, DL = c19_pairs.derive(name, op, D, c19_pairs.derive_arg(name, sh, _derive_rng(seed, tag, name)))
                if list(L.shape) != list(DL.shape):
                    continue
            except Exception:
                continue
            sg = (collapsed_signature(L), len(sh) > 2, sq)
            inner = c19_pairs.signature(L, 1)
            got = seen.setdefault(sg, [])
            if len(got) >= per or inner in got:
                continue
            got.append(inner)
            out.setdefault(tag, []).append(name)
    return out


def run_unit(args):
    """all cases of one left operand instance (worker process): the tensor-operand / index / constructor cases, the
    operator (+) operator class-pair table, the reflected forms, and the composite left operands derived from it"""
    import torch
    torch.set_num_threads(1)
    from . import opbuild as ob
    seed, quick, tag, e, dnames = args
    b = _build_left(tag, e)
    if b is None:
        return []
    op, D, sh = b
    clsname = type(op).__name__
    recs = []
    rng = random.Random("%d-cases-%s" % (seed, tag))
    small = sh == [1, 1]
    if tag.endswith("|thin"):
        for case in square_only_cases(sh, rng):
            ex = execute(op, D, case)
            if ex is not None:
                recs.append({"tag": tag, "expr": e, "cls": clsname, "shape": sh, "case": case, "impl": ex[0], "torch": ex[1]})
        return recs
    base_cases = cases_for(sh, rng) + ctor_cases(clsname, sh, rng)
    if small:
        base_cases = [c for c in base_cases if c["op"] in ("matmul", "rmatmul", "matmul_lo", "ctor_matmul")]
    for case in base_cases:
        ex = execute(op, D, case)
        if ex is None:
            continue
        impl, ref = ex
        recs.append({"tag": tag, "expr": e, "cls": clsname, "shape": sh, "case": case, "impl": impl, "torch": ref})

    def pairs(L, DL, cases, left, derive):
        cn = type(L).__name__
        for case in cases:
            if derive is not None:
                case = dict(case, derive=derive)
            try:
                impl, ref, rcls = c19_pairs.execute_pair(L, DL, case, c19_pairs.attempt_shape)
            except Exception:                           # the right operand could not be built: not a case
                continue
            recs.append({"tag": tag, "expr": e, "cls": cn, "shape": list(DL.shape), "case": case, "impl": impl, "torch": ref,
                         "rhs_cls": rcls[0], "rhs_shape": rcls[2], "impl_of": impl_of(L, case["op"], rcls[1]), "left": left})
    B = sh[:-2]
    sq = sh[-1] == sh[-2]
    if sq and not small and (not quick or not B):                # quick: the unbatched square left operands
        for form in INV_FORMS:
            try:
                L, DL = inverse_form(form, op, D)
                if list(L.shape) != list(DL.shape):
                    continue
            except Exception:
                continue
            irng = random.Random("%d-inv-%s-%s" % (seed, tag, form))
            dsh = list(DL.shape)
            for case in inverse_family_cases(dsh, irng):
                case = dict(case, form=form)
                x = ob.tt(tspec(irng, dsh[:-2] + [case["rows"], case["cols"]]))
                impl, ref = execute_inverse(L, DL, case, x)
                recs.append({"tag": tag, "expr": e, "cls": type(L).__name__, "shape": dsh, "case": case, "impl": impl,
                             "torch": ref, "left": "direct" if form == "direct" else collapsed_signature(L),
                             "solve_impl": getattr(getattr(type(L), "_solve", None), "__qualname__", ""), "base_cls": clsname})
    if small:
        cs = [c for c in c19_pairs.pair_cases(sh, seed, ob.ALL, "quick" if quick else "full")
              if c["op"] in ("matmul_op", "torch_matmul")]
        pairs(op, D, cs, "direct", None)
    elif not (quick and B and not sq):                        # quick: rectangular batched lefts only in the tensor grid
        prng = random.Random("%d-pairs-%s" % (seed, tag))
        pairs(op, D, c19_pairs.pair_cases(sh, seed, ob.ALL, "quick" if quick else "full") + c19_pairs.reflected_cases(sh, prng),
              "direct", None)
    for name in dnames:
        darg = c19_pairs.derive_arg(name, sh, _derive_rng(seed, tag, name))
        try:
            L, DL = c19_pairs.derive(name, op, D, darg)
        except Exception:
            continue
        dv = {"name": name, "arg": darg}
        pairs(L, DL, c19_pairs.pair_cases(list(DL.shape), seed, ob.ALL, "derived"), collapsed_signature(L), dv)
        # tensor operands of the composite: add_diagonal / add_low_rank (each composite class has its own add_diagonal)
        dsh = list(DL.shape)
        if dsh[-1] == dsh[-2]:
            drng = random.Random("%d-dt-%s-%s" % (seed, tag, name))
            cn = type(L).__name__
            for case in cases_for(dsh, drng):
                if case["op"] not in ("add_diagonal", "add_diag_lo"):
                    continue
                case = dict(case, derive=dv)
                impl, ref = execute(L, DL, case)
                recs.append({"tag": tag, "expr": e, "cls": cn, "shape": dsh, "case": case, "impl": impl, "torch": ref})
            pairs(L, DL, [c for c in c19_pairs.reflected_cases(dsh, drng) if c["op"] == "add_low_rank"],
                  collapsed_signature(L), dv)
    return recs


WORKERS = 3


def run_grid(ctx, quick, limit_report=None):
    """returns list of records (deterministic order); up to WORKERS processes"""
    seed = ctx.seed
    units = None
    try:
        import multiprocessing as mp
        with mp.get_context("fork").Pool(WORKERS) as pool:
            dsel = pool.apply(select_derived, (seed, quick))
            units = [(seed, quick, tag, e, dsel.get(tag, [])) for tag, e in operators(seed, quick)] + \
                    [(seed, quick, tag, e, []) for tag, e in small_operators(seed) + thin_operators(seed, quick)]
            parts = pool.map(run_unit, units, chunksize=2)
    except (OSError, ImportError, RuntimeError) as ex:        # no process pool available: same work, in process
        if hasattr(ctx, "say"):
            ctx.say("process pool unavailable (%r): running the grid in process" % (ex,))
        dsel = select_derived(seed, quick)
        units = [(seed, quick, tag, e, dsel.get(tag, [])) for tag, e in operators(seed, quick)] + \
                [(seed, quick, tag, e, []) for tag, e in small_operators(seed) + thin_operators(seed, quick)]
        parts = [run_unit(u) for u in units]
    return [r for p in parts for r in p]


def predicate_failures(ctx, recs):
    """C19 itself, evaluated on the implementation: torch refuses => the implementation raises"""
    n = 0
    seen = set()
    for r in recs:
        if r["torch"][0] == "raise" and r["impl"][0] == "ok":
            key = key_of(r)
            sig = json.dumps(key, sort_keys=True)
            if sig in seen:
                continue
            seen.add(sig)
            n += 1
            ctx.violation({"kind": "silent-accept", "expr": r["expr"], "class": r["cls"], "operator_shape": r["shape"],
                           "case": r["case"], "implementation": r["impl"], "torch_on_dense": r["torch"],
                           "what": "torch refuses this operand/index for the dense matrix but the operator returns a value"},
                          key=key)
    return n


def run_shards(ctx, shards, timeout=900):
    """common.run_shards with at most WORKERS coqc processes at any time (a pool over all shards, no barriers)"""
    from concurrent.futures import ThreadPoolExecutor
    paths = []
    for name, src in shards:
        p = os.path.join(ctx.gen, "cases_%s.v" % name)
        with open(p, "w") as f:
            f.write(src)
        paths.append((name, p))

    def one(np):
        name, p = np
        return name, common.coqc_file(ctx.prop, p, timeout=timeout)
    res = {}
    with ThreadPoolExecutor(max_workers=WORKERS) as ex:
        for name, r in ex.map(one, paths):
            res[name] = r
    for name, p in paths:
        for ext in (".vo", ".vok", ".vos", ".glob"):
            try:
                os.remove(p[:-2] + ext)
            except OSError:
                pass
        try:
            os.remove(os.path.join(os.path.dirname(p), "." + os.path.basename(p)[:-2] + ".aux"))
        except OSError:
            pass
    return res


def _freeze_known_findings():
    """common.load_known re-reads every file of known_findings.d on each ctx.violation call; other builders write
    those files concurrently (non-atomically), and this check looks up several hundred keys: read once, with retries"""
    import time
    orig = getattr(common.load_known, "_c19_orig", common.load_known)
    data = None
    for _ in range(8):
        try:
            data = orig()
            break
        except (ValueError, OSError):
            time.sleep(0.4)
    if data is None:
        data = orig()

    def cached():
        return data
    cached._c19_orig = orig
    common.load_known = cached


def _drop_stale_shards():
    """shard sources kept by an earlier run because they showed a disagreement (on whatever tree it ran against)"""
    gen = os.path.join(common.COQ, "C19", "gen")
    if os.path.isdir(gen):
        for f in os.listdir(gen):
            if f.startswith("cases_c19_") and f.endswith(".v"):
                try:
                    os.remove(os.path.join(gen, f))
                except OSError:
                    pass


def run(ctx):
    _freeze_known_findings()
    _drop_stale_shards()
    try:
        meta = regenerate()
        tr_err = None
    except c19_tr.Untranslatable as ex:
        meta, tr_err = None, str(ex)

    def search(info):
        # the quick grid first; the thorough width only when it shows no failing input
        for q in (True, False):
            recs = run_grid(ctx, quick=q)
            before = ctx.violations
            predicate_failures(ctx, recs)
            if ctx.violations > before:
                return True
        return False

    if meta is None:
        ctx.say("translator rejected the source:", tr_err)
        found = False
        try:
            found = search(None)
        except Exception as ex:
            ctx.say("search raised", repr(ex))
        if not found:
            ctx.violation({"kind": "translator-rejected-source", "error": tr_err,
                           "obligation": "coq/C19/gen/Guards.v could not be regenerated; the theorems over the guard table "
                                         "and the translated guards are not re-proved"}, no_input=True)
        ctx.coverage.update({"obligations": len(common.property_obligations("C19")), "discharged": 0,
                             "checker_cmd": "translator failed", "trusted_base": common.COQ_TRUSTED,
                             "evaluations": 0, "distinct_nontrivial": 0, "rule": "-", "samples": [tr_err, tr_err]})
        return

    ok = common.proof_stage(ctx, search)
    recs = run_grid(ctx, ctx.quick)
    n_pred = predicate_failures(ctx, recs) if ok else 0

    # correspondence shards
    rows, back = [], []
    seen = set()
    for i, r in enumerate(recs):
        if r["case"]["op"] in PAIR_QUERY and not pair_row_wanted(r, ctx.quick):
            continue
        q = query_lit(r["case"], r["shape"], r)
        if q is None:
            continue
        row = (r["cls"], shape_lit(r["shape"]), q, verdict_lit(r["impl"]), verdict_lit(r["torch"]))
        if row in seen:
            continue
        seen.add(row)
        rows.append(row)
        back.append(i)
    SH = 1000
    shards = [("c19_s%d_p%d_%d" % (ctx.seed, os.getpid(), k // SH), shard_src(rows[k:k + SH]))
              for k in range(0, len(rows), SH)]
    mism, n_modelled, mism_samples = [], 0, []
    if ok:
        res = {}
        res = run_shards(ctx, shards)
        import re
        for si, (name, _) in enumerate(shards):
            rc, out = res[name]
            bad = common.parse_coq_list_of_nat(out) if rc == 0 else None
            if bad is None:
                ctx.violation({"kind": "shard-failed", "shard": name, "out": out[-600:]}, no_input=True)
                continue
            m = re.findall(r"=\s*(\d+)\s*:\s*nat", out)
            n_modelled += int(m[-1]) if m else 0
            mism += [(si * SH + b // 4, b % 4) for b in bad]
        bad_shards = {gi // SH for gi, _ in mism}
        for si, (name, _) in enumerate(shards):       # keep only the shard sources that show a disagreement
            if si not in bad_shards and res.get(name, (1, ""))[0] == 0:
                try:
                    os.remove(os.path.join(ctx.gen, "cases_%s.v" % name))
                except OSError:
                    pass
        reported = 0
        for gi, code in mism:
            r = recs[back[gi]]
            mism_samples.append({"code": code, "class": r["cls"], "operator_shape": r["shape"], "op": r["case"]["op"],
                                 "shape_class": r["case"]["kind"], "implementation": r["impl"], "torch_on_dense": r["torch"]})
        for gi, code in mism:
            r = recs[back[gi]]
            silent = r["torch"][0] == "raise" and r["impl"][0] == "ok"
            if code & 1:
                ctx.violation({"kind": "spec-disagrees-with-torch", "class": r["cls"], "operator_shape": r["shape"],
                               "case": r["case"], "torch_on_dense": r["torch"],
                               "correspondence": "coq/C19/Check.v spec_vs_torch (Model.v Part 1 vs the running torch)"},
                              no_input=True)
                reported += 1
            if (code & 2) and not silent:
                # the property holds on this input although the model disagrees with the implementation
                ctx.violation({"kind": "model-implementation-disagreement", "class": r["cls"], "operator_shape": r["shape"],
                               "case": r["case"], "implementation": r["impl"], "torch_on_dense": r["torch"],
                               "correspondence": "coq/C19/Check.v model_vs_impl"}, no_input=True)
                reported += 1
            if reported >= 10:
                break

    # coverage
    def cell(r):
        return (r["cls"], r["case"]["op"], r["case"]["kind"], r.get("rhs_cls"), r.get("left"),
                r["case"].get("idx_dtype"), r["case"].get("idx_container"), r["case"].get("route"), r["case"].get("form"))
    cells = {}
    for r in recs:
        k = cell(r)
        cells[k] = cells.get(k, 0) + 1
    invalid = [r for r in recs if r["torch"][0] == "raise"]
    inv_cells = {cell(r) for r in invalid}
    silent_cells = {cell(r) for r in invalid if r["impl"][0] == "ok"}
    pair_recs = [r for r in recs if r["case"]["op"] in c19_pairs.PAIR_OPS and r.get("rhs_cls") != "Tensor"]
    class_pairs = {(r["cls"], r["rhs_cls"]) for r in pair_recs}
    class_pairs_invalid = {(r["cls"], r["rhs_cls"]) for r in pair_recs if r["torch"][0] == "raise"}
    dispatch_targets = {tuple(r.get("impl_of") or ()) for r in pair_recs}
    left_forms = {r.get("left") for r in pair_recs}
    ops = {}
    for r in recs:
        ops[r["case"]["op"]] = ops.get(r["case"]["op"], 0) + 1

    def sample(r):
        arg = r["case"]["arg"]
        if isinstance(arg, dict):
            arg = {k: (v if k != "rhs" else {"cls": v.get("cls"), "shape": ob_shape(v)}) for k, v in arg.items() if k != "data"}
        else:
            arg = None
        out = {"class": r["cls"], "operator_shape": r["shape"], "op": r["case"]["op"], "shape_class": r["case"]["kind"],
               "arg": arg, "implementation": r["impl"], "torch_on_dense": r["torch"]}
        if "rhs_cls" in r:
            out.update({"rhs_class": r["rhs_cls"], "dispatches_to": r["impl_of"], "left": r["left"]})
        return out

    def ob_shape(e):
        from . import opbuild as ob
        try:
            return ob.shape_of(e)
        except Exception:
            return None
    tens = [r for r in invalid if "rhs_cls" not in r]
    pinv = [r for r in pair_recs if r["torch"][0] == "raise" and r["impl"][0] == "raise"]
    smp = [sample(r) for r in (tens[len(tens) // 3:len(tens) // 3 + 1] + pinv[len(pinv) // 2:len(pinv) // 2 + 1] + recs[-1:])] \
        if recs else []
    rows_meta = meta["rows"]
    ctx.coverage.update({
        "trusted_base": common.COQ_TRUSTED + [
            "translator harness/c19_tr.py (Python ast -> Gallina: statement translation of _matmul_broadcast_shape, of the int "
            "branch and of the tensor-index range check (with its dtype condition) of _compute_getitem_size; abstract interpretation of every class x entry point for the guard table: "
            "recognised guard patterns, MRO resolution by C3 on the AST, super() inlining; fail-closed)",
            "operator-operand translation (c19_tr.OpTr): tensor / operator expressions denoted by their shapes through the class "
            "invariants of ATTR_MODEL (_diag, diag_values, diag_shape, tensor) and the constructor shape rules of Diag / "
            "ConstantDiag / Dense / Zero, which restate the classes' _size / _diag / __init__ (template-checked, compared "
            "with the implementation on every grid case); static evaluation of operand-kind tests for an operator operand; "
            "the syntactic fast-path scan (return self / return <operand> with the enclosing isinstance tests)",
            "torch's shape rules as specified in coq/C19/Model.v Part 1 (broadcast_shapes, matmul, expand, cat, integer "
            "indexing) — compared with the running torch on every generated case (spec_vs_torch)",
            "Python list indexing / slicing / range(n)[i] as modelled by py_idx, py_slice_to, py_range_idx",
            "hand transcriptions in Model.v Part 2/4 (the loop of _compute_getitem_size, expand, add_diagonal, _check_args, "
            "the pinned Diag/Identity/Zero overrides, the pinned fast paths A + Zero / A * Zero) and the dispatch of "
            "Check.model_pair_* on (class of the left operand, runtime class of the right operand) — tied by the correspondence only",
            "correspondence harness harness/c19.py (operator builders of harness/opbuild.py, dense oracle, forcing of lazy "
            "results) and the comparators of coq/C19/Check.v"],
        "evaluations": len(recs),
        "distinct_nontrivial": len(inv_cells),
        "rule": "one evaluation = one (operator instance, operation, operand/index) call on the implementation and on the dense "
                "matrix (for operator operands: on the two dense matrices); non-trivial = torch refuses the call on the dense "
                "operands; distinct by (runtime class of the left operand, operation, shape/index class, runtime class of the "
                "right operand, form of the left operand) — batch variants of the same cell are not counted again",
        "cells_total": len(cells), "cells_invalid": len(inv_cells), "cells_silent_on_this_tree": len(silent_cells),
        "valid_controls": len(recs) - len(invalid),
        "cases_in_shards": len(rows), "cases_with_model_prediction": n_modelled,
        "model_or_spec_mismatches": len(mism), "mismatch_samples": mism_samples[:40], "direct_property_failures_cells": n_pred,
        "per_operation": ops, "classes": len({r["cls"] for r in recs}),
        "operator_pair_evaluations": len(pair_recs),
        "ordered_class_pairs": len(class_pairs), "ordered_class_pairs_with_refused_operand": len(class_pairs_invalid),
        "right_operand_classes": len({r["rhs_cls"] for r in pair_recs}),
        "dispatch_targets": sorted("/".join(x for x in t if x) for t in dispatch_targets),
        "left_operand_forms": sorted(x for x in left_forms if x),
        "guard_table_rows": len(rows_meta), "guard_table_classes": len(meta["classes"]),
        "solve_rows_passing_matmul_guard": sum(1 for r in rows_meta if r["entry"] == "E_solve"
                                               and r["exits"] and all("G_mm" in x[0] for x in r["exits"])),
        "matmul_closure_guards": meta.get("helper_guards", []),
        "inverse_family_evaluations": sum(1 for r in recs if "route" in r["case"]),
        "samples": smp,
    })
    ctx.assumptions = [
        "settings.debug is on (the library default): with debug off the library documents that index and constructor "
        "checks are skipped",
        "a lazily constructed result whose .shape cannot be read counts as raising; one that advertises a shape counts as "
        "returned (also when producing its dense form fails later)",
        "second operands are torch tensors or operators of every constructor class of harness/opbuild.py; the guard-table "
        "theorems cover tensor operands, the operator-operand theorems the transcribed __add__ / mul overrides",
        "solve / inv_quad are compared with the shape rule of A^{-1} B (torch.matmul's rule on the dense operands, square A)",
        "no zero-size dimensions",
    ]


def replay(rp):
    import torch
    torch.set_num_threads(1)
    from . import opbuild as ob
    if "expr" not in rp:
        print(json.dumps(rp, indent=1)[:2000])
        return 1
    op = ob.build(rp["expr"])
    D = ob.dense(rp["expr"])
    case = rp["case"]
    if case.get("derive"):
        print("left operand: %s applied to %s" % (case["derive"]["name"], type(op).__name__))
        op, D = c19_pairs.derive(case["derive"]["name"], op, D, case["derive"]["arg"])
    if "route" in case:
        L, DL = inverse_form(case["form"], op, D)
        x = ob.tt(rp["rhs"]) if "rhs" in rp else torch.ones(*DL.shape[:-2], case["rows"], case["cols"], dtype=DL.dtype)
        print("left operand form:", case["form"], "route:", case["route"], "rhs shape:", list(x.shape))
        impl, ref = execute_inverse(L, DL, case, x)
        op, D = L, DL
    elif case["op"] in c19_pairs.PAIR_OPS:
        impl, ref, rcls = c19_pairs.execute_pair(op, D, case, c19_pairs.attempt_shape)
        print("right operand class:", rcls[0], "dispatches to:", impl_of(op, case["op"], rcls[1]))
    else:
        ex = execute(op, D, case)
        if ex is None:
            print("torch does not accept this index dtype / container on the dense tensor: not a case")
            return 0
        impl, ref = ex
    print("class:", type(op).__name__, "shape:", list(D.shape))
    print("case:", json.dumps(rp["case"])[:400])
    print("implementation:", impl)
    print("torch on dense:", ref)
    bad = ref[0] == "raise" and impl[0] == "ok"
    print("property fails on this input" if bad else "property holds on this input")
    return 1 if bad else 0
