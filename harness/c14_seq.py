"""C14 — input families added in round 3 and the source-integrity snapshot.

  H  default-dtype HISTORIES: the operator is constructed while torch's default dtype is X (tensors, Zero / Identity
     operators, python-scalar constants and allocated defaults are made WITHOUT an explicit dtype wherever the
     constructor allows it), the default is switched to Y, then the copy / conversion / rebuild runs.
  N  conversions of operators whose FIRST argument is a data-free operator with a nominal dtype (Permutation,
     TransposePermutation, Zero, Identity) in every position of a small nesting, for every (nominal dtype, data dtype,
     target dtype) combination, including "same nominal dtype, different data dtype".
  I  source integrity (every cell of every family): the original operator - every node's dtype attribute and flags,
     every tensor's identity, dtype, shape, _version, requires_grad and entries - must be the same after the call,
     and the result must be a different object unless nothing had to change.

Only expression generators and predicates live here (no Coq); harness/c14.py runs them."""
import itertools

import torch

from . import opbuild as ob

NDT = {"F32": torch.float32, "F64": torch.float64}


# ------------------------------------------------------------------------------------------ expression helpers

def X(py, args=(), kwargs=None, like=None, then=None):
    e = {"cls": "X", "py": py, "args": list(args), "kwargs": kwargs or {}}
    if like is not None:
        e["like"] = like
    if then:
        e["then"] = [list(s) for s in then]
    return e


def deft(t):
    """tensor spec built WITHOUT dtype= (it gets the default dtype current at construction time)"""
    return {"deft": {"shape": list(t["shape"]), "data": list(t["data"])}}


def make_deft(spec):
    return torch.tensor([float(v) for v in spec["data"]]).reshape(spec["shape"])


def apply_then(o, step):
    if step[0] == "to":
        return o.to(step[1] if isinstance(step[1], torch.dtype) else NDT[step[1]])
    if step[0] == "type":
        return o.type(step[1] if isinstance(step[1], torch.dtype) else NDT[step[1]])
    if step[0] in ("clone", "detach", "double", "float"):
        return getattr(o, step[0])()
    raise ValueError(step)


CHILD_KEYS = ("base", "l", "r", "kron", "diag", "a", "b", "root")


def map_expr(e, f):
    """bottom-up rewrite of an opbuild / generic expression"""
    if not (isinstance(e, dict) and "cls" in e):
        return e
    e2 = dict(e)
    if e.get("cls") == "X":
        e2["args"] = [map_expr(a, f) for a in e.get("args", [])]
        e2["kwargs"] = {k: map_expr(v, f) for k, v in e.get("kwargs", {}).items()}
    else:
        if "ops" in e:
            e2["ops"] = [map_expr(x, f) for x in e["ops"]]
        for k in CHILD_KEYS:
            if isinstance(e.get(k), dict) and "cls" in e[k]:
                e2[k] = map_expr(e[k], f)
    return f(e2)


def with_perm_dtype(e):
    """permutation operators built with dtype=<data dtype> (their nominal dtype is a constructor keyword): the operator
    an informed caller builds around float64 data"""
    def f(x):
        c = x.get("cls")
        if c == "Permutation":
            return X("PermutationLinearOperator", [x["perm"]], {"dtype": {"dtype": "src"}}, like=x)
        if c == "TransposePermutation":
            return X("TransposePermutationLinearOperator", [x["m"]], {"dtype": {"dtype": "src"}}, like=x)
        return x
    return map_expr(e, f)


def dedtype(e):
    """the same operator with every dtype the constructors let the caller omit omitted: the tensors of Dense / Diag /
    ConstantDiag leaves are made with the default dtype, Zero gets no dtype argument, python floats where allowed"""
    def f(x):
        c = x.get("cls")
        if c == "Zero":
            return X("ZeroLinearOperator", list(x["shape"]), like=x)
        if c == "Dense":
            return X("DenseLinearOperator", [deft(x["t"])], like=x)
        if c == "Diag":
            return X("DiagLinearOperator", [deft(x["d"])], like=x)
        if c == "ConstantDiag":
            return X("ConstantDiagLinearOperator", [deft(x["c"])], {"diag_shape": x["n"]}, like=x)
        if c == "Toeplitz":
            return X("ToeplitzLinearOperator", [deft(x["col"])], like=x)
        if c == "ConstantMul" and x["c"]["shape"] == [] and x["base"].get("cls") != "X":
            return x
        return x
    return map_expr(e, f)


# ------------------------------------------------------------------------------------------ family H

H_QUERIES = [("clone",), ("detach",), ("cpu",), ("rebuild",), ("evaluate_kernel",), ("double",), ("float",), ("type", "F32"),
             ("type", "F64"), ("to", "pos", "F32"), ("to", "pos", "F64"), ("to", "kw", "F64"), ("to", "dev", None),
             ("returned",), ("dtype",)]
H_KIDS = ["Zero", "Identity", "ConstantDiag", "Permutation", "TransposePermutation", "Kernel", "Dense"]


def h_specials(rng):
    """hand-written history-sensitive constructions (name, expr)"""
    r = lambda shape, lo=-3, hi=3: ob.rand_t(rng, shape, lo, hi)
    dn = lambda n, m=None: X("DenseLinearOperator", [deft(r([n, m or n]))])
    z = lambda *s: X("ZeroLinearOperator", list(s))
    out = []
    out.append(("zero", z(3, 3)))
    out.append(("zero_batch", z(2, 3, 2)))
    out.append(("zero_rect", z(2, 4)))
    out.append(("sum_zero_first", {"cls": "Sum", "ops": [z(3, 3), dn(3)]}))
    out.append(("sum_zero_last", {"cls": "Sum", "ops": [dn(3), z(3, 3)]}))
    out.append(("cat_zero", X("CatLinearOperator", [z(2, 3), dn(1, 3)], {"dim": -2})))
    out.append(("cat_zero_last", X("CatLinearOperator", [dn(1, 3), z(2, 3)], {"dim": 0})))
    out.append(("cat_zero_cols", X("CatLinearOperator", [dn(3, 1), z(3, 2)], {"dim": -1})))
    out.append(("cat_zero_batch", X("CatLinearOperator", [z(1, 2, 2), X("DenseLinearOperator", [deft(r([2, 2, 2]))])], {"dim": 0})))
    out.append(("matmul_zero", {"cls": "Matmul", "l": dn(3), "r": z(3, 2)}))
    out.append(("matmul_zero_first", {"cls": "Matmul", "l": z(2, 3), "r": dn(3)}))
    out.append(("constmul_zero", X("ConstantMulLinearOperator", [z(3, 3), {"float": 2.0}])))
    out.append(("repeat_zero", {"cls": "BatchRepeat", "base": z(3, 3), "rep": [2]}))
    out.append(("kron_zero", {"cls": "Kron", "ops": [dn(2), z(2, 2)]}))
    out.append(("blockdiag_zero", {"cls": "BlockDiag", "base": z(2, 2, 2)}))
    out.append(("masked_zero", {"cls": "Masked", "base": z(3, 3), "row_mask": {"shape": [3], "data": [1, 0, 1], "bool": True},
                                "col_mask": {"shape": [3], "data": [1, 1, 0], "bool": True}}))
    out.append(("sum_sum_zero", {"cls": "Sum", "ops": [{"cls": "Sum", "ops": [z(3, 3), dn(3)]}, dn(3)]}))
    # identity: the default of its dtype parameter is a fixed float32; with an explicit dtype; inside parents
    out.append(("identity_default", X("IdentityLinearOperator", [3])))
    out.append(("identity_src", X("IdentityLinearOperator", [3], {"dtype": {"dtype": "src"}})))
    out.append(("identity_batch_src", X("IdentityLinearOperator", [3], {"batch_shape": {"size": [2]}, "dtype": {"dtype": "src"}})))
    ident = X("IdentityLinearOperator", [3], {"dtype": {"dtype": "src"}})
    out.append(("added_identity", X("AddedDiagLinearOperator", [dn(3), ident])))
    out.append(("kron_identity_first", {"cls": "Kron", "ops": [ident, dn(2)]}))
    out.append(("matmul_identity_first", {"cls": "Matmul", "l": ident, "r": dn(3, 2)}))
    out.append(("sum_identity_first", {"cls": "Sum", "ops": [ident, dn(3)]}))
    # python scalars / allocated defaults
    out.append(("constdiag_deft", X("ConstantDiagLinearOperator", [deft(r([1], 1, 3))], {"diag_shape": 3})))
    out.append(("constdiag_batch_deft", X("ConstantDiagLinearOperator", [deft(r([2, 1], 1, 3))], {"diag_shape": 2})))
    out.append(("added_constdiag", X("AddedDiagLinearOperator", [dn(3), X("ConstantDiagLinearOperator", [deft(r([1], 1, 3))],
                                                                           {"diag_shape": 3})])))
    out.append(("constmul_float", X("ConstantMulLinearOperator", [dn(3), {"float": 2.0}])))
    out.append(("interp_defaults", X("InterpolatedLinearOperator", [dn(3, 2)])))
    out.append(("interp_left_only", X("InterpolatedLinearOperator",
                                      [dn(3), {"shape": [2, 1], "data": [2, 0], "long": True}, deft(r([2, 1], 1, 2))])))
    out.append(("kernel_scalars", X("KernelLinearOperator", [deft(r([3, 2], -2, 2)), deft(r([2, 2], -2, 2))],
                                    {"covar_func": {"fn": "user_kernel"}, "alpha": {"float": 1.5}, "shift": 2, "square": True})))
    out.append(("kernel_tensor_param", X("KernelLinearOperator", [deft(r([3, 2], -2, 2)), deft(r([3, 2], -2, 2))],
                                         {"covar_func": {"fn": "user_kernel"}, "zeta": deft(r([1, 1], 1, 2))})))
    out.append(("matmul_tensors", X("MatmulLinearOperator", [deft(r([2, 3])), deft(r([3, 2]))])))
    out.append(("root_deft", X("RootLinearOperator", [deft(r([3, 2]))])))
    out.append(("tri_deft", X("TriangularLinearOperator", [deft({"shape": [2, 2], "data": [2, 0, 1, 3]})], {"upper": False})))
    # operators without floating data: the nominal dtype is a keyword (given, or the float32 default next to float32 data)
    perm = {"shape": [3], "data": [1, 2, 0], "long": True}
    P = lambda: X("PermutationLinearOperator", [perm], {"dtype": {"dtype": "src"}})
    TP = lambda: X("TransposePermutationLinearOperator", [2], {"dtype": {"dtype": "src"}})
    out.append(("perm", P()))
    out.append(("matmul_perm", {"cls": "Matmul", "l": P(), "r": dn(3, 2)}))
    out.append(("transperm", TP()))
    out.append(("matmul_transperm", {"cls": "Matmul", "l": TP(), "r": dn(4, 2)}))
    out.append(("sum_perm_converted", {"cls": "Sum", "ops": [X("PermutationLinearOperator", [perm], then=[("to", "src")]), dn(3)]}))
    return out


def family_h(rng, quick, seed, gen_ok):
    """-> list of (name, expr, queries); gen_ok(e) says whether the expression can be built"""
    out = []
    for name, e in h_specials(rng):
        out.append(("H:%s" % name, e, H_QUERIES))
    # every class of the A grid with the omissible dtypes omitted
    for ci, cls in enumerate(ob.ALL):
        for batch in ([],) if quick else ([], [2]):
            try:
                e = with_perm_dtype(dedtype(ob.gen(rng, cls, batch=batch, m=3, n=2, depth=1)))
            except Exception:
                continue
            qs = H_QUERIES if not quick else [H_QUERIES[(i * 2 + ci + seed) % len(H_QUERIES)] for i in range(7)]
            out.append(("H:A:%s" % cls, e, list(dict.fromkeys(qs))))
    # wrappers over the history-sensitive leaf classes
    from .c14 import WRAPPERS
    for wi, w in enumerate(WRAPPERS):
        kids = H_KIDS if not quick else [H_KIDS[(wi + j * 3 + seed) % len(H_KIDS)] for j in range(3)]
        for ki, kid in enumerate(dict.fromkeys(kids)):
            try:
                e = with_perm_dtype(dedtype(ob.gen(rng, w, batch=[[], [2]][(wi + ki) % 2], m=3, n=3, depth=2, child=kid)))
            except Exception:
                continue
            qs = H_QUERIES if not quick else [H_QUERIES[(i * 2 + wi + ki + seed) % len(H_QUERIES)] for i in range(6)]
            out.append(("H:B:%s/%s" % (w, kid), e, list(dict.fromkeys(qs))))
    return [(n, e, q) for n, e, q in out if gen_ok(e)]


# ------------------------------------------------------------------------------------------ family N

N_QUERIES = [("to", "pos", "F32"), ("to", "pos", "F64"), ("to", "kw", "F32"), ("to", "kw", "F64"), ("type", "F32"), ("type", "F64"),
             ("double",), ("float",), ("to", "tensor", "F64"), ("to", "devdt", "F32"), ("to", "dtdev", "F64"), ("clone",), ("detach",),
             ("to", "dev", None), ("rebuild",), ("dtype",), ("rgset", "on")]


def n_firsts(n):
    """data-free first arguments of size n x n (n = 4): (tag, expr builder taking the data dtype name)"""
    perm = {"shape": [n], "data": [(i + 1) % n for i in range(n)], "long": True}
    other = lambda d: "F32" if d == "F64" else "F64"
    return [
        ("perm_same", lambda d: X("PermutationLinearOperator", [perm], {"dtype": {"dtype": d}})),
        ("perm_other", lambda d: X("PermutationLinearOperator", [perm], {"dtype": {"dtype": other(d)}})),
        ("perm_converted", lambda d: X("PermutationLinearOperator", [perm], then=[("to", d)])),
        ("perm_typed", lambda d: X("PermutationLinearOperator", [perm], {"dtype": {"dtype": other(d)}}, then=[("type", d)])),
        ("transperm_same", lambda d: X("TransposePermutationLinearOperator", [2], {"dtype": {"dtype": d}})),
        ("transperm_other", lambda d: X("TransposePermutationLinearOperator", [2], {"dtype": {"dtype": other(d)}})),
        ("transperm_converted", lambda d: X("TransposePermutationLinearOperator", [2], then=[("to", d)])),
        ("zero_same", lambda d: X("ZeroLinearOperator", [n, n], {"dtype": {"dtype": d}})),
        ("zero_other", lambda d: X("ZeroLinearOperator", [n, n], {"dtype": {"dtype": other(d)}})),
        ("identity_same", lambda d: X("IdentityLinearOperator", [n], {"dtype": {"dtype": d}})),
        ("identity_other", lambda d: X("IdentityLinearOperator", [n], {"dtype": {"dtype": other(d)}})),
    ]


def n_wrappers(rng, n):
    """nestings with a hole for the data-free operator F: (tag, builder F -> expr)"""
    r = lambda shape, lo=-3, hi=3: ob.rand_t(rng, shape, lo, hi)
    D = lambda a=n, b=None: {"cls": "Dense", "t": r([a, b or a])}
    D2 = lambda a: {"cls": "Dense", "t": r([2, a, a])}
    idx = {"shape": [3, 1], "data": [2, 0, 1], "long": True}
    m = {"shape": [n], "data": [1, 0] * (n // 2), "bool": True}
    return [
        ("matmul_first", lambda F: {"cls": "Matmul", "l": F, "r": D(n, 2)}),
        ("matmul_second", lambda F: {"cls": "Matmul", "l": D(2, n), "r": F}),
        ("sum_first", lambda F: {"cls": "Sum", "ops": [F, D(), {"cls": "Diag", "d": r([n])}]}),
        ("kron_first", lambda F: {"cls": "Kron", "ops": [F, D(2, 3)]}),
        ("constmul", lambda F: {"cls": "ConstantMul", "base": F, "c": r([], 2, 3)}),
        ("chain2", lambda F: {"cls": "Matmul", "l": {"cls": "Matmul", "l": F, "r": D()}, "r": D(n, 2)}),
        ("nested_not_first", lambda F: {"cls": "Sum", "ops": [D(), {"cls": "Matmul", "l": F, "r": D()}]}),
        ("repeat", lambda F: {"cls": "BatchRepeat", "base": F, "rep": [2]}),
        ("interp", lambda F: {"cls": "Interpolated", "base": F, "li": idx, "lv": r([3, 1], 1, 2), "ri": idx, "rv": r([3, 1], 1, 2)}),
        ("masked", lambda F: {"cls": "Masked", "base": F, "row_mask": m, "col_mask": m}),
        ("cat_first", lambda F: X("CatLinearOperator", [F, D(1, n)], {"dim": -2})),
        ("cat_cols", lambda F: X("CatLinearOperator", [D(n, 1), F], {"dim": -1})),
        ("cat_batch", lambda F: X("CatLinearOperator", [{"cls": "BatchRepeat", "base": F, "rep": [1]}, D2(n)], {"dim": 0})),
        ("sum_chain", lambda F: {"cls": "Sum", "ops": [{"cls": "Sum", "ops": [F, D()]}, D()]}),
    ]


def family_n(rng, quick, seed, gen_ok):
    """-> list of (name, expr-builder(data dtype name), queries)"""
    n = 4
    out = []
    firsts = n_firsts(n)
    wraps = n_wrappers(rng, n)
    k = 0
    for fi, (ft, fb) in enumerate(firsts):
        for wi, (wt, wb) in enumerate(wraps):
            k += 1
            # the conversions to either dtype by to() and by type() run in EVERY cell (one of the two targets equals the
            # nominal dtype of the data-free argument); the other queries rotate in the quick tier
            core = [("to", "pos", "F32"), ("to", "pos", "F64"), ("type", "F32"), ("type", "F64")]
            qs = N_QUERIES if not quick else core + [N_QUERIES[(i * 2 + k + seed) % len(N_QUERIES)] for i in range(3)]
            out.append(("N:%s/%s" % (wt, ft), (lambda d, fb=fb, wb=wb: wb(fb(d))), list(dict.fromkeys(qs))))
        out.append(("N:alone/%s" % ft, fb, N_QUERIES))
    return [(nm, b, q) for nm, b, q in out if gen_ok(b("F64"))]


# ------------------------------------------------------------------------------------------ source integrity (I)

FLAG_ATTRS = ("upper", "batch_repeat", "diag_shape", "cat_dim", "num_outputs_per_input", "m", "n", "sizes", "_dtype", "_device",
              "output_device", "block_dim")


def snapshot(o):
    """everything the matrix and the dtype of an operator depend on, read from the object graph"""
    from linear_operator.operators import LinearOperator
    nodes, tensors = [], []

    def walk(x, path):
        if torch.is_tensor(x):
            tensors.append({"path": path, "id": id(x), "dtype": str(x.dtype), "shape": tuple(x.shape), "version": x._version,
                            "rg": bool(x.requires_grad), "ptr": x.untyped_storage().data_ptr() if not x.is_sparse else 0,
                            "val": x.detach().clone()})
        elif isinstance(x, LinearOperator):
            try:
                dt = str(x.dtype)
            except Exception as ex:
                dt = "raises:" + type(ex).__name__
            flags = tuple((a, repr(x.__dict__[a])) for a in FLAG_ATTRS
                          if a in x.__dict__ and not torch.is_tensor(x.__dict__[a]) and not isinstance(x.__dict__[a], LinearOperator))
            plain = tuple((k, repr(v)[:60]) for k, v in x._kwargs.items()
                          if not torch.is_tensor(v) and not isinstance(v, LinearOperator) and not callable(v))
            nodes.append({"path": path, "id": id(x), "cls": type(x).__name__, "dtype": dt, "flags": flags, "kwargs": plain,
                          "nargs": len(x._args), "names": tuple(x._kwargs.keys())})
            for i, a in enumerate(itertools.chain(x._args, x._kwargs.values())):
                walk(a, path + (i,))
    walk(o, ())
    return {"nodes": nodes, "tensors": tensors}


def diff_snapshot(s0, s1):
    """failure dicts for what changed in the ORIGINAL operator between two snapshots"""
    out = []
    if len(s0["nodes"]) != len(s1["nodes"]) or len(s0["tensors"]) != len(s1["tensors"]):
        return [{"fail": "source-changed:structure", "class": s0["nodes"][0]["cls"]}]
    for a, b in zip(s0["nodes"], s1["nodes"]):
        c = "C" + a["cls"].replace("LinearOperator", "").replace("KroneckerProduct", "Kron")
        if a["id"] != b["id"] or a["cls"] != b["cls"] or a["nargs"] != b["nargs"] or a["names"] != b["names"]:
            out.append({"fail": "source-changed:structure", "at": c, "path": list(a["path"])})
        elif a["dtype"] != b["dtype"]:
            out.append({"fail": "source-changed:dtype-attr", "at": c, "path": list(a["path"]), "before": a["dtype"], "after": b["dtype"]})
        elif a["flags"] != b["flags"] or a["kwargs"] != b["kwargs"]:
            out.append({"fail": "source-changed:flags", "at": c, "path": list(a["path"]),
                        "before": str((a["flags"], a["kwargs"]))[:200], "after": str((b["flags"], b["kwargs"]))[:200]})
    for a, b in zip(s0["tensors"], s1["tensors"]):
        what = None
        if a["id"] != b["id"] or a["ptr"] != b["ptr"]:
            what = "tensor-identity"
        elif a["dtype"] != b["dtype"] or a["shape"] != b["shape"]:
            what = "tensor-dtype"
        elif a["rg"] != b["rg"]:
            what = "tensor-requires_grad"
        elif a["version"] != b["version"]:
            what = "tensor-version"
        elif not torch.equal(a["val"], b["val"]):
            what = "tensor-values"
        if what:
            out.append({"fail": "source-changed:" + what, "path": list(a["path"]),
                        "before": "%s v%d rg=%s" % (a["dtype"], a["version"], a["rg"]),
                        "after": "%s v%d rg=%s" % (b["dtype"], b["version"], b["rg"])})
    return out[:4]


def nothing_to_change(s0, q, tgt):
    """is the original already what the call asks for (only then may a conversion return the object itself)?"""
    if q[0] in ("cpu",) or (q[0] == "to" and q[1] == "dev"):
        return True                                   # CPU only: every tensor already lives on the requested device
    if q[0] in ("double", "float", "type") or (q[0] == "to" and q[1] in ("pos", "kw", "tensor", "devdt", "dtdev")):
        want = str(NDT[tgt])
        fl = [t for t in s0["tensors"] if t["dtype"] in ("torch.float32", "torch.float64", "torch.float16")]
        return all(t["dtype"] == want for t in fl) and all(n["dtype"] in (want, "None") for n in s0["nodes"])
    if q[0] == "detach":
        return not any(t["rg"] for t in s0["tensors"])
    if q[0] in ("rebuild", "evaluate_kernel"):
        return True
    return False                                       # clone


def alias_failures(o, res, s0, q, tgt):
    """the result must be a new object (unless nothing had to change); a clone shares no operator node at all"""
    from linear_operator.operators import LinearOperator
    out = []
    if not isinstance(res, LinearOperator):
        return out
    if res is o and not nothing_to_change(s0, q, tgt):
        out.append({"fail": "aliased-result", "what": "the call returned the original object although it had to change something"})
    elif q[0] in ("clone", "detach"):
        # clone() / detach() give an independent copy: no operator node and no tensor OBJECT of the original may be embedded
        # in the result - also when no leaf requires grad (Tensor.detach() itself returns a new tensor object with its own
        # requires_grad flag, sharing only the storage; clone() shares nothing)
        s1 = snapshot(res)
        ids0 = {n["id"] for n in s0["nodes"]}
        ids1 = {n["id"] for n in s1["nodes"]}
        if ids0 & ids1:
            out.append({"fail": "aliased-result", "what": "%s() shares %d operator object(s) with the original" % (q[0], len(ids0 & ids1))})
        t0 = {t["id"] for t in s0["tensors"]}
        t1 = {t["id"] for t in s1["tensors"]}
        if t0 & t1:
            out.append({"fail": "shared-component", "what": "%s() embeds %d tensor object(s) of the original in the result" % (q[0], len(t0 & t1))})
    return out


# ------------------------------------------------------------------------------------------ two-copy sequences (P)

PAIRS = [("clone", "rg"), ("clone", "add"), ("clone", "to"), ("detach", "rg"), ("detach", "to"), ("conv", "rg"), ("conv", "add"),
         ("type", "rg"), ("type", "add")]


def _float_tensors(o, out=None):
    from linear_operator.operators import LinearOperator
    out = [] if out is None else out
    for a in itertools.chain(o._args, o._kwargs.values()):
        if torch.is_tensor(a):
            if a.dtype.is_floating_point:
                out.append(a)
        elif isinstance(a, LinearOperator):
            _float_tensors(a, out)
    return out


def pair_run(o, q, src):
    """a = copy(o); b = copy(o); mutate a; the other copy b and the source o must be unchanged.
    copy in clone / detach / conv (to(<other dtype>)) / type (type(<other dtype>)); mutation in rg (a.requires_grad_(True)),
    add (in-place add_ on the first floating tensor of a - not for detach, whose tensors share storage by design),
    to (a.to(<other dtype>), result dropped).  -> (b, failure dicts about b)"""
    other = NDT["F32" if src == "F64" else "F64"]
    how, mut = q[1], q[2]

    def copy():
        if how == "clone":
            return o.clone()
        if how == "detach":
            return o.detach()
        if how == "conv":
            return o.to(other)
        return o.type(other)
    a, b = copy(), copy()
    sb = snapshot(b)
    if mut == "rg":
        a.requires_grad_(True)
    elif mut == "add":
        fl = _float_tensors(a)
        if fl:
            with torch.no_grad():
                fl[0].add_(1)
    else:
        tgt = other if how in ("clone", "detach") else NDT[src]
        a.to(tgt)
        a.requires_grad_(True)
    out = []
    for f in diff_snapshot(sb, snapshot(b)):
        g = dict(f)
        g["fail"] = f["fail"].replace("source-changed:", "copy-coupled:")
        g["what"] = "the second %s copy changed when the first one was mutated (%s)" % (how, mut)
        out.append(g)
    return b, out
