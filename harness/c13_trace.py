"""C13 — trace correspondence between the ownership IR and the running library.

The soundness theorem (Own.own_check_sound) rests on the invariant
      inv:  env x = Some s  /\  caller s   ->   mc x = true
i.e. whenever a variable holds caller-owned storage, the candidate set contains it.  This module checks that
invariant on REAL executions: while a dynamic cell runs, every translated function that has in-place sites is
traced line by line (sys.settrace); after each executed line, every local name whose binding changed is examined:
if its new value (tensor, sparse tensor, container, operator — searched to a bounded depth) shares storage with
something that was reachable from the function's arguments / self / closure cells at entry, the observation
(function, name, line) is recorded.  Each observation must be covered by the IR:
  * Python side: some IR definition of that name (exactly the one at that line when the line is known) is in the
    least closed candidate set of the full program (otherwise the TRANSLATOR is unsound for that construct);
  * Coq side: for the definitions that are part of the emitted (pruned) program, `mem mc_<prog> d = true` is
    evaluated by vm_compute in a generated shard against the very lists the theorems are about.
Second check: every `_version` bump of any tensor seen in a traced frame must happen at a source line where the
translator emitted an in-place site (of either program) in the innermost library frame executing — a writer the
naming convention misses (no trailing underscore, no out=) shows up as an "untracked writer".
"""
import sys
import weakref

import torch

from . import c13_dyn

LIBROOT = c13_dyn.LIBROOT


def storages_of(v, out, depth=0, seen=None):
    """data pointers of all storages reachable from v (bounded depth)"""
    if seen is None:
        seen = set()
    if id(v) in seen or depth > 4:
        return
    seen.add(id(v))
    if isinstance(v, torch.Tensor):
        try:
            if v.is_sparse:
                storages_of(v._indices(), out, depth + 1, seen)
                storages_of(v._values(), out, depth + 1, seen)
            elif v.numel() > 0:
                p = v.untyped_storage().data_ptr()
                if p:
                    out.add(p)
        except Exception:
            pass
        return
    if isinstance(v, (list, tuple, set, frozenset)):
        for x in list(v)[:64]:
            storages_of(x, out, depth + 1, seen)
        return
    if isinstance(v, dict):
        for x in list(v.values())[:64]:
            storages_of(x, out, depth + 1, seen)
        return
    if v is None or isinstance(v, (int, float, bool, str, bytes, torch.Size, torch.dtype, torch.device, type)):
        return
    if callable(v) and hasattr(v, "__closure__"):
        for c in (v.__closure__ or ()):
            try:
                storages_of(c.cell_contents, out, depth + 1, seen)
            except ValueError:
                pass
        if hasattr(v, "__self__"):
            storages_of(v.__self__, out, depth + 1, seen)
        return
    if hasattr(v, "func") and hasattr(v, "args") and hasattr(v, "keywords"):     # functools.partial
        storages_of(v.func, out, depth + 1, seen)
        storages_of(v.args, out, depth + 1, seen)
        storages_of(v.keywords, out, depth + 1, seen)
        return
    d = getattr(v, "__dict__", None)
    if isinstance(d, dict) and (type(v).__module__.startswith("linear_operator") or hasattr(v, "_args") or hasattr(v, "saved_tensors")):
        for x in list(d.values())[:64]:
            storages_of(x, out, depth + 1, seen)
        st = getattr(v, "saved_tensors", None) if hasattr(v, "needs_input_grad") else None
        if st:
            storages_of(st, out, depth + 1, seen)


def tensors_of(v, out, depth=0):
    if isinstance(v, torch.Tensor):
        if not v.is_sparse:
            out.append(v)
    elif isinstance(v, (list, tuple)) and depth < 2:
        for x in v[:32]:
            tensors_of(x, out, depth + 1)


class IRTracer:
    def __init__(self, meta):
        self.info = {}
        self.site_lines = {}
        for t in meta["table"]:
            k = (t["module"], t["qual"])
            self.site_lines.setdefault(k, set()).update(s["line"] for s in t["sites"])
            if t["kind"] == "storage":
                byname = {}
                for key, d in t["defs"].items():
                    nm = key.rsplit("@", 1)[0]
                    byname.setdefault(nm, []).append(d)
                self.info[k] = {"prog": t["name"], "defs": t["defs"], "byname": byname, "borrowed": set(t["borrowed"]),
                                "first_line": t.get("first_line", 0)}
        self.frames = {}
        self.obs = {}            # (module, qual, name, line) -> count of observations "holds caller storage"
        self.unsound = {}        # observations not covered by the IR
        self.coq_obs = set()     # (program name, IR variable) to be checked in Coq
        self.tracked = {}        # id(tensor) -> [tensor, version]
        self.last = None         # (module, qual, line) of the last executed library line
        self.untracked = {}      # version bumps at lines without an in-place site
        self.bumps_ok = 0
        self.lines = 0
        self.bindings = 0
        self.depth = 0

    # -- helpers
    def _key(self, frame):
        fn = frame.f_code.co_filename
        return ("linear_operator/" + fn[len(LIBROOT):], frame.f_code.co_qualname.replace(".<locals>", ""))

    def _track(self, t):
        rec = self.tracked.get(id(t))
        if rec is None or rec[0]() is not t:
            if len(self.tracked) < 4000:
                self.tracked[id(t)] = [weakref.ref(t), t._version]

    def _scan_bumps(self, external=False):
        dead = []
        for i, rec in self.tracked.items():
            t = rec[0]()
            if t is None:
                dead.append(i)
                continue
            v = t._version
            if v != rec[1]:
                rec[1] = v
                if external:
                    continue          # written while no library frame was active (harness code, autograd engine)
                at = self.last
                if at is not None and at[2] in self.site_lines.get((at[0], at[1]), ()):
                    self.bumps_ok += 1
                else:
                    self.untracked[at] = self.untracked.get(at, 0) + 1
        for i in dead:
            del self.tracked[i]

    def _bind_changes(self, frame, st, line):
        info = st["info"]
        loc = frame.f_locals
        for name, v in loc.items():
            i = id(v)
            if st["prev"].get(name) == i:
                continue
            st["prev"][name] = i
            self.bindings += 1
            ts = []
            tensors_of(v, ts)
            for t in ts:
                self._track(t)
            if name in ("self", "cls", "out", "ctx") or name in info["borrowed"] or line is None:
                continue
            ss = set()
            storages_of(v, ss)
            if ss & st["caller"]:
                k = (st["key"][0], st["key"][1], name, line)
                self.obs[k] = self.obs.get(k, 0) + 1
                d = info["defs"].get("%s@%d" % (name, line))
                cands = [d] if d is not None else info["byname"].get(name, [])
                if not cands:
                    # a name the translator never defined in this function (e.g. comprehension variable): nothing to compare
                    continue
                if not any(c["mc"] for c in cands):
                    self.unsound[k] = self.unsound.get(k, 0) + 1
                elif d is not None:
                    for x in d["inprog"]:
                        self.coq_obs.add((info["prog"], x))

    # -- the trace function
    def __call__(self, frame, event, arg):
        fn = frame.f_code.co_filename
        if not fn.startswith(LIBROOT):
            return None
        self._scan_bumps(external=(event == "call" and self.depth == 0))
        key = self._key(frame)
        if event == "call":
            self.depth += 1
            info = self.info.get(key)
            if info is not None:
                caller = set()
                for n_, v in frame.f_locals.items():
                    if n_ != "out":              # explicit out= buffers are excluded by the property (Fresh in the IR)
                        storages_of(v, caller)
                # free variables of nested functions are caller-owned as well
                st = {"info": info, "key": key, "caller": caller, "prev": {n: id(v) for n, v in frame.f_locals.items()}, "last_line": None}
                for v in frame.f_locals.values():
                    ts = []
                    tensors_of(v, ts)
                    for t in ts:
                        self._track(t)
                self.frames[id(frame)] = st
            return self
        st = self.frames.get(id(frame))
        if event == "line":
            self.lines += 1
            if st is not None:
                self._bind_changes(frame, st, st["last_line"])
                st["last_line"] = frame.f_lineno
            self.last = (key[0], key[1], frame.f_lineno)
        elif event == "return":
            self.depth = max(0, self.depth - 1)
            # control goes back into the middle of the caller's current line (no new 'line' event will fire for it)
            fb = frame.f_back
            while fb is not None and not fb.f_code.co_filename.startswith(LIBROOT):
                fb = fb.f_back
            if fb is not None:
                kb = self._key(fb)
                self.last = (kb[0], kb[1], fb.f_lineno)
            if st is not None:
                self._bind_changes(frame, st, st["last_line"])
                del self.frames[id(frame)]
        return self

    def reset_case(self):
        self.frames.clear()
        self.tracked.clear()
        self.last = None
        self.depth = 0


def run_traced(case, layout, seed, tracer):
    """run one dynamic cell under the IR tracer (results of the before/after comparison are ignored here)"""
    import random
    import warnings
    entry, variant, builder = case
    rng = random.Random("%s|%s|%s|%d" % (entry, variant, layout, seed))
    torch.manual_seed(rng.randrange(1 << 30))
    ar = c13_dyn.Arena(layout, watch=False)
    with warnings.catch_warnings():
        warnings.simplefilter("ignore")
        try:
            thunk = builder(ar, rng)
        except Exception:
            return "build-failed"
        tracer.reset_case()
        sys.settrace(tracer)
        try:
            thunk()
            return "ok"
        except Exception:
            return "raised"
        finally:
            sys.settrace(None)
            tracer._scan_bumps()
            tracer.reset_case()


def shard_source(obs):
    """Coq shard: every observed (program, variable) pair must be a member of the program's candidate set"""
    items = ["mem mc_%s %d" % (p, x) for (p, x) in sorted(obs)]
    return ("From Coq Require Import List Bool Arith.\nImport ListNotations.\nRequire Import C13.Own C13.gen.OwnIR.\n"
            "Fixpoint bad (l : list bool) (i : nat) : list nat := match l with [] => [] | b :: r => if b then bad r (S i) else i :: bad r (S i) end.\n"
            "Definition cases : list bool := [\n %s].\nEval vm_compute in (bad cases 0).\n" % ";\n ".join(items))
