"""C16 — psd_safe_cholesky perturbs minimally, per batch member, or fails loudly.

proof    : coq/C16/Property.v — theorems about the Gallina transcription coq/C16/Model.v of
           linear_operator/utils/cholesky.py (all batch sizes, all matrix sizes, all max_tries, all settings states)
tie      : correspondence — the model (incl. the settings contexts the harness opened, with the values it asked for) runs on PrimFloat (binary64) inside coqc (vm_compute) on the same inputs as the
           real psd_safe_cholesky / DenseLinearOperator.cholesky; compared: outcome kind, jitter values of the warnings,
           the jitter in the NotPSDError message, the factor per member (conditioning-aware tolerance), the diagonal
           increments per member (diag(F F^T - A)), input unchanged
search   : the property predicate evaluated directly on the implementation for every generated case with an independent
           oracle (per-member torch.linalg.cholesky_ex on A_b + jitter*10^k I assembled by the harness)
"""
import contextlib
import json
import math
import os
import random
import re
import time
import warnings
import zlib

import torch

from . import common

PROP = "C16"
F64 = torch.float64
DT = {"float64": torch.float64, "float32": torch.float32}
EPS = {"float64": 2.0 ** -53, "float32": 2.0 ** -24}
torch.set_num_threads(1)


def regenerate():
    """Nothing of coq/C16 is generated from the source text (the tie is the correspondence)."""
    os.makedirs(os.path.join(common.COQ, PROP, "gen"), exist_ok=True)
    return {}


# AST fingerprint (comments / layout ignored) of _psd_safe_cholesky + psd_safe_cholesky as transcribed in coq/C16/Model.v.
# Purely informational (evidence key `source_matches_transcription`): a differing source whose behaviour still agrees with
# the model is a harmless rewrite; it tells the maintainer that Model.v should be re-read against the new text.
TRANSCRIBED_AST_SHA = ("d127c93f37408f2836cbfa2bd6a893d3a706dea0af46737e461e7fe870cd3e79",      # pinned tree
                       "4d9b5844a81156cbe803a2cb1a10067076da56dc736b06380f00c978d7ea9848",      # + proposed fix C16-max-tries-zero
                       )


def source_fingerprint():
    import ast
    import hashlib
    try:
        src = open(os.path.join(common.REPO, "linear_operator", "utils", "cholesky.py")).read()
        parts = [ast.dump(n) for n in ast.parse(src).body
                 if isinstance(n, ast.FunctionDef) and n.name in ("_psd_safe_cholesky", "psd_safe_cholesky")]
        return hashlib.sha256("\n".join(parts).encode()).hexdigest()
    except Exception as ex:  # noqa
        return "unreadable: %r" % (ex,)


# ------------------------------------------------------------------------------------------------
# the library under test (imported lazily so that VERIF_REPO is honoured through PYTHONPATH)

def lib():
    from linear_operator import settings
    from linear_operator.operators import DenseLinearOperator
    from linear_operator.utils.cholesky import psd_safe_cholesky
    from linear_operator.utils.errors import NanError, NotPSDError
    from linear_operator.utils.warnings import NumericalWarning
    return dict(settings=settings, psc=psd_safe_cholesky, NanError=NanError, NotPSDError=NotPSDError,
                NumericalWarning=NumericalWarning, Dense=DenseLinearOperator)


def lib_defaults():
    """class-level defaults, read from the class attributes (not through .value())"""
    S = lib()["settings"]
    cj, cm = S.cholesky_jitter, S.cholesky_max_tries
    return {"float32": cj._global_float_value, "float64": cj._global_double_value,
            "half": cj._global_half_value, "mt": cm._global_value}


# ------------------------------------------------------------------------------------------------
# member generators.  Every generator returns an n x n float64 tensor whose entries are exactly
# representable in the case dtype (it is cast and cast back).

def _gauss_mat(rng, n):
    return torch.tensor([[rng.gauss(0.0, 1.0) for _ in range(n)] for _ in range(n)], dtype=F64).reshape(n, n)


def _orth(rng, n):
    if n == 0:
        return torch.zeros(0, 0, dtype=F64)
    q, _ = torch.linalg.qr(_gauss_mat(rng, n))
    return q


def _spectral(rng, n, lam):
    q = _orth(rng, n)
    a = q @ torch.diag(torch.tensor(lam, dtype=F64)) @ q.T
    return (a + a.T) / 2


def _int_lower(rng, n, zero_at=()):
    l0 = torch.zeros(n, n, dtype=F64)
    for i in range(n):
        for j in range(i):
            l0[i, j] = rng.choice([-2, -1, 0, 1, 1, 2])
        l0[i, i] = 0 if i in zero_at else rng.choice([1, 2, 3])
    return l0


def gen_member(rng, kind, n, dtype, scale, jit, mt):
    """kind: pd | pdk | pdx | sx | z | s<k> | ind | negd | nan | nanu  ->  (A float64 n x n, exact_first_attempt)"""
    exact = False
    if n == 0:
        return torch.zeros(0, 0, dtype=F64), True
    body = lambda: [scale * rng.uniform(0.3, 1.0) for _ in range(n)]
    if kind == "pd":
        a = _spectral(rng, n, body())
    elif kind == "pdk":                      # moderately ill-conditioned but safely p.d.
        lam = body()
        lam[rng.randrange(n)] = scale * (1e-4 if dtype == "float64" else 3e-2)
        a = _spectral(rng, n, lam)
    elif kind == "pdx":                      # exact arithmetic: A = L0 L0^T, L0 small integers (times a power of 4)
        l0 = _int_lower(rng, n)
        a = (l0 @ l0.T) * scale
        exact = True
    elif kind == "sx":                       # singular p.s.d. with an EXACT zero pivot
        l0 = _int_lower(rng, n, zero_at=(rng.randrange(n),))
        a = (l0 @ l0.T) * scale
        exact = True
    elif kind == "z":
        a = torch.zeros(n, n, dtype=F64)
        exact = True
    elif kind.startswith("s") and kind[1:].isdigit():   # needs exactly jitter*10^k
        k = int(kind[1:])
        lam = body()
        lam[rng.randrange(n)] = -(jit * 10.0 ** k) / math.sqrt(10.0)
        a = _spectral(rng, n, lam)
    elif kind == "ind":                      # strongly indefinite: hopeless for the ladder in force
        lam = body()
        top = jit * 10.0 ** max(mt - 1, 0)
        lam[rng.randrange(n)] = -max(0.7 * scale, 3.16 * top)
        if n >= 3 and rng.random() < 0.5:
            lam[(lam.index(min(lam)) + 1) % n] = -max(0.4 * scale, 3.16 * top)
        a = _spectral(rng, n, lam)
    elif kind == "negd":                     # exact: a non-positive pivot met with integer entries
        l0 = _int_lower(rng, n)
        a = l0 @ l0.T
        p = rng.randrange(n)
        if n >= 2 and rng.random() < 0.5:
            q = (p + 1) % n                  # [[1,2],[2,1]]-like: off-diagonal dominates
            big = float(max(a[p, p], a[q, q])) + rng.choice([1, 2])
            a[p, q] = a[q, p] = big
        else:
            a[p, p] = -float(rng.choice([1, 2, 3]))
        top = jit * 10.0 ** max(mt - 1, 0)
        a = a * max(scale, 4.0 ** math.ceil(math.log(max(4 * top, 1e-300), 4)))
        exact = True
    elif kind in ("nan", "nanu"):
        a = _spectral(rng, n, body())
        p = rng.randrange(n)
        q = rng.randrange(n)
        if kind == "nanu":
            p, q = (0, 1) if n == 2 else sorted(rng.sample(range(n), 2))
            a[p, q] = float("nan")           # strictly upper only: never read by the factorisation
        else:
            a[p, q] = float("nan")
            a[q, p] = float("nan")
    else:
        raise ValueError(kind)
    a = a.to(DT[dtype]).to(F64)
    if kind not in ("nanu",):
        a = torch.where(torch.isnan(a), a, (a + a.T) / 2)       # cast keeps symmetry; belt and braces
    return a, exact


# ------------------------------------------------------------------------------------------------
# the grid

# batch patterns: list of member kinds (row-major over the batch shape)
PATTERNS = [
    ["pd"], ["pdk"], ["pdx"], ["sx"], ["z"], ["s0"], ["s1"], ["s2"], ["s3"], ["s4"], ["ind"], ["negd"], ["nan"], ["nanu"],
    ["pd", "s0"], ["s0", "pd"], ["s0", "s2"], ["s2", "s0"], ["pd", "ind"], ["ind", "s0"], ["sx", "s1"], ["nan", "pd"],
    ["pd", "nan"], ["s1", "nan"], ["pd", "pd"], ["s1", "s1"], ["z", "pdx"], ["negd", "pd"], ["s3", "pd"], ["pd", "s2"],
    ["pd", "s1", "s0"], ["s2", "pd", "s0"], ["sx", "z", "pd"], ["s0", "s1", "s2"], ["pd", "pd", "ind"], ["s1", "pd", "nan"],
    ["pdx", "pd", "pdk"], ["s1", "sx", "s3"],
    ["pd", "s0", "s2", "pd"], ["s1", "s1", "pd", "sx"], ["pd", "pd", "pd", "s4"], ["ind", "pd", "s0", "nan"],
    ["pd", "s0", "pd", "s2", "sx", "pd"], ["s3", "pd", "pd", "pd", "pd", "s0"], ["s1", "s2", "s0", "s1", "s2", "s0"],
]
SHAPES = {0: [(0,)], 1: [(), (1,), (1, 1)], 2: [(2,), (1, 2), (2, 1)], 3: [(3,), (3, 1)], 4: [(2, 2), (4,), (1, 4)],
          6: [(2, 3), (3, 2), (6,), (1, 2, 3)]}

# configurations: how jitter / max_tries reach the function.  j/mt = explicit arguments, sj/smt = settings contexts.
# (sj is applied to the slot of the case dtype, the other dtype's slot gets a decoy value.)
def configs(dtype):
    d = dtype == "float64"
    small, mid, big = (1e-8, 2.5e-7, 3e-4) if d else (1e-6, 2.5e-5, 3e-3)
    cs = [
        dict(),                                             # library defaults
        dict(j=small), dict(j=mid, mt=4), dict(j=big, mt=2), dict(j=0.5, mt=3), dict(j=small, mt=6),
        dict(j=mid, mt=1), dict(j=mid, mt=0), dict(j=big, mt=-1), dict(mt=2), dict(mt=5),
        dict(sj=mid), dict(sj=big, smt=2), dict(smt=4), dict(smt=1), dict(sj=small, smt=0), dict(sj=mid, smt=5),
        dict(j=mid, smt=2), dict(sj=big, mt=4),
        dict(j=mid, sj=big, mt=2, smt=5),                   # explicit arguments win over settings
        dict(j=1.2345e-5 if d else 1.2345e-4, mt=3),        # jitter with more digits than the message prints
        dict(trace=True), dict(trace=True, j=mid, mt=2),
    ]
    return cs


# ------------------------------------------------------------------------------------------------
# the "plumbing" grid: WHERE jitter / max_tries come from  x  boundary VALUES.
# A settings layer is a dict {"k": "cj", "f": x|None, "d": x|None, "h": x|None} (with settings.cholesky_jitter(float_value=f,
# double_value=d, half_value=h)), {"k": "mt", "v": k} (cholesky_max_tries(k)) or {"k": "trace", "v": bool}; "exit": True means the
# context is entered AND left again at that nesting position before the call (its value must be gone, the enclosing value back).
# cfg["ctx"] lists the layers outermost first.  The legacy keys sj / smt / trace are layers too (layers_of).

def jitter_values(dtype):
    d = dtype == "float64"
    return {"zero": 0.0, "tiny": 1e-30, "default": 1e-8 if d else 1e-6, "mid": 2.5e-7 if d else 2.5e-5,
            "big": 3e-4 if d else 3e-3, "large": 50.0}


def _cj(dtype, v, others=None, half=None, **kw):
    """cholesky_jitter layer giving v in the slot of `dtype` and `others` in the other real slot"""
    lay = {"k": "cj", "f": others, "d": others, "h": half}
    lay["d" if dtype == "float64" else "f"] = v
    lay.update(kw)
    return lay


def _decoy(v, dtype):
    """a value for the slots that must NOT be read: far from v and from the default"""
    base = v if v >= 1e-15 else jitter_values(dtype)["default"]
    return base * 1e3


def jitter_sources(dtype):
    """-> list of (label, cfg fragment).  The value in force is spelled out by spec_state (not by the label)."""
    V = jitter_values(dtype)
    other = "float32" if dtype == "float64" else "float64"
    out = [("J:default", {}),
           ("J:ctx-other-slot-only", {"ctx": [_cj(other, V["big"] * 7)]}),              # this dtype's slot untouched
           ("J:ctx-half-only", {"ctx": [{"k": "cj", "f": None, "d": None, "h": V["big"] * 3}]})]
    for name in ("zero", "tiny", "default", "mid", "big", "large"):
        v = V[name]
        out += [("J:arg=" + name, {"j": v}),
                ("J:ctx-decoy=" + name, {"ctx": [_cj(dtype, v, others=_decoy(v, dtype), half=_decoy(v, dtype) * 3)]}),
                ("J:ctx-slot-only=" + name, {"ctx": [_cj(dtype, v)]}),
                ("J:ctx-all=" + name, {"ctx": [_cj(dtype, v, others=v, half=v)]})]
    for name, wname in (("zero", "big"), ("mid", "large"), ("large", "zero"), ("tiny", "mid")):
        v, w = V[name], V[wname]
        out += [("J:nested-inner-wins=" + name, {"ctx": [_cj(dtype, w, others=w), _cj(dtype, v)]}),
                ("J:nested-inner-none=" + name, {"ctx": [_cj(dtype, v, others=w), _cj(other, _decoy(v, dtype))]}),
                ("J:exited-back-to-outer=" + name, {"ctx": [_cj(dtype, v), _cj(dtype, w, others=w, exit=True)]}),
                ("J:exited-back-to-default(%s)" % name, {"ctx": [_cj(dtype, v if v > 0 else w, others=w, exit=True)]}),
                ("J:arg-over-ctx=" + name, {"j": v, "ctx": [_cj(dtype, w, others=w, half=w)]})]
    return out


def tries_sources():
    out = [("MT:default", {})]
    for k in (0, 1, 2, 3, 5, 7):
        out += [("MT:arg=%d" % k, {"mt": k}), ("MT:ctx=%d" % k, {"ctx": [{"k": "mt", "v": k}]})]
    for k, w in ((0, 5), (2, 7), (5, 0), (1, 3)):
        out += [("MT:nested-inner-wins=%d" % k, {"ctx": [{"k": "mt", "v": w}, {"k": "mt", "v": k}]}),
                ("MT:exited-back-to-outer=%d" % k, {"ctx": [{"k": "mt", "v": k}, {"k": "mt", "v": w, "exit": True}]}),
                ("MT:arg-over-ctx=%d" % k, {"mt": k, "ctx": [{"k": "mt", "v": w}]})]
    out += [("MT:exited-back-to-default", {"ctx": [{"k": "mt", "v": 6, "exit": True}]}),
            ("MT:arg=-1", {"mt": -1}), ("MT:ctx=-2", {"ctx": [{"k": "mt", "v": -2}]})]
    return out


def combine(jc, mc, mt_outside):
    """one cfg from a jitter fragment and a max_tries fragment; the two stacks of layers are interleaved"""
    cfg = {}
    if "j" in jc:
        cfg["j"] = jc["j"]
    if "mt" in mc:
        cfg["mt"] = mc["mt"]
    a, b = list(jc.get("ctx", [])), list(mc.get("ctx", []))
    layers = (b + a) if mt_outside else (a + b)
    if layers:
        cfg["ctx"] = layers
    return cfg


PLUMB_PATTERNS = [
    ["s0"], ["sx"], ["s1"], ["s2"], ["s4"], ["s5"], ["z"], ["ind"], ["pd"], ["negd"],
    ["pd", "s0"], ["s2", "s0"], ["nan", "s0"], ["s1", "pd", "s3"], ["sx", "z", "pd"], ["pd", "s3", "pd", "s0"], ["s6"],
]


def plumbing_cells(quick):
    cells = []
    reps = 1 if quick else 3
    for dtype in ("float64", "float32"):
        JS, MS = jitter_sources(dtype), tries_sources()
        pairs = []
        # (A) every jitter source x every pattern, the max_tries source rotating; (B) the converse
        for ji in range(len(JS)):
            for pi in range(len(PLUMB_PATTERNS)):
                pairs.append(("A", ji, crc("A", dtype, ji, pi) % len(MS), pi))
        for mi in range(len(MS)):
            for pi in range(len(PLUMB_PATTERNS)):
                pairs.append(("B", crc("B", dtype, mi, pi) % len(JS), mi, pi))
        if not quick:          # thorough: the full cross on the singleton patterns that react to both values
            for ji in range(len(JS)):
                for mi in range(len(MS)):
                    pairs.append(("X", ji, mi, [0, 1, 3, 5, 10, 13][crc("X", dtype, ji, mi) % 6]))
        for part, ji, mi, pi in pairs:
            if quick and pi >= 2 and (ji + mi + pi) % 2 == 1:
                continue
            for rep in range(reps):
                h = crc("pl", part, dtype, ji, mi, pi, rep)
                cfg = combine(JS[ji][1], MS[mi][1], bool(h & 4))
                pat = PLUMB_PATTERNS[pi]
                api = 1 if ("j" not in cfg and "mt" not in cfg and (h >> 3) % 3 == 0 and "nan" not in pat) else 0
                n = [2, 3, 4, 5][(h >> 4) % 4] if api == 1 else [1, 2, 3, 4, 5, 6][(h >> 4) % 6]
                shapes = SHAPES[len(pat)]
                cells.append(dict(api=api, dtype=dtype, ci=200 + ji * 100 + mi, cfg=cfg, pi=pi, pat=pat, rep=rep, n=n,
                                  src=[JS[ji][0], MS[mi][0]], upper=bool(h & 1), d32=bool(h & 2),
                                  layout="contig" if api == 1 else ["contig", "mT", "slice", "contig"][(h >> 8) % 4],
                                  shape=shapes[(h >> 12) % len(shapes)], scale_i=(h >> 16) % 3))
    return cells


# ------------------------------------------------------------------------------------------------
# settings HISTORIES (round 4): balanced sequences of __enter__ / __exit__ played before the call.  Layers carrying the same "obj" id are
# the SAME Python context object (re-entrant use: enter twice, exit twice; re-use after exit); the specification (theorem
# C16_balanced_history_restores) says that after a balanced history the values in force are the initial ones, so spec_state ignores
# cfg["hist"] and the call that follows must behave as under fresh settings.

def history_families(dtype):
    V = jitter_values(dtype)
    out = []
    for vname in ("big", "large", "zero"):
        v = V[vname]
        A = dict(_cj(dtype, v, others=v, half=v), obj=0)
        B = dict(_cj(dtype, V["mid"] * 3, others=V["mid"] * 3), obj=1)
        M = {"k": "mt", "v": {"big": 1, "large": 6, "zero": 0}[vname], "obj": 2}
        N = {"k": "mt", "v": 5, "obj": 3}
        E = lambda lay: dict(lay, ev="+")
        X = lambda lay: {"ev": "-", "obj": lay["obj"]}
        out += [
            ("H:reentrant-jitter=" + vname, {"hist": [E(A), E(A), X(A), X(A)]}),
            ("H:reentrant-tries=" + vname, {"hist": [E(M), E(M), X(M), X(M)]}),
            ("H:reentrant-both=" + vname, {"hist": [E(A), E(M), E(A), E(M), X(M), X(A), X(M), X(A)]}),
            ("H:reentrant-thrice=" + vname, {"hist": [E(A), E(A), E(A), X(A), X(A), X(A), E(M), E(M), E(M), X(M), X(M), X(M)]}),
            ("H:reuse-after-exit=" + vname, {"hist": [E(A), X(A), E(A), X(A), E(M), X(M), E(M), X(M)]}),
            ("H:nested-different-objects=" + vname, {"hist": [E(A), E(B), E(M), E(N), X(N), X(M), X(B), X(A)]}),
            ("H:reentrant-around-other=" + vname, {"hist": [E(A), E(B), E(A), X(A), X(B), X(A), E(M), E(N), E(M), X(M), X(N), X(M)]}),
            # the same object twice in the stack that is still OPEN during the call (idempotent), alone and around another object
            ("H:open-reentrant=" + vname, {"ctx": [dict(A), dict(M), dict(A), dict(M)]}),
            ("H:open-reentrant-around-other=" + vname, {"ctx": [dict(A), dict(B), dict(A)]}),
            # the open object entered once more and left again before the call: its value must still be in force
            ("H:open-reentrant-inner-left=" + vname, {"ctx": [dict(A), dict(A, exit=True), dict(M), dict(M, exit=True)]}),
        ]
    return out


def history_cells(quick):
    cells = []
    for dtype in ("float64", "float32"):
        V = jitter_values(dtype)
        afters = [{}, {"ctx": [_cj(dtype, V["mid"], others=V["mid"] * 1e3)]}, {"j": V["mid"], "mt": 4}, {"ctx": [{"k": "mt", "v": 2}]}]
        for hi, (label, frag) in enumerate(history_families(dtype)):
            for pi, pat in enumerate(PLUMB_PATTERNS):
                for rep in range(1 if quick else 3):
                    h = crc("hist", dtype, hi, pi, rep)
                    if quick and pi >= 3 and (hi + pi) % 3 != 0:
                        continue
                    after = afters[(h >> 5) % len(afters)] if "hist" in frag else {}
                    cfg = dict(after)
                    if "hist" in frag:
                        cfg["hist"] = frag["hist"]
                    else:
                        cfg["ctx"] = frag["ctx"]
                    explicit = "j" in cfg or "mt" in cfg
                    api = 0 if (explicit or "nan" in pat) else [0, 1, 2][(h >> 3) % 3]
                    n = [2, 3, 4, 5][(h >> 4) % 4] if api else [1, 2, 3, 4, 5, 6][(h >> 4) % 6]
                    shapes = SHAPES[len(pat)]
                    cell = dict(api=api, dtype=dtype, ci=9000 + hi, cfg=cfg, pi=pi, pat=pat, rep=rep, n=n, src=[label], upper=bool(h & 1),
                                d32=bool(h & 2), layout="contig", shape=shapes[(h >> 12) % len(shapes)], scale_i=(h >> 16) % 3)
                    if api == 2:
                        cell["opclass"] = OPCLASSES[(h >> 20) % len(OPCLASSES)]
                    cells.append(cell)
    return cells


# ------------------------------------------------------------------------------------------------
# operator-level cells (round 4): non-dense operators that take the generic LinearOperator._cholesky (api = 2).  Observed: outcome / warnings
# / factor as for the other routes, PLUS "A unchanged" at the operator level (every representation tensor and the cached op.to_dense() before
# vs after), and — cells with "first_cfg" — a SECOND factorisation (DenseLinearOperator(op.to_dense()).cholesky() under other settings; op.cholesky itself is memoised) after a
# first op.cholesky().

def operator_cells(quick):
    cells = []
    pats = [p for p in PATTERNS if "nan" not in p and "nanu" not in p]
    for dtype in ("float64", "float32"):
        V = jitter_values(dtype)
        zero = {"ctx": [_cj(dtype, 0.0, others=V["big"])]}
        stage1 = [dict(), dict(sj=V["mid"]), dict(sj=V["big"], smt=2), dict(smt=5), zero, dict(smt=1)]
        stage2 = [(dict(sj=V["big"]), dict()), (dict(), dict(sj=V["big"])), (dict(sj=V["large"], smt=2), dict(sj=V["mid"], smt=4)),
                  (dict(smt=5), dict(smt=1)), (dict(sj=V["big"], smt=5), zero)]
        combos = [(None, c) for c in stage1] + stage2
        for oi, opclass in enumerate(OPCLASSES):
            for ci, (first, cfg) in enumerate(combos):
                for pi, pat in enumerate(pats):
                    if (oi + ci + pi) % (4 if quick else 1) != 0:
                        continue
                    h = crc("opl", dtype, opclass, ci, pi)
                    shapes = SHAPES[len(pat)]
                    cell = dict(api=2, dtype=dtype, ci=8000 + ci, cfg=cfg, pi=pi, pat=pat, rep=0, n=[2, 3, 4, 5][(h >> 4) % 4],
                                opclass=opclass, src=["OP:" + opclass + (":second" if first is not None else ":first")],
                                upper=bool(h & 1), d32=bool(h & 2), layout="contig", shape=shapes[(h >> 12) % len(shapes)],
                                scale_i=(h >> 16) % 3)
                    if first is not None:
                        cell["first_cfg"] = first
                    cells.append(cell)
    return cells


def crc(*a):
    return zlib.crc32("|".join(str(x) for x in a).encode())


def enumerate_cells(quick):
    """deterministic, seed-independent list of structural cells"""
    cells = []
    reps = 1 if quick else 6
    for dtype in ("float64", "float32"):
        cfgs = configs(dtype)
        for ci, cfg in enumerate(cfgs):
            for pi, pat in enumerate(PATTERNS):
                if quick and (ci + pi) % 2 == 1 and ci not in (0,) and len(pat) > 1:
                    continue
                for rep in range(reps):
                    h = crc(dtype, ci, pi, rep)
                    sizes = [1, 2, 3, 4, 5, 6] if quick else [1, 2, 3, 4, 5, 6, 8, 12]
                    n = sizes[(h >> 4) % len(sizes)]
                    if any(k in ("nanu",) for k in pat):
                        n = max(n, 2)
                    shapes = SHAPES[len(pat)]
                    cells.append(dict(api=0, dtype=dtype, ci=ci, cfg=cfg, pi=pi, pat=pat, rep=rep, n=n,
                                      upper=bool(h & 1), d32=bool(h & 2),
                                      layout=["contig", "contig", "mT", "slice", "grad", "contig", "mT", "slice"][(h >> 8) % 8],
                                      shape=shapes[(h >> 12) % len(shapes)], scale_i=(h >> 16) % 3))
    # special cells: empty batch, 0 x 0 matrices, expanded (stride-0) batches
    for dtype in ("float64", "float32"):
        for upper in (False, True):
            cells.append(dict(api=0, dtype=dtype, ci=0, cfg={}, pi=-1, pat=[], rep=0, n=3, upper=upper, d32=True,
                              layout="contig", shape=(0,), scale_i=1))
            cells.append(dict(api=0, dtype=dtype, ci=0, cfg={}, pi=-2, pat=["pd"], rep=0, n=0, upper=upper, d32=True,
                              layout="contig", shape=(), scale_i=1))
            for kind in ("pd", "s0", "s1", "sx", "ind", "nan"):
                for ci in (0, 2, 12):
                    cells.append(dict(api=0, dtype=dtype, ci=ci, cfg=configs(dtype)[ci], pi=-3, pat=[kind], rep=0,
                                      n=2 + (crc(kind, ci) % 3), upper=upper, d32=bool(crc(kind, ci, 1) & 1),
                                      layout="expand", shape=(3,), scale_i=1))
    # the operator route: DenseLinearOperator(A).cholesky(upper)   (jitter / max_tries only via settings)
    op_cfg = [dict(), dict(sj="mid"), dict(smt=1), dict(sj="big", smt=2), dict(smt=5), dict(smt=0)]
    op_pats = [p for p in PATTERNS if "nanu" not in p]
    for dtype in ("float64", "float32"):
        mid, big = (2.5e-7, 3e-4) if dtype == "float64" else (2.5e-5, 3e-3)
        for ci, cfg in enumerate(op_cfg):
            cfg = {k: ({"mid": mid, "big": big}.get(v, v)) for k, v in cfg.items()}
            for pi, pat in enumerate(op_pats):
                if (ci + pi) % (3 if quick else 1) != 0:
                    continue
                for rep in range(1 if quick else 2):
                    h = crc("op", dtype, ci, pi, rep)
                    n = [1, 1, 2, 3, 4, 5][(h >> 4) % 6]
                    shapes = SHAPES[len(pat)]
                    cells.append(dict(api=1, dtype=dtype, ci=100 + ci, cfg=cfg, pi=pi, pat=pat, rep=rep, n=n,
                                      upper=bool(h & 1), d32=bool(h & 2), layout="contig",
                                      shape=shapes[(h >> 12) % len(shapes)], scale_i=(h >> 16) % 3))
    cells += plumbing_cells(quick)
    cells += history_cells(quick)
    cells += operator_cells(quick)
    return cells


# ------------------------------------------------------------------------------------------------
# building a concrete case from a cell

# powers of 4 (square roots stay exact for the integer families); the last entry is a fallback for cells whose jitter is tiny
# relative to the matrix norm (float32, large n)
SCALES = {"float64": [2.0 ** -8, 1.0, 2.0 ** 4, 2.0 ** -16], "float32": [2.0 ** -8, 1.0, 2.0 ** 4, 2.0 ** -16]}


def layers_of(cfg, dtype):
    """all settings layers of a configuration, outermost first (legacy keys sj / smt / trace included)"""
    ls = []
    if "sj" in cfg:          # the slot of the case dtype gets sj, the other one a decoy
        ls.append(_cj(dtype, cfg["sj"], others=cfg["sj"] * 1e3))
    if "smt" in cfg:
        ls.append({"k": "mt", "v": cfg["smt"]})
    if cfg.get("trace"):
        ls.append({"k": "trace", "v": True})
    return ls + list(cfg.get("ctx", []))


def spec_state(cfg, dtype, defaults):
    """the settings state the SPECIFICATION of the contexts puts in force for the call, computed by the harness from the values it
    asks the contexts to provide (never read back from the library): the innermost open context that specifies a value wins;
    None = not specified; a context that has been left again counts for nothing"""
    st = {"f": defaults["float32"], "d": defaults["float64"], "h": defaults["half"], "mt": defaults["mt"], "trace": False}
    for lay in layers_of(cfg, dtype):
        if lay.get("exit"):
            continue
        if lay["k"] == "cj":
            for slot in ("f", "d", "h"):
                if lay.get(slot) is not None:
                    st[slot] = lay[slot]
        elif lay["k"] == "mt":
            st["mt"] = lay["v"]
        elif lay["k"] == "trace":
            st["trace"] = bool(lay["v"])
    return st


def spec_values(case, defaults):
    """jitter / max_tries the SPECIFICATION says are in force (explicit argument, else the settings value); works for cells too"""
    cfg, dtype = case["cfg"], case["dtype"]
    st = spec_state(cfg, dtype, defaults)
    j, mt = st["d" if dtype == "float64" else "f"], st["mt"]
    if case["api"] == 0:     # the operator route passes no arguments
        j, mt = cfg.get("j", j), cfg.get("mt", mt)
    return float(j), int(mt)


def traced(case):
    return spec_state(case["cfg"], case["dtype"], {"float32": 0.0, "float64": 0.0, "half": None, "mt": 0})["trace"]


def effective(cell, defaults):
    return spec_values(cell, defaults)


def gen_jitter(cell, defaults):
    """the jitter the member generators scale the 'needs exactly 10^k' / 'hopeless' families with: the one in force, or — when
    that is 0 or negligible (no rung can repair anything) — the library default of the dtype, so that the matrices are exactly
    those the DEFAULT ladder would repair (a settings mechanism that drops the requested value then returns silently)"""
    j, _ = spec_values(cell, defaults)
    return j if j >= 1e-15 else float(defaults[cell["dtype"]])


def stage_shifts(j, mt):
    return [0.0] + [j * (10 ** k) for k in range(max(mt, 0))]


def chol_ok(m):
    """torch.linalg.cholesky_ex on one member, in its own dtype"""
    return int(torch.linalg.cholesky_ex(m).info) == 0


def robust(members, exact, dtype, j, mt, n):
    """every factorisation decision the loop can meet (member b, cumulative jitter c) must be away from the p.d.
    boundary: |lambda_min(A_b + c I)| >= 30 n eps ||A_b + c I||, unless the first attempt is decided in exact
    arithmetic (integer families); and LAPACK (in the case dtype) must agree with the sign of lambda_min."""
    if n == 0:
        return True
    eps = EPS[dtype]
    for a, ex in zip(members, exact):
        if torch.isnan(a).any():
            continue
        for si, c in enumerate(stage_shifts(j, mt)):
            m = a + c * torch.eye(n, dtype=F64)
            ev = torch.linalg.eigvalsh(m)
            lam, nrm = float(ev[0]), float(ev.abs().max())
            if ex and (si == 0 or torch.equal(m, a)):
                continue                    # decided in exact arithmetic (a shift absorbed by rounding changes nothing)
            if abs(lam) < 30 * n * eps * max(nrm, 1e-300):
                return False
            md = a.to(DT[dtype]).clone()
            md.diagonal().add_(c)
            if chol_ok(md) != (lam > 0):
                return False
    return True


def build_case(cell, rng, defaults):
    """-> case dict or None (no robust instance found for this cell)"""
    dtype, n, pat = cell["dtype"], cell["n"], cell["pat"]
    j, mt = effective(cell, defaults)
    jg = gen_jitter(cell, defaults)
    order = [cell["scale_i"], (cell["scale_i"] + 1) % 3, (cell["scale_i"] + 2) % 3, 3]
    for attempt in range(12):
        scale = SCALES[dtype][order[attempt % 4]]
        members, exact = [], []
        for kind in pat:
            a, ex = gen_member(rng, kind, n, dtype, scale, jg, mt)
            members.append(a)
            exact.append(ex)
        if robust(members, exact, dtype, j, mt, n):
            case = {k: cell[k] for k in ("api", "dtype", "n", "upper", "d32", "layout", "pat", "ci", "pi", "rep")}
            case["shape"] = list(cell["shape"])
            case["cfg"] = json.loads(json.dumps(cell["cfg"]))
            if "src" in cell:
                case["src"] = list(cell["src"])
            for extra in ("opclass", "first_cfg"):
                if extra in cell:
                    case[extra] = json.loads(json.dumps(cell[extra]))
            case["scale"] = scale
            case["A"] = [[[float(x).hex() for x in row] for row in a.tolist()] for a in members]
            if cell["layout"] == "expand":
                case["A"] = case["A"] * 3
                case["pat"] = list(pat) * 3
            return case
    return None


def members_of(case):
    n = case["n"]
    return [torch.tensor([[float.fromhex(x) for x in row] for row in m], dtype=F64).reshape(n, n) for m in case["A"]]


def make_input(case):
    """the tensor handed to the library, in the requested memory layout"""
    n, dt = case["n"], DT[case["dtype"]]
    ms = members_of(case)
    shape = tuple(case["shape"])
    if case["layout"] == "expand":
        return ms[0].to(dt).expand(3, n, n)
    if ms:
        a = torch.stack(ms).to(dt).reshape(*shape, n, n)
    else:
        a = torch.zeros(*shape, n, n, dtype=dt)
    lay = case["layout"]
    if lay == "mT":
        a = a.mT.contiguous().mT
    elif lay == "slice":
        big = torch.full(tuple(shape) + (n + 2, n + 1), 7.0, dtype=dt)
        big[..., 1:n + 1, :n] = a
        a = big[..., 1:n + 1, :n]
    elif lay == "grad":
        a = a.clone().requires_grad_(True)
    else:
        a = a.contiguous()
    return a


# ------------------------------------------------------------------------------------------------
# running the implementation

NUM = re.compile(r"[-+]?(?:\d+\.\d*|\.\d+|\d+)(?:[eE][-+]?\d+)?")


def _num_in(msg, after):
    i = msg.find(after)
    m = NUM.search(msg, i + len(after) if i >= 0 else 0)
    try:
        return float(m.group(0)) if m else -1.0
    except ValueError:
        return -1.0


def bits(t):
    t = t.detach().contiguous()
    return t.view(torch.int64 if t.dtype == torch.float64 else torch.int32).clone()


OPCLASSES = ["Sum", "ConstantMul", "Matmul", "AddedDiag"]


def build_op(case, a):
    """a non-dense operator that takes the generic LinearOperator._cholesky and whose to_dense() is EXACTLY the tensor a
    (splits are exact in floating point: a1 = a rounded to fewer bits, a - a1 is then representable and a1 + (a - a1) == a)"""
    import linear_operator.operators as O
    dt = a.dtype
    lo = torch.float32 if dt == torch.float64 else torch.bfloat16
    a1 = a.to(lo).to(dt)
    kind = case["opclass"]
    if kind == "Sum":
        return O.SumLinearOperator(O.DenseLinearOperator(a1), O.DenseLinearOperator(a - a1))
    if kind == "ConstantMul":
        return O.DenseLinearOperator(a * 0.5) * 2.0
    if kind == "Matmul":
        eye = torch.eye(a.shape[-1], dtype=dt).expand(*a.shape).contiguous()
        return O.MatmulLinearOperator(O.DenseLinearOperator(a.clone()), O.DenseLinearOperator(eye))
    if kind == "AddedDiag":
        d1 = a1.diagonal(dim1=-1, dim2=-2).contiguous()
        return O.AddedDiagLinearOperator(O.DenseLinearOperator(a - torch.diag_embed(d1)), O.DiagLinearOperator(d1))
    raise ValueError(kind)


def reset_settings(S, defaults):
    """isolation between cases: the class-level values are put back to what they were when the check started (a settings
    mechanism that leaks a value must fail the case that provoked it, not every later one)"""
    S.cholesky_jitter._global_float_value = defaults["float32"]
    S.cholesky_jitter._global_double_value = defaults["float64"]
    S.cholesky_jitter._global_half_value = defaults["half"]
    S.cholesky_max_tries._global_value = defaults["mt"]
    S.trace_mode._state = None


def enter_cfg(S, es, cfg, dtype):
    """play the settings HISTORY of a configuration (cfg["hist"]: balanced enter / exit events, layers with the same "obj" id are
    the same Python context object: re-entrant use, re-use after exit), then open the stack cfg["ctx"] on the ExitStack"""
    objs = {}

    def ctx_for(lay):
        if "obj" in lay and lay["obj"] in objs:
            return objs[lay["obj"]]
        if lay["k"] == "cj":
            cm = S.cholesky_jitter(float_value=lay.get("f"), double_value=lay.get("d"), half_value=lay.get("h"))
        elif lay["k"] == "mt":
            cm = S.cholesky_max_tries(lay["v"])
        else:
            cm = S.trace_mode(bool(lay["v"]))
        if "obj" in lay:
            objs[lay["obj"]] = cm
        return cm
    for ev in cfg.get("hist", []):
        if ev["ev"] == "+":
            ctx_for(ev).__enter__()
        else:
            objs[ev["obj"]].__exit__(None, None, None)
    for lay in layers_of(cfg, dtype):
        cm = ctx_for(lay)
        if lay.get("exit"):
            with cm:
                pass
        else:
            es.enter_context(cm)


def run_impl(case, defaults):
    L = lib()
    S = L["settings"]
    cfg, dtype, n = case["cfg"], case["dtype"], case["n"]
    old_default = torch.get_default_dtype()
    torch.set_default_dtype(torch.float32 if case["d32"] else torch.float64)
    reset_settings(S, defaults)
    obs = {"kind": 4, "warns": [], "last": 0.0, "L": None, "exc": None, "unchanged": False, "dtype_ok": True, "shape_ok": True,
           "op_changed": None}
    try:
        a = make_input(case)
        before, ver = bits(a), a._version
        op, reps, rep_before, dense_before = None, [], [], None
        if case["api"] == 2:
            # operator level: the representation tensors and the (cached) dense form before the factorisation
            op = build_op(case, a)
            reps = [t for t in op.representation() if torch.is_tensor(t)]
            rep_before = [(bits(t), t._version) for t in reps]
            dense_before = bits(op.to_dense())
            if "first_cfg" in case:          # a FIRST factorisation under other settings; the observed one is the second
                with contextlib.ExitStack() as es1, warnings.catch_warnings():
                    warnings.simplefilter("ignore")
                    enter_cfg(S, es1, case["first_cfg"], dtype)
                    try:
                        op.cholesky(upper=case["upper"])
                    except Exception:  # noqa
                        pass
                reset_settings(S, defaults)
        with contextlib.ExitStack() as es:
            enter_cfg(S, es, cfg, dtype)
            with warnings.catch_warnings(record=True) as w:
                warnings.simplefilter("always")
                try:
                    if case["api"] == 0:
                        res = L["psc"](a, upper=case["upper"], jitter=cfg.get("j"), max_tries=cfg.get("mt"))
                    elif case["api"] == 1:
                        res = L["Dense"](a).cholesky(upper=case["upper"]).to_dense()
                    elif "first_cfg" in case:
                        # (op.cholesky / op._cholesky are memoised: a second factorisation of what the operator represents NOW)
                        res = L["Dense"](op.to_dense()).cholesky(upper=case["upper"]).to_dense()
                    else:
                        res = op.cholesky(upper=case["upper"]).to_dense()
                    obs["kind"] = 0
                    res = res.detach()
                    obs["dtype_ok"] = res.dtype == a.dtype
                    obs["shape_ok"] = tuple(res.shape) == tuple(a.shape)
                    obs["L"] = res.to(F64)
                except L["NanError"] as ex:
                    obs["kind"], obs["exc"] = 1, "NanError: " + str(ex)[:160]
                except L["NotPSDError"] as ex:
                    obs["kind"], obs["exc"] = 2, "NotPSDError: " + str(ex)[:160]
                    obs["last"] = _num_in(str(ex), "up to")
                except UnboundLocalError as ex:
                    obs["kind"], obs["exc"] = 3, "UnboundLocalError: " + str(ex)[:160]
                except Exception as ex:  # noqa
                    obs["kind"], obs["exc"] = 4, type(ex).__name__ + ": " + str(ex)[:160]
            for x in w:
                if issubclass(x.category, L["NumericalWarning"]):
                    obs["warns"].append(_num_in(str(x.message), "jitter of"))
            obs["unchanged"] = bool(torch.equal(bits(a), before)) and a._version == ver
            if op is not None:
                # A unchanged at the OPERATOR level: every tensor of the representation (bits and version counter) and what the
                # operator represents, op.to_dense(), before vs after; and to_dense() is still exactly the matrix it was built from
                changed = []
                for i, (t, (b0, v0)) in enumerate(zip(reps, rep_before)):
                    if not torch.equal(bits(t), b0) or t._version != v0:
                        changed.append("representation tensor %d" % i)
                d1 = op.to_dense()
                if not torch.equal(bits(d1), dense_before):
                    changed.append("op.to_dense() (max abs change %.3g, diagonal change of member 0: %s)" % (
                        float((d1.to(F64) - a.to(F64)).abs().max()),
                        [float(x) for x in (d1.to(F64) - a.to(F64)).reshape(-1, n, n)[0].diagonal()][:4]))
                elif not torch.equal(bits(d1), bits(a)):
                    changed.append("op.to_dense() differs from the matrix the operator was built from")
                obs["op_changed"] = changed
                obs["unchanged"] = obs["unchanged"] and not changed
    finally:
        torch.set_default_dtype(old_default)
        reset_settings(S, defaults)
    return obs


# ------------------------------------------------------------------------------------------------
# the property evaluated directly on the implementation (independent oracle)

def lower_of(case, obs):
    """observed factor as (B, n, n) float64, made lower"""
    n = case["n"]
    Lt = obs["L"]
    if case["upper"]:
        Lt = Lt.mT
    return Lt.reshape(len(case["A"]), n, n)


def cond_tol(m, n, dtype):
    """relative tolerance for a Cholesky factor of m computed in `dtype` (first-order perturbation bound
    ||dL||/||L|| <~ kappa * backward error, backward error <= c n eps)"""
    if n == 0:
        return 1e-9
    ev = torch.linalg.eigvalsh(m)
    lam, nrm = float(ev[0]), float(ev.abs().max())
    if not (lam > 0):
        return 1e30
    kappa = nrm / lam
    base = 1e-9 if dtype == "float64" else 5e-6
    t = max(base, 50.0 * n * EPS[dtype] * kappa)
    return t if t <= 0.05 else 1e30


def expected(case, defaults):
    """oracle: what the property demands for this input.  -> dict(kind, nwarn, shifts per member)"""
    n, dtype = case["n"], case["dtype"]
    ms = [m.to(DT[dtype]) for m in members_of(case)]
    j, mt = spec_values(case, defaults)
    if case["api"] == 1 and n == 1:
        # documented shortcut of _cholesky for 1 x 1: sqrt(clamp_min(A, 0)); no jitter, no error
        return {"kind": 0, "nwarn": 0, "shifts": [0.0] * len(ms), "scalar": True, "j": j, "mt": mt}
    ok0 = [chol_ok(m) for m in ms]
    if all(ok0):
        return {"kind": 0, "nwarn": 0, "shifts": [0.0] * len(ms), "j": j, "mt": mt}
    if any(bool(torch.isnan(m).any()) for m in ms):
        return {"kind": 1, "nwarn": 0, "shifts": None, "j": j, "mt": mt}
    ks = []
    for m, ok in zip(ms, ok0):
        if ok:
            ks.append(None)
            continue
        found = "hopeless"
        for k in range(max(mt, 0)):
            md = m.clone()
            md.diagonal().add_(j * (10 ** k))
            if chol_ok(md):
                found = k
                break
        ks.append(found)
    if any(k == "hopeless" for k in ks):
        return {"kind": 2, "nwarn": max(mt, 0), "shifts": None, "ks": ks, "j": j, "mt": mt}
    mx = max(k for k in ks if k is not None)
    return {"kind": 0, "nwarn": mx + 1, "shifts": [0.0 if k is None else j * (10 ** k) for k in ks], "ks": ks, "j": j, "mt": mt}


def applied_jitter(case, obs):
    """what the returned factor says was added to each member's diagonal: mean of diag(F F^T - A)"""
    try:
        Fl = lower_of(case, obs)
        return [float((Fl[b] @ Fl[b].T - m).diagonal().mean()) for b, m in enumerate(members_of(case))]
    except Exception:  # noqa
        return None


KIND_NAME = {0: "returned", 1: "NanError", 2: "NotPSDError", 3: "UnboundLocalError", 4: "other-exception"}


def predicate(case, obs, defaults):
    """-> list of (category, text); empty = the property holds on this case"""
    fails = []
    n, dtype = case["n"], case["dtype"]
    if not obs["unchanged"]:
        fails.append(("input-modified", "A (or its version counter) changed during the call" if not obs.get("op_changed") else
                      "the operator was modified by its own factorisation: " + "; ".join(obs["op_changed"])))
    if traced(case) or "nanu" in case["pat"]:
        return fails            # outside the property's quantifier (trace mode / non-symmetric input)
    if case["api"] == 1 and n == 1 and any(bool(torch.isnan(m).any()) or float(m.min()) < 0 for m in members_of(case)):
        return fails            # 1 x 1 operator shortcut on a non-PSD operator: psd_safe_cholesky is not called at all
    ex = expected(case, defaults)
    if obs["kind"] != ex["kind"]:
        extra = ""
        if obs["kind"] == 0 and obs["shape_ok"] and obs["L"] is not None and n:
            extra = "; jitter actually applied per member (mean of diag(F F^T - A)) = %s, requested ladder = %s" % (
                applied_jitter(case, obs), [ex["j"] * 10 ** i for i in range(max(ex["mt"], 0))])
        fails.append(("wrong-outcome", "expected %s, observed %s (%s)%s" % (KIND_NAME[ex["kind"]], KIND_NAME[obs["kind"]], obs["exc"], extra)))
        return fails
    # warnings: one per try, jitter * 10^i (the message prints two significant digits)
    want = [ex["j"] * (10 ** i) for i in range(ex["nwarn"])]
    if len(obs["warns"]) != len(want):
        fails.append(("warnings", "expected %d NumericalWarnings, got %d" % (len(want), len(obs["warns"]))))
    else:
        for i, (x, y) in enumerate(zip(want, obs["warns"])):
            if y >= 0 and abs(x - y) > 0.06 * abs(x):
                fails.append(("warnings", "warning %d announces jitter %g, expected %g" % (i, y, x)))
                break
    if ex["kind"] == 2 and obs["last"] >= 0 and want and abs(obs["last"] - want[-1]) > 0.06 * abs(want[-1]):
        fails.append(("message", "NotPSDError names jitter %g, expected %g" % (obs["last"], want[-1])))
    if ex["kind"] != 0:
        return fails
    if not obs["dtype_ok"]:
        fails.append(("dtype", "factor dtype differs from the input dtype"))
    if not obs["shape_ok"]:
        fails.append(("shape", "factor shape differs from the input shape"))
        return fails
    Lt = obs["L"]
    if not bool(torch.isfinite(Lt).all()):
        fails.append(("nonfinite", "returned factor contains NaN/Inf"))
        return fails
    tri = Lt.tril(-1) if case["upper"] else Lt.triu(1)
    if bool((tri != 0).any()):
        fails.append(("orientation", "factor is not %s triangular" % ("upper" if case["upper"] else "lower")))
    Fl = lower_of(case, obs)
    ms = members_of(case)
    for b, (m, c) in enumerate(zip(ms, ex["shifts"])):
        target = m + c * torch.eye(n, dtype=F64)
        if ex.get("scalar"):
            target = target.clamp_min(0.0)
        R = Fl[b] @ Fl[b].T - target
        scale = float(target.abs().max()) if n else 0.0
        tol = 40.0 * (n + 1) * EPS[dtype] * scale + 2e-7 * abs(c) + 1e-300
        if n and float(R.abs().max()) > tol:
            fails.append(("factor", "member %d: |F F^T - (A + %.3g I)|_max = %.3g > %.3g (jitter actually applied = diag(F F^T - A) = %s; "
                          "requested ladder %s)" % (b, c, float(R.abs().max()), tol, [float(x) for x in (Fl[b] @ Fl[b].T - m).diagonal()][:4],
                                                   [ex["j"] * 10 ** i for i in range(max(ex["mt"], 0))])))
            break
        if n and not ex.get("scalar") and bool((Fl[b].diagonal() <= 0).any()):
            fails.append(("factor", "member %d: non-positive diagonal in the factor" % b))
            break
        # the exact factor: close to LAPACK's factor of exactly that matrix
        if n and not ex.get("scalar"):
            td = m.to(DT[dtype]).clone()
            td.diagonal().add_(c)
            ref, info = torch.linalg.cholesky_ex(td)
            t = cond_tol(target, n, dtype)
            # the increment is formed as a tensor of the DEFAULT dtype (float32 rounding, relative 6e-8): allow for it
            t += 2e-7 * abs(c) / max(float(torch.linalg.eigvalsh(target)[0]), 1e-300)
            if int(info) == 0 and t < 0.05:
                d = (ref.to(F64) - Fl[b]).abs().max()
                if float(d) > t * max(float(ref.abs().max()), 1e-300):
                    fails.append(("factor", "member %d: differs from the Cholesky factor of A + %.3g I by %.3g" % (b, c, float(d))))
                    break
    return fails


def key_of(case, cat, obs, defaults):
    j, mt = spec_values(case, defaults)
    k = {"api": ["psd_safe_cholesky", "DenseLinearOperator.cholesky", "LinearOperator.cholesky (generic _cholesky, non-dense operator)"][case["api"]], "fail": cat,
         "tries": "nonpositive" if mt <= 0 else "positive"}
    if cat == "wrong-outcome":
        k["observed"] = KIND_NAME[obs["kind"]]
    cfg = case["cfg"]
    has = lambda kind: any(l["k"] == kind for l in layers_of(cfg, case["dtype"]))
    k["jitter"] = "zero" if j == 0 else "positive"
    k["jitter_from"] = "argument" if ("j" in cfg and case["api"] == 0) else ("settings" if has("cj") else "default")
    k["tries_from"] = "argument" if ("mt" in cfg and case["api"] == 0) else ("settings" if has("mt") else "default")
    if case["api"] == 2:
        k["call"] = "second factorisation" if "first_cfg" in case else "first factorisation"
    if cfg.get("hist"):
        k["history"] = "balanced settings history before the call"
    return k


# ------------------------------------------------------------------------------------------------
# Coq literals

fl = common.flit


def mat_lit(rows):
    return "[" + "; ".join("[" + "; ".join(fl(x) for x in r) + "]" for r in rows) + "]"


def mats_lit(ms):
    return "[" + ";\n    ".join(mat_lit(m) for m in ms) + "]"


def opt(x, f):
    return "None" if x is None else "(Some %s)" % f(x)


def tolerances(case, defaults):
    """per-member tolerances for the model comparison (see design_notes/C16.md)"""
    n, dtype = case["n"], case["dtype"]
    j, mt = spec_values(case, defaults)
    ms = members_of(case)
    tolL, sL, tolinc = [], [], []
    for m in ms:
        if n and bool(torch.isnan(m).any()):
            m = m.tril() + m.tril(-1).T          # only the lower triangle is read by the factorisation
        if n == 0 or bool(torch.isnan(m).any()):
            tolL.append(1e-9 if dtype == "float64" else 5e-6), sL.append(1.0), tolinc.append(1e-9)
            continue
        # the matrix this member ends up with: first stage at which it is p.d.
        # (decided like the loop decides: LAPACK in the case dtype.  For the exact singular families eigvalsh of the
        # unshifted matrix can be +1e-19, which would select stage 0 and a tolerance that ignores the jitter)
        fin, cfin = m, 0.0
        for c in stage_shifts(j, mt):
            fin, cfin = m + c * torch.eye(n, dtype=F64), c
            md = m.to(DT[dtype]).clone()
            md.diagonal().add_(c)
            if chol_ok(md) and float(torch.linalg.eigvalsh(fin)[0]) > 0:
                break
        # the jitter itself is only pinned down to float32 resolution (the library forms the increment as a tensor of
        # the default dtype; a rewrite that forms it in A.dtype is equally good): relative 2.5e-7 on the shift
        jres = 2.5e-7 * abs(cfin)
        if case["api"] == 1 and n == 1:
            fin = m.clamp_min(0.0)
            tolL.append(1e-9 if dtype == "float64" else 5e-6)
        else:
            t = cond_tol(fin, n, dtype) + jres / max(float(torch.linalg.eigvalsh(fin)[0]), 1e-300)
            tolL.append(t if t <= 0.05 else 1e30)
        dmax = float(fin.diagonal().abs().max())
        sL.append(math.sqrt(dmax) if dmax > 0 else 1e-300)
        tolinc.append(16.0 * (n + 2) * EPS[dtype] * max(dmax, float(fin.abs().max())) + jres + 1e-300)
    two_digit = all(float("%.1e" % v) == v for v in [j])
    return tolL, sL, tolinc, (1e-9 if two_digit else 0.06)


def case_lit(case, obs, defaults):
    n, dtype, cfg = case["n"], case["dtype"], case["cfg"]
    ms = [m.tolist() for m in members_of(case)]
    B = len(ms)
    # the model receives the library defaults as the outer state and the CONTEXTS the harness opened with the values it asked
    # for (never read back through the library); Model.enter_all computes what is in force.  Contexts that were left again
    # before the call are not open (that __exit__ restores the previous state is C17's theorem; here it is checked by comparison)
    st = "(MkSettings %s %s %s %s false)" % (fl(defaults["float32"]), fl(defaults["float64"]), fl(defaults["half"] or 0.0),
                                             common.zlit(defaults["mt"]))
    cx = []
    for lay in layers_of(cfg, dtype):
        if lay.get("exit"):
            continue
        if lay["k"] == "cj":
            cx.append("CtxJitter %s %s %s" % (opt(lay.get("f"), fl), opt(lay.get("d"), fl), opt(lay.get("h"), fl)))
        elif lay["k"] == "mt":
            cx.append("CtxMaxTries %s" % common.zlit(lay["v"]))
        else:
            cx.append("CtxTrace %s" % common.coq_bool(bool(lay["v"])))
    st += " [" + "; ".join(cx) + "]"
    tolL, sL, tolinc, tolw = tolerances(case, defaults)
    oL, oinc = [], []
    if obs["kind"] == 0 and obs["L"] is not None:
        try:
            oL = obs["L"].reshape(B, n, n).tolist()
            Fl = lower_of(case, obs)
            A = torch.stack(members_of(case)) if B else torch.zeros(0, n, n, dtype=F64)
            oinc = ((Fl @ Fl.mT) - A).diagonal(dim1=-1, dim2=-2).tolist() if B else []
        except Exception:  # noqa  (wrong shape: left empty, the comparator reports it)
            oL, oinc = [], []
    return ("(MkCase %d %s %s %s %d\n   %s\n   %s %s %s\n   %s %s %s %s\n   %d %s %s\n   %s\n   %s %s)" % (
        case["api"], {"float64": "Float64", "float32": "Float32"}[dtype], common.coq_bool(case["d32"]), st, n,
        mats_lit(ms), common.coq_bool(case["upper"]),
        opt(cfg.get("j") if case["api"] == 0 else None, fl), opt(cfg.get("mt") if case["api"] == 0 else None, common.zlit),
        common.flist(tolL), common.flist(sL), common.flist(tolinc), fl(tolw),
        obs["kind"], common.flist(obs["warns"]), fl(obs["last"]),
        mats_lit(oL), "[" + "; ".join(common.flist(r) for r in oinc) + "]", common.coq_bool(obs["unchanged"])))


def shard_src(items):
    body = ";\n ".join(items)
    return ("From Coq Require Import List ZArith Bool PrimFloat.\nImport ListNotations.\n"
            "Require Import C16.Model C16.Check.\n"
            "Definition cases : list case := [\n %s].\n"
            "Eval vm_compute in (bad_cases cases 0).\n" % body)


REASON = {1: "outcome kind", 2: "warnings (jitter values)", 3: "factor values", 4: "diagonal increments per member",
          5: "input modified", 6: "jitter in the error message"}


# ------------------------------------------------------------------------------------------------

def slim(case, obs=None):
    c = {k: case[k] for k in ("api", "dtype", "n", "shape", "upper", "d32", "layout", "pat", "cfg", "scale")}
    for extra in ("src", "opclass", "first_cfg"):
        if extra in case:
            c[extra] = case[extra]
    if obs is not None:
        c["observed"] = {"kind": KIND_NAME[obs["kind"]], "warns": obs["warns"], "exc": obs["exc"]}
    return c


def generate(ctx_seed, quick, limit=None):
    defaults = lib_defaults()
    cells = enumerate_cells(quick)
    if limit:
        cells = cells[:limit]
    cases, dropped = [], 0
    for idx, cell in enumerate(cells):
        rng = random.Random("%d/%d" % (ctx_seed, idx))
        c = build_case(cell, rng, defaults)
        if c is None:
            dropped += 1
            continue
        cases.append(c)
    return cases, dropped, defaults


def direct_search(ctx, cases, defaults, observations=None, limit=6):
    """evaluate the property on the implementation for every case; report concrete failing inputs"""
    found, seen = 0, set()
    for i, c in enumerate(cases):
        obs = observations[i] if observations else run_impl(c, defaults)
        fs = predicate(c, obs, defaults)
        if not fs:
            continue
        cat, text = fs[0]
        key = key_of(c, cat, obs, defaults)
        sig = json.dumps(key, sort_keys=True)
        if sig in seen:
            continue
        seen.add(sig)
        rp = {"kind": "property-failure", "what": text, "all": [t for _, t in fs][:5], "case": c,
              "observed": {"kind": KIND_NAME[obs["kind"]], "warns": obs["warns"], "exc": obs["exc"]},
              "expected": {k: v for k, v in expected(c, defaults).items() if k != "shifts"} if not traced(c) else None}
        if ctx.violation(rp, key=key):
            found += 1
        if found >= limit:
            break
    return found, seen


def run(ctx):
    t0 = time.time()
    regenerate()
    quick = ctx.quick
    for f in os.listdir(ctx.gen):            # stale shards of earlier runs
        if f.startswith("cases_c16_"):
            try:
                os.remove(os.path.join(ctx.gen, f))
            except OSError:
                pass

    def on_fail(info):
        cs, _, df = generate(ctx.seed, False, limit=None if not quick else 2500)
        f, _ = direct_search(ctx, cs, df)
        return f > 0
    ok = common.proof_stage(ctx, on_fail)
    cases, dropped, defaults = generate(ctx.seed, quick)
    observations = [run_impl(c, defaults) for c in cases]
    t_impl = time.time() - t0
    direct, direct_keys = direct_search(ctx, cases, defaults, observations) if ok else (0, set())
    mism = []
    if ok:
        SH = 300
        shards = []
        for s in range(0, len(cases), SH):
            shards.append(("c16_%d" % (s // SH),
                           shard_src([case_lit(c, o, defaults) for c, o in zip(cases[s:s + SH], observations[s:s + SH])])))
        res = {}
        for g in range(0, len(shards), 3):          # at most 3 shard compilers at a time
            res.update(common.run_shards(ctx, shards[g:g + 3]))
        for si, (name, _) in enumerate(shards):
            rc, out = res[name]
            bad = common.parse_coq_list_of_nat(out) if rc == 0 else None
            if bad is None:
                ctx.violation({"kind": "shard-failed", "shard": name, "out": out[-800:]}, no_input=True)
                continue
            mism += [(si * SH + b // 16, b % 16) for b in bad]
        reported = set()
        for (m, why) in mism:
            c, o = cases[m], observations[m]
            fs = predicate(c, o, defaults)
            if fs:
                # a failing input: reported once per structural key (the direct search above may have done so already)
                key = key_of(c, fs[0][0], o, defaults)
                sig = json.dumps(key, sort_keys=True)
                if sig in direct_keys or sig in reported:
                    continue
                reported.add(sig)
                ctx.violation({"kind": "property-failure", "what": fs[0][1], "case": c, "model_disagrees_on": REASON.get(why)}, key=key)
            else:
                sig = (why, c["api"], c["dtype"], traced(c))
                if sig in reported:
                    continue
                reported.add(sig)
                ctx.violation({"kind": "model-implementation-disagreement", "disagrees_on": REASON.get(why, why), "case": c,
                               "observed": {"kind": KIND_NAME[o["kind"]], "warns": o["warns"], "exc": o["exc"]},
                               "correspondence": "coq/C16/Check.v compare (Model.v on PrimFloat vs implementation)"}, no_input=True)
    # ---- coverage
    outcome = {}
    fam = {}
    for c, o in zip(cases, observations):
        kname = KIND_NAME[o["kind"]] + ("/%dw" % len(o["warns"]) if o["kind"] in (0, 2) else "")
        outcome[kname] = outcome.get(kname, 0) + 1
        for k in c["pat"]:
            fam[k] = fam.get(k, 0) + 1
    distinct = len({json.dumps([c["api"], c["dtype"], c["cfg"], c["pat"], c["shape"], c["n"], c["upper"], c["d32"], c["layout"], c.get("opclass"), c.get("first_cfg")], sort_keys=True)
                    for c, o in zip(cases, observations) if c["n"] >= 2 and len(c["pat"]) >= 1 and (o["kind"] != 0 or o["warns"] or len(c["pat"]) > 1)})
    mixed = sum(1 for c, o in zip(cases, observations)
                if o["kind"] == 0 and o["warns"] and len(set(c["pat"])) > 1)
    # where the values came from / which boundary values were in force (the plumbing grid)
    sources, jit_class, tries_hist, zero_notpsd = {}, {}, {}, 0
    for c, o in zip(cases, observations):
        j, mt = spec_values(c, defaults)
        for lab in c.get("src", ["legacy-grid"]):
            lab = lab.split("=")[0]
            sources[lab] = sources.get(lab, 0) + 1
        cls = "zero" if j == 0 else ("tiny" if j < 1e-15 else ("large" if j >= 1.0 else "ordinary"))
        jit_class[cls] = jit_class.get(cls, 0) + 1
        tries_hist[str(mt)] = tries_hist.get(str(mt), 0) + 1
        zero_notpsd += int(j == 0 and o["kind"] == 2)
    ctx.coverage.update({
        "trusted_base": common.COQ_TRUSTED + [
            "coq/C16/Model.v is a hand transcription of linear_operator/utils/cholesky.py and of the dense _cholesky/cholesky path "
            "(not generated from the source); tied to the code only by the correspondence below",
            "settings.cholesky_jitter / cholesky_max_tries / trace_mode contexts are modelled by Model.enter_all (hand transcription of "
            "_dtype_value_context._set_value, _value_context._set_value, _feature_flag._set_state); __exit__ is not modelled: a context the harness "
            "left again is absent from the model's stack and the comparison checks that its value is really gone. The harness feeds the model and "
            "the oracle the values it ASKED the contexts to provide, never values read back from the library (class-level defaults excepted)",
            "operator-level cells: the harness builds the non-dense operators with exact floating-point splits and trusts op.representation() to list "
            "every tensor of the operator; the second factorisation is DenseLinearOperator(op.to_dense()).cholesky() because op.cholesky is memoised; "
            "balanced settings histories are not passed to the model (theorem C16_balanced_history_restores: they are the identity)",
            "torch.linalg.cholesky_ex is modelled per member by the Cholesky-Banachiewicz kernel `chol_kernel` (info = first non-positive or NaN pivot); "
            "LAPACK itself, torch.isnan/any/clone/diagonal/add_/expand/mT are modelled by their mathematical meaning",
            "binary64 PrimFloat evaluation of the model by vm_compute; float32 inputs are run through the binary64 model "
            "(only the float32 rounding of the jitter increment under default dtype float32 is modelled, `round32`)",
            "correspondence harness harness/c16.py: generators with a robustness margin around the p.d. boundary, observers "
            "(warning / message parsing, diag(F F^T - A)), conditioning-aware tolerances, comparator coq/C16/Check.v",
            "independent oracle in triage: per-member torch.linalg.cholesky_ex on A_b + jitter*10^k I assembled by the harness",
        ],
        "evaluations": len(cases), "distinct_nontrivial": distinct,
        "rule": "cells = dtype x configuration (how jitter/max_tries arrive: defaults, explicit, settings, both, trace) x batch pattern; plus the "
                "plumbing grid: every jitter source (argument, settings context with decoys / slot only / all slots, nested, left-again, "
                "argument over context, default) x boundary value (0, 1e-30, default, mid, big, 50) x pattern and every max_tries source x "
                "{-2,-1,0,1,2,3,5,7} x pattern, direct call and operator route; balanced settings histories (the same context object entered twice / "
                "re-used / nested around others) before the call; non-dense operators (Sum, ConstantMul, Matmul, AddedDiag) taking the generic _cholesky with "
                "A-unchanged observed at the operator level (representation tensors and cached to_dense() before vs after) and second factorisations; "
                "(member families pd/pdk/pdx/sx/z/s<k>/ind/negd/nan/nanu) with n, batch shape, upper, default dtype, memory layout rotated by a "
                "seed-independent hash; the seed picks the matrix entries. non-trivial = n >= 2 and (an error is raised, or jitter is added, or the "
                "batch has more than one member); distinct by (api, dtype, configuration, pattern, shape, n, upper, default dtype, layout)",
        "dropped_borderline_cells": dropped, "mismatches": len(mism), "mismatch_reasons": sorted({REASON.get(w, str(w)) for _, w in mism}),
        "direct_property_failures": direct, "direct_failure_keys": sorted(direct_keys),
        "outcomes": outcome, "member_families": fam, "mixed_batches_with_jitter": mixed,
        "operator_level_cases": {k: sum(1 for c in cases if c["api"] == 2 and c.get("opclass") == k) for k in OPCLASSES},
        "second_factorisation_cases": sum(1 for c in cases if "first_cfg" in c),
        "settings_history_cases": sum(1 for c in cases if c["cfg"].get("hist") or any("obj" in l for l in c["cfg"].get("ctx", []))),
        "value_sources": sources, "jitter_in_force": jit_class, "max_tries_in_force": tries_hist,
        "zero_jitter_cases_ending_in_NotPSDError": zero_notpsd,
        "wall_impl_s": round(t_impl, 1),
        "source_ast_sha": source_fingerprint(), "source_matches_transcription": source_fingerprint() in TRANSCRIBED_AST_SHA,
        "samples": [slim(cases[len(cases) // 3], observations[len(cases) // 3]), slim(cases[(2 * len(cases)) // 3], observations[(2 * len(cases)) // 3])],
    })
    ctx.assumptions = [
        "inputs are symmetric real matrices without Inf entries (a 1x1 [[inf]] is returned as factor [[inf]]: outside the property's quantifier)",
        "max_tries <= 22 so that 10**i is exact in binary64 (the model multiplies by 10 repeatedly)",
        "CPU tensors, float32/float64 (float16 has no CPU Cholesky); the `out=` argument is not exercised",
        "matrices keep a relative margin >= 30 n eps from the positive-definiteness boundary at every stage of the jitter ladder "
        "(or hit it in exact integer arithmetic), so that LAPACK and the model agree on every info bit",
    ]


# ------------------------------------------------------------------------------------------------

def replay(rp):
    defaults = lib_defaults()
    case = rp.get("case")
    if case is None:
        print("replay file carries no case (", rp.get("kind"), "):", json.dumps(rp.get("obligation") or rp, default=str)[:600])
        return 1
    obs = run_impl(case, defaults)
    fs = predicate(case, obs, defaults)
    print("case:", json.dumps(slim(case)))
    print("observed:", KIND_NAME[obs["kind"]], "warnings", obs["warns"], obs["exc"] or "")
    if not traced(case):
        ex = expected(case, defaults)
        print("expected:", KIND_NAME[ex["kind"]], "warnings", [ex["j"] * 10 ** i for i in range(ex["nwarn"])], "per-member shifts", ex["shifts"])
    ctx = common.Ctx(PROP, "replay", 0)
    name = "c16_replay_%d" % os.getpid()
    res = common.run_shards(ctx, [(name, shard_src([case_lit(case, obs, defaults)]))])
    rc, out = list(res.values())[0]
    try:
        os.remove(os.path.join(ctx.gen, "cases_%s.v" % name))
    except OSError:
        pass
    bad = common.parse_coq_list_of_nat(out) if rc == 0 else None
    print("model (coq/C16/Model.v on PrimFloat) vs implementation:",
          "agree" if bad == [] else ("disagree on " + REASON.get(bad[0] % 16, "?") if bad else "shard failed: " + out[-300:]))
    for cat, t in fs:
        print("property failure [%s]: %s" % (cat, t))
    if not fs:
        print("property holds on this case")
    return 1 if (fs or bad != []) else 0
