"""C11 structural grid.  The grid of structural cells is enumerated deterministically (independent of the
seed); the seed only picks the values (vseed) of every cell.

A minres *system* is a spec (see c11_sys.build) plus a list of budgets (max_iter values; None = default).
Cells are built so that the regressions that depend on iteration count x shift count x batch shape x rhs shape
(rotating buffers, squeeze rules, zero masking, convergence test every 10th step, eps clamp) are all hit."""

SHIFT_KINDS = [
    {"kind": "none"},
    {"kind": "scalar"},                 # 0-d tensor: numel 1 -> no leading dimension
    {"kind": "vec", "Q": 1},            # shape (1,): numel 1 -> no leading dimension
    {"kind": "vec", "Q": 3},
    {"kind": "zero-first", "Q": 4},     # the layout contour_integral_quad uses
    {"kind": "batched", "Q": 2},        # (Q, *batch)
    {"kind": "batched", "Q": 1},        # (1, *batch): numel > 1 although Q = 1 -> leading dimension stays
    {"kind": "partial", "Q": 2},        # (Q, 1, d2): singleton batch dimensions
]
BATCHES = [[], [2], [2, 3]]
COLS = ["n", "nn", "nzn", "tnh", "ns", "z"]
FAMS = [("uniform", 10.0), ("geometric", 1e2), ("few3", 1e3), ("geometric", 1e4), ("clustered", 1e4),
        ("identity", 1.0), ("few2", 10.0), ("indef", 1e2)]
PRES = ["none", "jacobi", "none", "randspd", "clone", "scaled"]
VALUES = [None, -1.0, 2.0, None, -0.5]


def well_conditioned(spec):
    """whole-run trajectory comparison is allowed (DESIGN 2.4): kappa <= 10 or <= 4 distinct eigenvalues, and no
    preconditioner that changes the spectrum in an uncontrolled way"""
    if spec.get("pre", "none") not in ("none", "clone", "alias", "scaled"):
        return False
    return spec["fam"] == "identity" or spec["fam"].startswith("few") or float(spec["kappa"]) <= 10.0


def n_iters(spec, mi, max_cg=1000):
    """loop bodies executed when the convergence test does not fire"""
    m = max_cg if mi is None else mi
    return min(m, spec["n"] + 1) + 2


def policy(spec, mi, max_cg=1000):
    """(level, tol) of the model comparison for budget mi (trajectory policy of DESIGN 2.4, thresholds measured
    for MINRES: see design_notes/C11.md)"""
    its = n_iters(spec, mi, max_cg)
    f32 = spec.get("dtype") == "float32"
    if spec.get("mm") == "alias" or spec.get("pre") == "alias":
        return 1, 1e-9          # the model is the specified behaviour (K = I): any deviation is a defect
    if f32:
        return (1, 2e-3) if (well_conditioned(spec) and its <= 6) else (0, 0.0)
    if well_conditioned(spec):
        return 1, 1e-9
    if float(spec["kappa"]) <= 1e2 and its <= 8:
        return 1, 1e-9
    if its <= 6:
        return 1, 1e-9
    return 0, 0.0


def oracle_tol(spec, its):
    """tolerance of the Krylov least-squares oracle for the iterate after `its` loop bodies (None: not used)"""
    if spec.get("dtype") == "float32":
        return None
    if its <= 6:
        return 1e-9
    if well_conditioned(spec) and spec.get("pre", "none") in ("none", "clone", "alias", "scaled"):
        return 1e-7
    if float(spec["kappa"]) <= 1e2 and its <= 11 and spec["fam"] != "indef":
        return 1e-6
    return None


def residual_bound(spec, mi, st):
    """bound on ||(vK + s P^-1) x - b|| / ||b|| for a run at the default budget (support only; MINRES convergence is
    not proved).  The stopping rule looks at the relative UPDATE norm every 10th step, so at the default
    minres_tolerance (1e-4) an ill-conditioned system (kappa 1e4) may stop on a plateau with a residual of several
    percent (measured, see design_notes/C11.md): the bound is then only asserted for a tight tolerance."""
    if mi is not None or spec["fam"] == "indef" or spec.get("set_max_cg") is not None or spec.get("dtype") == "float32":
        return None
    if (spec.get("eps") or 0) >= 1e-20 or spec.get("mm") == "alias" or spec.get("pre") == "alias":
        return None
    tol = st["tol"]
    if tol <= 1e-8:
        return 1e-7
    if tol < 1.0 and (well_conditioned(spec) or float(spec["kappa"]) <= 1e2):
        return 50.0 * tol
    return None


def minres_systems(quick, seed):
    """list of (spec, budgets); deterministic cell enumeration, vseed = f(seed, index)"""
    out = []
    idx = [0]

    def add(spec, budgets):
        idx[0] += 1
        spec = dict(spec)
        spec["cell"] = idx[0]
        spec["vseed"] = seed * 100003 + idx[0]
        out.append((spec, budgets))

    # (A) shift kind x batch x rhs shape: the squeeze / broadcast / masking cells
    i = 0
    for sk in SHIFT_KINDS:
        for batch in BATCHES:
            if not batch and sk["kind"] in ("batched", "partial"):
                continue
            if sk["kind"] == "partial" and len(batch) < 2:
                continue
            for cols in (["n", "nzn", "tnh"] if quick else COLS):
                i += 1
                fam, kappa = FAMS[i % len(FAMS)]
                n = [1, 2, 3, 5, 8, 12][i % 6]
                vec = (cols in ("n", "z") and not batch and i % 2 == 0)
                spec = {"n": n, "cols": cols, "batch": batch, "rhs_batch": "full" if (i % 3 or vec) else "none",
                        "rhs_vec": vec, "fam": fam, "kappa": kappa, "shifts": sk, "value": VALUES[i % len(VALUES)],
                        "pre": PRES[i % len(PRES)] if fam != "indef" else "none",
                        "mm": ["callable", "tensor"][i % 2]}
                if sk["kind"] == "zero-first" and spec["value"] is None:
                    spec["value"] = -1.0
                budgets = [1, 2, 4, None] if quick else [1, 2, 3, 4, 5, 6, 8, None]
                add(spec, budgets)
    # vector rhs with every shift layout (both squeezes interact)
    for sk in SHIFT_KINDS[:5]:
        i += 1
        add({"n": [3, 5, 8][i % 3], "cols": "n", "batch": [], "rhs_vec": True, "fam": "uniform", "kappa": 10.0,
             "shifts": sk, "value": VALUES[i % len(VALUES)], "pre": "none", "mm": ["callable", "tensor"][i % 2]},
            [1, 3, None])
    # (B) the convergence test every 10th step: sizes that reach iteration 10 / 20 / 30, tolerance settings,
    #     a zero column (NaN in the mean: the test never fires), well-conditioned so that whole runs are compared
    for n in ([8, 12, 20, 40] if quick else [7, 8, 9, 12, 18, 20, 28, 40]):
        for tol in [None, 1.0, 1e-10]:
            for cols in ["nn", "nzn"]:
                i += 1
                fam, kappa = [("uniform", 10.0), ("few4", 1e2), ("uniform", 4.0)][i % 3]
                sk = [{"kind": "none"}, {"kind": "vec", "Q": 2}, {"kind": "zero-first", "Q": 3}][i % 3]
                spec = {"n": n, "cols": cols, "batch": [] if i % 2 else [2], "fam": fam, "kappa": kappa, "shifts": sk,
                        "value": -1.0 if sk["kind"] == "zero-first" else None, "pre": "none",
                        "mm": "callable", "set_tol": tol}
                add(spec, [7, 8, 9, 18, None] if quick else [6, 7, 8, 9, 10, 17, 18, 19, None])
    # ill-conditioned systems at the default budget: only the property predicates are meaningful there
    for n in ([12, 40] if quick else [12, 20, 30, 40]):
        for fam, kappa in [("geometric", 1e4), ("clustered", 1e4), ("geometric", 1e2)]:
            for tol in [None, 1e-10]:
                i += 1
                add({"n": n, "cols": "nn", "batch": [] if i % 2 else [2], "fam": fam, "kappa": kappa,
                     "shifts": [{"kind": "none"}, {"kind": "vec", "Q": 3}][i % 2], "value": None,
                     "pre": ["none", "jacobi"][i % 2], "mm": "callable", "set_tol": tol}, [3, None])
    # (C) eps clamp: a large eps makes clamp_min_ active as soon as the Krylov space is exhausted
    for n in [1, 2, 4]:
        for eps in [1e-3, 1e-25]:
            i += 1
            add({"n": n, "cols": "nn", "batch": [], "fam": "few2", "kappa": 10.0, "shifts": {"kind": "vec", "Q": 2},
                 "value": None, "pre": "none", "mm": "callable", "eps": eps}, [1, 2, None])
    # (D) settings.max_cg_iterations is the default budget
    for mc in [1, 3]:
        i += 1
        add({"n": 6, "cols": "nn", "batch": [2], "fam": "uniform", "kappa": 10.0, "shifts": {"kind": "vec", "Q": 2},
             "value": None, "pre": "none", "mm": "tensor", "set_max_cg": mc}, [None, 5])
    # (E) float32
    for n in [3, 8]:
        i += 1
        add({"n": n, "cols": "nzn", "batch": [2], "fam": "uniform", "kappa": 10.0, "shifts": {"kind": "vec", "Q": 2},
             "value": None, "pre": "none", "mm": "callable", "dtype": "float32"}, [1, 2, None])
    # (F) closures that return their argument (legitimate for K = I / P = I): the aliasing hazard
    for mm, pre in [("alias", "none"), ("clone", "none"), ("callable", "alias"), ("callable", "clone"), ("alias", "alias")]:
        for sk in [{"kind": "none"}, {"kind": "vec", "Q": 2}]:
            i += 1
            fam, kappa = ("identity", 1.0) if mm in ("alias", "clone") else ("uniform", 10.0)
            add({"n": 5, "cols": "nn", "batch": [], "fam": fam, "kappa": kappa, "shifts": sk,
                 "value": [None, 2.0][i % 2], "pre": pre, "mm": mm}, [2, None])
    return out
