"""C11 structural grid.  The grid of structural cells is enumerated deterministically (independent of the
seed); the seed only picks the values (vseed) of every cell.

A minres *system* is a spec (see c11_sys.build) plus a list of budgets (max_iter values; None = default).
Cells are built so that the regressions that depend on iteration count x shift count x batch shape x rhs shape
(rotating buffers, squeeze rules, zero masking, convergence test every 10th step, eps clamp) are all hit."""

SHIFT_KINDS = [
    {"kind": "none"},
    {"kind": "scalar"},                 # 0-d tensor: numel 1 -> no leading dimension
    {"kind": "vec", "Q": 1},            # shape (1,): numel 1 -> no leading dimension
    {"kind": "vec", "Q": 3},
    {"kind": "zero-first", "Q": 4},     # the layout contour_integral_quad uses
    {"kind": "batched", "Q": 2},        # (Q, *batch)
    {"kind": "batched", "Q": 1},        # (1, *batch): numel > 1 although Q = 1 -> leading dimension stays
    {"kind": "partial", "Q": 2},        # (Q, 1, d2): singleton batch dimensions
]
BATCHES = [[], [2], [2, 3]]
COLS = ["n", "nn", "nzn", "tnhs", "ns", "z"]
FAMS = [("uniform", 10.0), ("geometric", 1e2), ("few3", 1e3), ("geometric", 1e4), ("clustered", 1e4),
        ("identity", 1.0), ("few2", 10.0), ("indef", 1e2)]
PRES = ["none", "jacobi", "none", "randspd", "clone", "scaled"]
VALUES = [None, -1.0, 2.0, None, -0.5]


def well_conditioned(spec):
    """whole-run trajectory comparison is allowed (DESIGN 2.4): kappa <= 10 or <= 4 distinct eigenvalues, and no
    preconditioner that changes the spectrum in an uncontrolled way"""
    if spec.get("pre", "none") not in ("none", "clone", "alias", "scaled"):
        return False
    return spec["fam"] == "identity" or spec["fam"].startswith("few") or float(spec["kappa"]) <= 10.0


def n_iters(spec, mi, max_cg=1000):
    """loop bodies executed when the convergence test does not fire"""
    m = max_cg if mi is None else mi
    return min(m, spec["n"] + 1) + 2


def policy(spec, mi, max_cg=1000):
    """(level, tol) of the model comparison for budget mi (trajectory policy of DESIGN 2.4, thresholds measured
    for MINRES: see design_notes/C11.md)"""
    its = n_iters(spec, mi, max_cg)
    f32 = spec.get("dtype") == "float32"
    if spec.get("mm") == "alias" or spec.get("pre") == "alias":
        return 1, 1e-9          # the model is the specified behaviour (K = I): any deviation is a defect
    if f32:
        return (1, 2e-3) if (well_conditioned(spec) and its <= 6) else (0, 0.0)
    if well_conditioned(spec):
        return 1, 1e-9
    if float(spec["kappa"]) <= 1e2 and its <= 8:
        return 1, 1e-9
    if its <= 6:
        return 1, 1e-9
    return 0, 0.0


def oracle_tol(spec, its):
    """tolerance of the Krylov least-squares oracle for the iterate after `its` loop bodies (None: not used)"""
    if spec.get("dtype") == "float32":
        return None
    if its <= 6:
        return 1e-9
    if well_conditioned(spec) and spec.get("pre", "none") in ("none", "clone", "alias", "scaled"):
        return 1e-7
    if float(spec["kappa"]) <= 1e2 and its <= 11 and spec["fam"] != "indef":
        return 1e-6
    return None


def residual_bound(spec, mi, st, exit_kind):
    """bound on ||(vK + s P^-1) x - b|| / ||b|| for a run at the default budget (support only; MINRES convergence is
    not proved).  The stopping rule looks at the relative UPDATE norm every 10th step: when the loop is ended by that
    test at the default minres_tolerance (1e-4) on an ill-conditioned system, a plateau may leave a residual of several
    percent (measured) - that is the documented criterion, nothing is asserted then.  When the loop is ended by the
    iteration cap (n + 3 bodies: the Krylov space is exhausted in exact arithmetic) or by the test at a tight
    tolerance, the residual must be small: max(50 tol, 1e-5) (1e-5: measured 1.6e-6 at kappa 1e2, n 30)."""
    if mi is not None or spec["fam"] == "indef" or spec.get("set_max_cg") is not None or spec.get("dtype") == "float32":
        return None
    if (spec.get("eps") or 0) >= 1e-20 or spec.get("mm") == "alias" or spec.get("pre") == "alias":
        return None
    tol = st["tol"]
    if tol >= 1.0:
        return None
    if exit_kind == "cap" or tol <= 1e-8 or well_conditioned(spec) or float(spec["kappa"]) <= 1e2:
        return max(50.0 * tol, 1e-5)
    return None


def minres_systems(quick, seed):
    """list of (spec, budgets); deterministic cell enumeration, vseed = f(seed, index); the thorough tier runs
    every cell with 3 independent value draws"""
    out = []
    idx = [0]
    reps = 1 if quick else 3

    def add(spec, budgets):
        idx[0] += 1
        for rep in range(reps):
            sp = dict(spec)
            sp["cell"] = idx[0]
            sp["vseed"] = seed * 100003 + idx[0] + 7919 * rep
            out.append((sp, budgets if rep == 0 else [b for b in budgets if b is None or b in (2, 4, 8, 9)]))

    # (A) shift kind x batch x rhs shape: the squeeze / broadcast / masking cells
    i = 0
    for sk in SHIFT_KINDS:
        for batch in BATCHES:
            if not batch and sk["kind"] in ("batched", "partial"):
                continue
            if sk["kind"] == "partial" and len(batch) < 2:
                continue
            for cols in (["n", "nzn", "tnhs"] if quick else COLS):
                i += 1
                fam, kappa = FAMS[i % len(FAMS)]
                n = [1, 2, 3, 5, 8, 12][i % 6]
                vec = (cols in ("n", "z") and not batch and i % 2 == 0)
                spec = {"n": n, "cols": cols, "batch": batch, "rhs_batch": "full" if (i % 3 or vec) else "none",
                        "rhs_vec": vec, "fam": fam, "kappa": kappa, "shifts": sk, "value": VALUES[i % len(VALUES)],
                        "pre": PRES[i % len(PRES)] if fam != "indef" else "none",
                        "mm": ["callable", "tensor"][i % 2]}
                if sk["kind"] == "zero-first" and spec["value"] is None:
                    spec["value"] = -1.0
                budgets = [1, 2, 4, None] if quick else [1, 2, 3, 4, 5, 6, 8, None]
                add(spec, budgets)
    # vector rhs with every shift layout (both squeezes interact)
    for sk in SHIFT_KINDS[:5]:
        i += 1
        add({"n": [3, 5, 8][i % 3], "cols": "n", "batch": [], "rhs_vec": True, "fam": "uniform", "kappa": 10.0,
             "shifts": sk, "value": VALUES[i % len(VALUES)], "pre": "none", "mm": ["callable", "tensor"][i % 2]},
            [1, 3, None])
    # (B) the convergence test every 10th step: sizes that reach iteration 10 / 20 / 30, tolerance settings,
    #     a zero column (NaN in the mean: the test never fires), well-conditioned so that whole runs are compared
    #     The family is chosen so that the tolerance setting DECIDES the number of bodies (a run in which
    #     minres_tolerance is ignored differs): tolerance 1 stops uniform/10 at body 10 although the default 1e-4 would
    #     go on; tolerance 1e-10 keeps uniform/4 running although the default would stop at body 10.
    fam_tab = {(None, "nn"): [("uniform", 10.0), ("few4", 1e2)], (None, "nzn"): [("few4", 1e2), ("uniform", 4.0)],
               (1.0, "nn"): [("uniform", 10.0), ("uniform", 10.0)], (1.0, "nzn"): [("uniform", 4.0), ("few4", 1e2)],
               (1e-10, "nn"): [("uniform", 4.0), ("uniform", 4.0)], (1e-10, "nzn"): [("few4", 1e2), ("uniform", 10.0)]}
    for ni, n in enumerate([8, 12, 20, 40] if quick else [7, 8, 9, 12, 18, 20, 28, 40]):
        for tol in [None, 1.0, 1e-10]:
            for cols in ["nn", "nzn"]:
                i += 1
                fam, kappa = fam_tab[(tol, cols)][ni % 2]
                sk = [{"kind": "none"}, {"kind": "vec", "Q": 2}, {"kind": "zero-first", "Q": 3}][i % 3]
                spec = {"n": n, "cols": cols, "batch": [] if i % 2 else [2], "fam": fam, "kappa": kappa, "shifts": sk,
                        "value": -1.0 if sk["kind"] == "zero-first" else None, "pre": "none",
                        "mm": "callable", "set_tol": tol}
                add(spec, [7, 8, 9, 18, None] if quick else [6, 7, 8, 9, 10, 17, 18, 19, None])
    # ill-conditioned systems at the default budget: only the property predicates are meaningful there
    for n in ([12, 40] if quick else [12, 20, 30, 40]):
        for fam, kappa in [("geometric", 1e4), ("clustered", 1e4), ("geometric", 1e2)]:
            for tol in [None, 1e-10]:
                i += 1
                add({"n": n, "cols": "nn", "batch": [] if i % 2 else [2], "fam": fam, "kappa": kappa,
                     "shifts": [{"kind": "none"}, {"kind": "vec", "Q": 3}][i % 2], "value": None,
                     "pre": ["none", "jacobi"][i % 2], "mm": "callable", "set_tol": tol}, [3, None])
    # (G) shift batches whose members differ in difficulty, in every ORDER (hardest first / last / in the middle): the
    #     stopping rule and every per-shift quantity must treat all shift indices alike; systems that need more than 10
    #     bodies for the hard shift while the easy shifts converge within 10; the residual predicate looks at every shift
    for ni, n in enumerate([12, 20, 40] if quick else [12, 16, 20, 30, 40]):
        for oi, order in enumerate(["asc", "desc", "mid"]):
            i += 1
            fam, kappa = [("geometric", 1e2), ("uniform", 1e2)][(ni + oi) % 2]
            add({"n": n, "cols": "nn", "batch": [] if (ni + oi) % 3 else [2], "fam": fam, "kappa": kappa,
                 "shifts": {"kind": "spread", "Q": 3 if oi != 1 or ni % 2 == 0 else 2, "order": order},
                 "value": [None, 2.0, -1.0][(ni + 2 * oi) % 3], "pre": "none", "mm": ["callable", "tensor"][i % 2],
                 "set_tol": [1e-8, None, 1e-10][(ni + oi) % 3]}, [4, None])
    # (C) eps clamp: a large eps makes clamp_min_ active as soon as the Krylov space is exhausted
    for n in [1, 2, 4]:
        for eps in [1e-3, 1e-25]:
            i += 1
            add({"n": n, "cols": "nn", "batch": [], "fam": "few2", "kappa": 10.0, "shifts": {"kind": "vec", "Q": 2},
                 "value": None, "pre": "none", "mm": "callable", "eps": eps}, [1, 2, None])
    # (D) settings.max_cg_iterations is the default budget
    for mc in [1, 3]:
        i += 1
        add({"n": 6, "cols": "nn", "batch": [2], "fam": "uniform", "kappa": 10.0, "shifts": {"kind": "vec", "Q": 2},
             "value": None, "pre": "none", "mm": "tensor", "set_max_cg": mc}, [None, 5])
    # (E) float32
    for n in [3, 8]:
        i += 1
        add({"n": n, "cols": "nzn", "batch": [2], "fam": "uniform", "kappa": 10.0, "shifts": {"kind": "vec", "Q": 2},
             "value": None, "pre": "none", "mm": "callable", "dtype": "float32"}, [1, 2, None])
    # (F) closures that return their argument (legitimate for K = I / P = I): the aliasing hazard
    for mm, pre in [("alias", "none"), ("clone", "none"), ("callable", "alias"), ("callable", "clone"), ("alias", "alias")]:
        for sk in [{"kind": "none"}, {"kind": "vec", "Q": 2}]:
            i += 1
            fam, kappa = ("identity", 1.0) if mm in ("alias", "clone") else ("uniform", 10.0)
            add({"n": 5, "cols": "nn", "batch": [], "fam": fam, "kappa": kappa, "shifts": sk,
                 "value": [None, 2.0][i % 2], "pre": pre, "mm": mm}, [2, None])
    return out


# ------------------------------------------------------------------------------------------ contour integral quadrature

WELL = [("uniform", 10.0, 1.0), ("few3", 1e2, 50.0), ("uniform", 4.0, 0.02)]
ILL = [("geometric", 1e2, 1.0), ("clustered", 1e4, 1.0), ("geometric", 1e3, 5.0)]


def override_cells(quick):
    n = 3
    rels = [("equal", [], [], None), ("equal", [2], [2], None), ("equal", [2, 3], [2, 3], None),
            ("more", [], [2], None), ("more", [], [n], None), ("more", [], [2, n], None), ("more", [n], [2, n], None),
            ("more", [2], [n, 2], None),
            ("fewer", [2], [], None), ("fewer", [2, n], [n], None),
            ("singleton", [2], [1], None), ("singleton", [1], [2], None), ("singleton", [2, 1], [1, n], None),
            ("singleton", [n], [2, 1], None),
            ("lhs-differs", [], [], [2]), ("lhs-differs", [], [n], []), ("lhs-differs", [2], [2], [1]),
            ("lhs-differs", [], [2], [n, 1])]
    out = []
    k = 0
    for op in ["identity", "diag", "constdiag"]:
        for rel, ob, db, lb in rels:
            for lhs in ([n, 2, None] if not quick else [[n, 2][k % 2]] + ([None] if k % 3 == 0 and lb is None else [])):
                k += 1
                if lhs is None and lb is not None:
                    continue
                out.append(dict(op=op, n=n, batch=ob, data_batch=db, lhs_batch=lb, rel=rel, t=[n, 1, 2][k % 3], fam="uniform",
                                kappa=4.0, scale=1.0, call="sim", model=False, inverse=True, lhs=lhs, set_nq=None, set_tol=None,
                                generic=True))
    return out


def struct_cells(quick):
    """(a) contour_integral_quad seeds its 20-step Lanczos estimate of the extreme eigenvalues with the FIRST COLUMN of the
    right-hand side: operators with block structure (a dense block-diagonal matrix whose blocks live on different scales,
    Kronecker(dense, diag[1, 200])) and a generic dense control x first column generic / coordinate vector / eigenvector, for
    the direct call (both directions), sqrt_inv_matmul (with and without lhs) and ciq sampling with num_samples below, at and
    above N (base samples = random orthonormal rows / columns, never the identity).
    (b) the operator class with an ACTIVE preconditioner (AddedDiag(Root(W), Diag(d)), min_preconditioning_size lowered,
    inexact rank-1 pivoted Cholesky) for every entry point; the direct call gets an orthogonal right-hand side so that the
    Gram matrix R R^T of the computed root is observable."""
    out = []
    k = 0
    ops = [("blockdiag", 6, None, 1e3, "block"), ("krondiag", 8, (4, 2), 1e3, "block"), ("dense", 6, None, 1e2, "geometric")]
    for op, n, fac, kappa, fam in ops:
        for batch in ([[], [2]] if op != "dense" else [[]]):
            base = dict(op=op, n=n, batch=batch, fam=fam, kappa=kappa, scale=1.0, model=False, set_nq=None)
            if fac:
                base["factors"] = list(fac)
            for r0 in [None, "e1", "eig"]:
                for call, var in [("direct", True), ("direct", False), ("sim", None), ("sim", 1)]:
                    k += 1
                    if quick and r0 is not None and k % 2:
                        continue
                    c = dict(base, call=call, rhs0=r0, t=[2, 3][k % 2], inverse=True, set_tol=[None, 1e-10][k % 2])
                    if call == "direct":
                        c["inverse"] = var
                    else:
                        c["lhs"] = var
                    out.append(c)
            for ns in ([n - 2, n, n + 3, 3 * n] if not quick or not batch else [n - 2, n + 3]):
                k += 1
                out.append(dict(base, call="sample", ns=ns, base="orth", t=1, inverse=False, set_tol=[None, 1e-10][k % 2]))
    for n in [8, 12]:
        for batch in [[], [2]]:
            for pre in ([1, None] if not batch else [1]):
                base = dict(op="lowrank_diag", n=n, batch=batch, fam="lowrank", kappa=1e2, scale=1.0, model=False, set_nq=None,
                            precond=pre, set_tol=1e-10)
                for call, var in [("direct", True), ("direct", False), ("sim", None), ("sim", 2)]:
                    c = dict(base, call=call, inverse=True)
                    if call == "direct":
                        c.update(inverse=var, t=n, rhs_kind="orth")
                    else:
                        c.update(lhs=var, t=2)
                    out.append(c)
                for ns in [n - 2, n + 3]:
                    out.append(dict(base, call="sample", ns=ns, base="orth", t=1, inverse=False))
    return out


def ciq_specs(quick, seed):
    """list of specs for contour_integral_quad / sqrt_inv_matmul / ciq sampling; `model` says whether the values are
    compared with the Gallina model (whole MINRES runs: only well-conditioned spectra, DESIGN 2.4)"""
    out = []
    idx = [0]
    reps = 1 if quick else 3

    def add(**kw):
        for rep in range(reps):
            idx[0] += 1
            k2 = dict(kw)
            k2["cell"] = idx[0]
            k2["vseed"] = seed * 100003 + 5000 + idx[0]
            k2.setdefault("rhs_batch", "full")
            out.append(k2)

    i = 0
    ops = [("dense", None), ("constmul", None), ("sum", None), ("root", None), ("added_diag", None),
           ("kron", (2, 3)), ("kron", (3, 4)), ("diag", None)]
    for op, fac in ops:
        for batch in ([[], [2]] if op != "dense" else [[], [2], [2, 3]]):
            for call, variants in [("direct", [True, False]), ("sim", [None, 1, 2]), ("sample", [None])]:
                if op == "diag" and call == "sample":
                    continue
                for var in variants:
                    i += 1
                    fam, kappa, scale = WELL[i % len(WELL)]
                    n = fac[0] * fac[1] if fac else [2, 3, 5, 8, 12][i % 5]
                    if call == "sample":
                        if fac and n > 6:
                            continue
                        n = n if fac else min(n, 6)
                    spec = {"op": op, "n": n, "batch": batch, "t": [1, 2, 3][i % 3], "fam": fam, "kappa": kappa,
                            "scale": scale, "call": call, "model": True,
                            "set_nq": [None, 6, 20][i % 3], "set_tol": [None, 1e-10][i % 2]}
                    if fac:
                        spec["factors"] = list(fac)
                    if call == "direct":
                        spec["inverse"] = var
                        spec["rhs_batch"] = "full" if i % 4 else "none"
                    elif call == "sim":
                        spec["lhs"] = var
                        spec["inverse"] = True
                    else:
                        spec["inverse"] = False
                    add(**spec)
    # predicates only: the quantifier of the property beyond what trajectories allow to compare
    for n in ([20, 40] if quick else [12, 20, 30, 40]):
        for fam, kappa, scale in ILL:
            if not (n <= 20 or kappa <= 1e2):
                continue
            for call in ["direct", "sim"]:
                i += 1
                add(op="dense", n=n, batch=[] if i % 2 else [2], t=2, fam=fam, kappa=kappa, scale=scale, call=call,
                    model=False, inverse=True, lhs=None, set_nq=None, set_tol=[None, 1e-10][i % 2])
    # quadrature ACCURACY in the part of the quantifier where the 20-step Lanczos estimate of the extreme eigenvalues is
    # exact (11 <= n <= 20) and the condition number is large enough for the position of the nodes to matter (1e3),
    # on equispaced spectra, for which MINRES reaches a tight tolerance within its iteration cap: the result must agree
    # with the dense K^(-1/2) R / K^(1/2) R / K^-1 R to the accuracy of the rule (c11_pred.ciq_bounds)
    for ni, n in enumerate([16, 18, 20] if quick else [11, 12, 14, 16, 17, 18, 19, 20]):
        for ci, (call, var) in enumerate([("direct", True), ("direct", False), ("sim", None), ("sim", 1)]):
            i += 1
            if quick and (ni + ci) % 2:
                continue
            spec = dict(op=["dense", "sum", "constmul"][(ni + ci) % 3], n=n, batch=[] if (ni + ci) % 4 else [2], t=[2, 1, 3][ci % 3],
                        fam="uniform", kappa=1e3, scale=[1.0, 1e-3][ni % 2], call=call, model=False, inverse=True,
                        set_nq=None, set_tol=[1e-10, 1e-12][ci % 2])
            if call == "direct":
                spec["inverse"] = var
            else:
                spec["lhs"] = var
            add(**spec)
    # n = 1 and the 1 x 1 sampling special case neighbourhood
    for call in ["direct", "sim"]:
        i += 1
        add(op="dense", n=1, batch=[2], t=2, fam="uniform", kappa=9.0, scale=1.0, call=call, model=True, inverse=True,
            lhs=None, set_nq=None, set_tol=None)
    # 1-D rhs through op.sqrt_inv_matmul (LinearOperator.sqrt_inv_matmul unsqueezes / squeezes; Diag and Identity have
    # their own overrides): the result must be 1-D in its last dimension too
    for op_, batch, lhs_, n_ in [("dense", [], None, 5), ("dense", [], 2, 3), ("dense", [2], None, 3), ("sum", [], 1, 5),
                                 ("diag", [], None, 5), ("diag", [], 2, 3)]:
        i += 1
        fam, kappa, scale = WELL[i % len(WELL)]
        add(op=op_, n=n_, batch=batch, t=1, fam=fam, kappa=kappa, scale=scale, call="sim", model=True, inverse=True,
            lhs=lhs_, set_nq=None, set_tol=[None, 1e-10][i % 2], rhs_batch="none", rhs_vec=True)
    # class-specific overrides of sqrt_inv_matmul (Identity, Diag, ConstantDiag — found by scanning operators/*.py) against
    # the dense values AND the generic base-class path on a Dense copy, for every relation between the batch shape of the
    # operator and that of rhs / lhs: equal, data with MORE dims, with FEWER dims, broadcast singleton dims, rhs and lhs with
    # different batch shapes — including the coincidence sizes (batch = n, O = n, t = n) where a reduction over the wrong
    # axis keeps the shape
    for cell in override_cells(quick):
        i += 1
        add(**cell)
    # the eigenvalue-estimate mechanism and preconditioned operators, for every CIQ entry point
    for cell in struct_cells(quick):
        i += 1
        add(**cell)
    # known-finding cells
    add(op="identity", n=5, batch=[], t=2, fam="identity", kappa=1.0, scale=1.0, call="direct", model=True,
        inverse=True, set_nq=None, set_tol=None)
    add(op="identity", n=4, batch=[2], t=1, fam="identity", kappa=1.0, scale=1.0, call="sim", model=False,
        inverse=True, lhs=1, set_nq=None, set_tol=None)
    add(op="dense", n=20, batch=[], t=2, fam="geometric", kappa=1e4, scale=1.0, call="sim", model=False, inverse=True,
        lhs=None, set_nq=None, set_tol=1e-10)
    return out
