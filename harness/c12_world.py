"""C12 — execution of event histories on the REAL operator objects, the independent oracle `valid`,
and the structural description (profiles) of the objects that the Coq model takes as input.

Nothing here reads or writes the model; the oracle uses plain torch on dense float64 tensors
assembled from the constructor arguments (opbuild.dense) and the derivation arguments.
"""
import math
import pickle
import warnings

import torch

from . import opbuild

warnings.filterwarnings("ignore")

DT = torch.float64


def LO():
    import linear_operator.operators as O
    return O


# ------------------------------------------------------------------------------------------ settings

DEFAULT_ST = {"max_chol": 800, "fc_root": True, "fc_logprob": True, "fc_solves": True, "ciq": False,
              "precond_size": 15, "min_precond": 2000, "max_root": 100}


class SettingsStack:
    """enter/exit the library's own context managers between events (never inside a call)"""

    def __init__(self):
        self.stack = []
        self.cur = dict(DEFAULT_ST)

    def set(self, st):
        from linear_operator import settings as S
        self.clear()
        cms = []
        if st["max_chol"] != DEFAULT_ST["max_chol"]:
            cms.append(S.max_cholesky_size(st["max_chol"]))
        if (st["fc_root"], st["fc_logprob"], st["fc_solves"]) != (True, True, True):
            cms.append(S.fast_computations(covar_root_decomposition=st["fc_root"], log_prob=st["fc_logprob"],
                                           solves=st["fc_solves"]))
        if st["ciq"]:
            cms.append(S.ciq_samples(True))
        if st["precond_size"] != DEFAULT_ST["precond_size"]:
            cms.append(S.max_preconditioner_size(st["precond_size"]))
        if st["min_precond"] != DEFAULT_ST["min_precond"]:
            cms.append(S.min_preconditioning_size(st["min_precond"]))
        if st.get("max_root", DEFAULT_ST["max_root"]) != DEFAULT_ST["max_root"]:
            cms.append(S.max_root_decomposition_size(st["max_root"]))
        for c in cms:
            c.__enter__()
            self.stack.append(c)
        self.cur = dict(st)

    def clear(self):
        while self.stack:
            self.stack.pop().__exit__(None, None, None)
        self.cur = dict(DEFAULT_ST)

    def observed(self):
        """what the library's settings report right now (checked against what we think we set)"""
        from linear_operator import settings as S
        return {"max_chol": S.max_cholesky_size.value(), "fc_root": S.fast_computations.covar_root_decomposition.on(),
                "fc_logprob": S.fast_computations.log_prob.on(), "fc_solves": S.fast_computations.solves.on(),
                "ciq": S.ciq_samples.on(), "precond_size": S.max_preconditioner_size.value(),
                "min_precond": S.min_preconditioning_size.value(), "max_root": S.max_root_decomposition_size.value()}


# ------------------------------------------------------------------------------------------ argument tensors

def _det(shape, salt, lo=-1.0, hi=1.0):
    g = torch.Generator().manual_seed(1000003 * salt + 17)
    return (torch.rand(*shape, generator=g, dtype=DT) * (hi - lo) + lo)


def arg_tensor(kind, aid, n, batch=()):
    """deterministic caller-side tensors, by kind and id, for an object of size n and batch shape `batch`"""
    batch = tuple(batch)
    if kind == "jitter":
        return [0.5, 1.25][aid % 2]
    if kind == "diag":
        return torch.arange(1, n + 1, dtype=DT) * (0.5 + 0.25 * (aid % 2))
    if kind == "lowrank":
        q = 1 + aid % 2
        return _det(batch + (n, q), 11 + aid)
    if kind == "cross":
        k = 1 + aid % 2
        return _det(batch + (k, n), 23 + aid, -0.3, 0.3)
    if kind == "newmat":
        k = 1 + aid % 2
        m = _det((k, k), 31 + aid, -0.2, 0.2)
        return (m @ m.T + 6.0 * torch.eye(k, dtype=DT)).expand(*batch, k, k).contiguous()
    if kind == "rhs":
        return _det(batch + (n, 2), 41 + aid) if aid % 2 == 0 else _det(batch + (n, 1), 43 + aid)
    if kind == "scale":
        return [2.0, 0.5][aid % 2]
    raise ValueError(kind)


def index_of(aid, n):
    if n <= 1:
        return slice(0, n)          # never derive an empty (0 x 0) operator
    return slice(1, n) if aid % 2 == 0 else slice(0, n - 1)


# ------------------------------------------------------------------------------------------ introspection

def raw(f):
    return getattr(f, "__wrapped__", f)


def cached_info(f):
    """(is_cached, ignore_args, name, raw function) of a method as found on a class"""
    w = getattr(f, "__wrapped__", None)
    if w is not None and getattr(f, "__closure__", None):
        cells = {}
        for nme, cl in zip(f.__code__.co_freevars, f.__closure__):
            try:
                cells[nme] = cl.cell_contents
            except ValueError:
                pass
        if "method" in cells and "name" in cells:
            ign = "_is_in_cache_ignore_args" in f.__code__.co_names
            return True, ign, cells["name"], cells["method"]
    return False, False, None, f


PROTOCOL = ["cholesky", "_cholesky", "root_decomposition", "root_inv_decomposition", "_root_decomposition",
            "_root_inv_decomposition", "_choose_root_method", "diagonalization", "svd", "_svd", "_symeig", "eigh",
            "eigvalsh", "inv_quad_logdet", "logdet", "solve", "diagonal", "zero_mean_mvn_samples", "_preconditioner",
            "to_dense", "add_low_rank", "cat_rows", "evaluate_kernel", "_solve_preconditioner",
            "_probe_vectors_and_norms", "_root_decomposition_size"]

# class name -> (protocol methods it is expected to override, queries that are NOT modelled for it)
EXACT = {
    "DenseLinearOperator": ({"to_dense"}, set()),
    "ToeplitzLinearOperator": (set(), set()),
    "SumLinearOperator": ({"to_dense"}, set()),
    "PsdSumLinearOperator": ({"to_dense", "zero_mean_mvn_samples"}, {"sample"}),
    "AddedDiagLinearOperator": ({"to_dense", "_symeig", "_svd", "_preconditioner", "evaluate_kernel"}, set()),
    "ConstantMulLinearOperator": ({"to_dense", "root_decomposition"}, set()),
    "CatLinearOperator": ({"to_dense", "inv_quad_logdet"}, set()),
    "InterpolatedLinearOperator": ({"zero_mean_mvn_samples"}, {"sample"}),
    "MatmulLinearOperator": ({"to_dense"}, set()),
    # overrides the cached protocol methods themselves (transcribed: Model.v EigKron)
    "KroneckerProductLinearOperator": ({"_cholesky", "_svd", "_symeig", "diagonalization", "inv_quad_logdet",
                                        "root_decomposition", "root_inv_decomposition"}, set()),
    # hand _cholesky / _svd / _symeig / inv_quad_logdet / the Lanczos internals to their one base operator and keep the
    # base-class cached methods (transcribed: Model.v pf_deleg)
    "BlockDiagLinearOperator": ({"_cholesky", "_root_decomposition", "_root_inv_decomposition", "_svd", "_symeig",
                                 "inv_quad_logdet", "zero_mean_mvn_samples"}, set()),
    "BatchRepeatLinearOperator": ({"_cholesky", "_root_decomposition", "_root_inv_decomposition", "_svd", "_symeig",
                                   "inv_quad_logdet"}, set()),
}
# how the public cached methods must be decorated for the transcription to apply: (cached?, ignore_args?, name)
BASE_DECOR = {"root_decomposition": (True, False, "root_decomposition"),
              "root_inv_decomposition": (True, False, "root_inv_decomposition"),
              "diagonalization": (True, False, "diagonalization"), "_svd": (True, False, "svd")}
CLASS_DECOR = {"KroneckerProductLinearOperator": {"diagonalization": (False, False, None)}}
# cache entries that carry no claim about the matrix and are written by plain attribute access (`.shape`), also by the
# harness itself: left out of the key lists on both sides
IGNORED_KEYS = {"size"}
# objects that only occur as children: only their to_dense is modelled, they are never queried
CHILD_ONLY = {"DiagLinearOperator", "ConstantDiagLinearOperator", "IdentityLinearOperator"}


_PROBES = None


def probes():
    """history-independent raise behaviours of the library under test that decide raised-or-not in the model (they are
    C05-type defects of inv_quad_logdet overrides, repaired by proposed fixes): found by calling the methods on fresh
    objects, once per process, under explicitly set settings"""
    global _PROBES
    if _PROBES is not None:
        return _PROBES
    from linear_operator import settings as S
    O = LO()

    def raises(f, exc):
        try:
            f()
            return False
        except exc:
            return True
        except Exception:
            return False
    A2 = torch.tensor([[[3.0, 1.0], [1.0, 2.0]], [[4.0, 1.0], [1.0, 5.0]]], dtype=DT)
    A3 = torch.tensor([[4.0, 1.0, 0.0], [1.0, 5.0, 1.0], [0.0, 1.0, 6.0]], dtype=DT)
    blk = lambda: O.BlockDiagLinearOperator(O.DenseLinearOperator(A2.clone()))                            # noqa: E731
    rep = lambda: O.BatchRepeatLinearOperator(O.DenseLinearOperator(A3.clone()), torch.Size((2,)))         # noqa: E731
    r4, r3 = torch.ones(4, 1, dtype=DT), torch.ones(2, 3, 1, dtype=DT)
    p = {}
    with S.max_cholesky_size(0), S.fast_computations(log_prob=True), S.min_preconditioning_size(2000):
        p["block_norhs"] = raises(lambda: blk().logdet(), RuntimeError)
        p["block_nologdet"] = raises(lambda: blk().inv_quad_logdet(r4, logdet=False), TypeError)
        p["rep_norhs"] = raises(lambda: rep().logdet(), RuntimeError)
        p["rep_nologdet"] = raises(lambda: rep().inv_quad_logdet(r3, logdet=False), TypeError)
    with S.max_cholesky_size(800), S.fast_computations(log_prob=True):
        cat = O.DenseLinearOperator(A3.clone()).cat_rows(torch.full((1, 3), 0.1, dtype=DT), torch.full((1, 1), 6.0, dtype=DT),
                                                         generate_roots=False)
        p["cat_to"] = isinstance(cat, O.CatLinearOperator) and raises(lambda: cat.logdet(), AttributeError)
        p["lanczos_1x1"] = raises(lambda: O.DenseLinearOperator(torch.tensor([[2.0]], dtype=DT)).diagonalization(method="lanczos"),
                                  Exception)
    _PROBES = p
    return p


def children(op):
    L = LO().LinearOperator
    out = [a for a in op._args if isinstance(a, L)]
    out += [v for v in op._kwargs.values() if isinstance(v, L)]
    return out


def overrides(cls):
    base = LO().LinearOperator
    return {m for m in PROTOCOL if getattr(cls, m, None) is not getattr(base, m, None)}


def profile_of(op, ids):
    """structural description of one object for the model, or None when the object is outside the
    modelled universe (its class overrides protocol methods the model does not transcribe)"""
    O = LO()
    cls = type(op)
    name = cls.__name__
    kid_ids = [ids[id(k)] for k in children(op)]
    p = {"cls": name, "td_name": None, "td_kids": [], "chol_ignore": False, "eig": None, "kron": None, "deleg": None,
         "cm_root": None,
         "precond": False, "queries_off": set(), "child_only": False,
         "sum": isinstance(op, O.SumLinearOperator), "iqld_to": name == "CatLinearOperator" and probes()["cat_to"],
         "q_norhs": False, "q_nologdet": False, "q_lanczos1": probes()["lanczos_1x1"]}
    c, ign, nm, w = cached_info(cls.to_dense)
    if c:
        if ign or nm is not None:
            return None
        p["td_name"] = w.__qualname__
    tdmap = {
        raw(O.LinearOperator.to_dense): [],
        raw(O.DenseLinearOperator.to_dense): [],
        raw(O.SumLinearOperator.to_dense): kid_ids,
        raw(O.ConstantMulLinearOperator.to_dense): kid_ids[:1],
        raw(O.CatLinearOperator.to_dense): kid_ids,
        raw(O.DiagLinearOperator.to_dense): [],
        raw(O.MatmulLinearOperator.to_dense): kid_ids,
    }
    if w not in tdmap:
        return None
    p["td_kids"] = tdmap[w]
    if name in CHILD_ONLY:
        p["child_only"] = True
        cc, cign, cnm, _ = cached_info(cls._cholesky)
        p["chol_ignore"] = bool(cc and cign)
        return p
    if name not in EXACT:
        return None
    exp, off = EXACT[name]
    if overrides(cls) != exp:
        return None
    cc, cign, cnm, cw = cached_info(cls._cholesky)
    if not cc or cnm != "cholesky" or cign:
        return None
    for meth, want in BASE_DECOR.items():
        want = CLASS_DECOR.get(name, {}).get(meth, want)
        if cached_info(getattr(cls, meth))[:3] != want:
            return None
    p["queries_off"] = set(off)
    if name == "KroneckerProductLinearOperator":
        p["kron"] = [ids[id(k)] for k in op.linear_ops]
    if name in ("BlockDiagLinearOperator", "BatchRepeatLinearOperator"):
        p["kron"] = [ids[id(op.base_linear_op)]]
        p["deleg"] = (name == "BlockDiagLinearOperator")
        pr = probes()
        p["q_norhs"] = pr["block_norhs"] if p["deleg"] else pr["rep_norhs"]
        p["q_nologdet"] = pr["block_nologdet"] if p["deleg"] else pr["rep_nologdet"]
    if name == "AddedDiagLinearOperator":
        p["precond"] = True
        if isinstance(op._diag_tensor, O.ConstantDiagLinearOperator):
            p["eig"] = ids[id(op._linear_op)]
    if name == "ConstantMulLinearOperator":
        if bool(torch.all(op._constant >= 0)):
            p["cm_root"] = ids[id(op.base_linear_op)]
    return p


# ------------------------------------------------------------------------------------------ keys

def conv_val(v, tensors):
    if v is None:
        return ["none"]
    if isinstance(v, bool):
        return ["bool", v]
    if isinstance(v, str):
        return ["str", v]
    if isinstance(v, int):
        return ["int", v]
    if torch.is_tensor(v):
        for i, t in enumerate(tensors):
            if t is v or (t.shape == v.shape and torch.equal(t, v)):
                return ["ten", i]
        tensors.append(v)
        return ["ten", len(tensors) - 1]
    return ["str", "<%s>" % type(v).__name__]


def conv_name(x):
    if isinstance(x, str):
        return ["str", x]
    return ["fun", getattr(x, "__qualname__", repr(x))]


def versions(v, depth=0):
    """in-place modification counters of the tensors a cached value is made of (a cached value that is modified in
    place after it was validated must be validated again)"""
    if torch.is_tensor(v):
        return (v._version,)
    if isinstance(v, (tuple, list)) and depth < 3:
        return tuple(x for e in v for x in versions(e, depth + 1))
    if isinstance(v, LO().LinearOperator) and depth < 3:
        try:
            return tuple(x for e in v.representation() for x in versions(e, depth + 1))
        except Exception:
            return ()
    return ()


def ignored_key(k):
    nm = k[0] if isinstance(k, tuple) and len(k) == 3 and isinstance(k[2], bytes) else k
    return isinstance(nm, str) and nm in IGNORED_KEYS


def conv_key(k, tensors):
    if isinstance(k, tuple) and len(k) == 3 and isinstance(k[2], bytes):
        kw = pickle.loads(k[2])
        return ["full", conv_name(k[0]), [conv_val(a, tensors) for a in k[1]],
                [[kk, conv_val(vv, tensors)] for kk, vv in kw.items()]]
    return ["name", conv_name(k)]


# ------------------------------------------------------------------------------------------ oracle

def sym(x):
    return 0.5 * (x + x.mT)


def close(a, b, tol):
    if a.shape != b.shape:
        try:
            a, b = torch.broadcast_tensors(a, b)
        except RuntimeError:
            return False
    if not (torch.isfinite(a).all() and torch.isfinite(b).all()):
        return False
    scale = max(1.0, float(b.abs().max()) if b.numel() else 1.0)
    return bool((a - b).abs().max() <= tol * scale) if a.numel() else True


def reachable(x, acc=None):
    acc = [] if acc is None else acc
    if any(x is y for y in acc):
        return acc
    acc.append(x)
    for c in children(x):
        reachable(c, acc)
    for nm in ("root", "_tensor", "base_linear_op"):
        c = getattr(x, nm, None)
        if isinstance(c, LO().LinearOperator):
            reachable(c, acc)
    return acc


def dn(x):
    """dense tensor of an operator WITHOUT leaving a trace in any _memoize_cache (the value may share children
    with the objects under observation): caches of everything reachable are snapshotted and restored"""
    L = LO().LinearOperator
    if not isinstance(x, L):
        return x
    objs = reachable(x)
    snap = [(o, dict(o._memoize_cache) if hasattr(o, "_memoize_cache") else None) for o in objs]
    try:
        return x.to_dense()
    finally:
        for o, d in snap:
            if d is None:
                if hasattr(o, "_memoize_cache"):
                    del o._memoize_cache
            else:
                o._memoize_cache.clear()
                o._memoize_cache.update(d)


def diag_part(op):
    """dense diagonal part D of an AddedDiag-like operator (None for other classes)"""
    d = getattr(op, "_diag_tensor", None)
    if isinstance(d, LO().LinearOperator):
        try:
            return dn(d)
        except Exception:
            return None
    return None


ADHOC_POS = 999     # position reported for the out-of-dict preconditioner cache (_q_cache & co) of an object


def adhoc_precond(op):
    """what op._preconditioner() returns from its out-of-dict cache (_q_cache, _r_cache, _noise, _constant_diag,
    _precond_lt, _precond_logdet_cache), read under settings that make the method take the cached branch;
    None when the object has no such cache"""
    if getattr(op, "_q_cache", None) is None or getattr(op, "preconditioner_override", None) is not None:
        return None
    from linear_operator import settings as S
    with S.min_preconditioning_size(1), S.max_preconditioner_size(max(1, int(S.max_preconditioner_size.value()))):
        return op._preconditioner()


# every per-object cache the check knows about: the memoize dict, the AddedDiag preconditioner cache, the sparse
# interpolation memos.  (_default_preconditioner_cache is written by _solve_preconditioner, which the library only ever
# calls on a rebuilt copy - linear_op.detach() inside functions/_solve.py, _inv_quad.py - so it never appears on an
# object a caller holds.)  Any OTHER instance attribute that looks like a cache is state this check does not model.
KNOWN_CACHE_ATTRS = {"_memoize_cache", "_q_cache", "_r_cache", "_precond_logdet_cache", "_q_cache_max_iter",
                     "_sparse_left_interp_t_memo", "_left_interp_indices_memo", "_left_interp_values_memo",
                     "_sparse_right_interp_t_memo", "_right_interp_indices_memo", "_right_interp_values_memo",
                     # not caches: the constructor arguments (LinearOperator._args property) ...
                     "_args_memo",
                     # ... and a dead memo: BatchRepeatLinearOperator._move_repeat_batches_to_columns writes
                     # self.__batch_move_memo (name-mangled), the only reader tests hasattr(self, "_batch_move_memo")
                     # (un-mangled) and therefore never takes the memo branch
                     "_BatchRepeatLinearOperator__batch_move_memo"}


def unknown_cache_attrs(op):
    try:
        names = list(vars(op))
    except TypeError:
        return []
    return sorted(a for a in names if ("cache" in a or "memo" in a) and a not in KNOWN_CACHE_ATTRS)


INTERP_POS = 998     # position reported for the sparse interpolation memos of an InterpolatedLinearOperator
UNKNOWN_POS = 997    # position reported for a cache-like instance attribute this check does not know


def interp_memo_ok(op):
    """the sparse interpolation memos of an InterpolatedLinearOperator belong to THIS object's interpolation tensors
    and are what the sparse constructor builds from them"""
    from linear_operator.utils import sparse
    for side in ("left", "right"):
        memo = getattr(op, "_sparse_%s_interp_t_memo" % side, None)
        if memo is None:
            continue
        idx, val = getattr(op, "%s_interp_indices" % side), getattr(op, "%s_interp_values" % side)
        if not (torch.equal(getattr(op, "_%s_interp_indices_memo" % side), idx)
                and torch.equal(getattr(op, "_%s_interp_values_memo" % side), val)):
            return False, "%s interpolation memo was built from other index / value tensors" % side
        n = op.base_linear_op.size(-1 if side == "right" else -2)
        ref = sparse.make_sparse_from_indices_and_values(idx, val, n)
        if not torch.equal(memo.to_dense(), ref.to_dense()):
            return False, "%s interpolation memo differs from the sparse matrix of the object's interpolation tensors" % side
    return True, ""


def tri_honest(op):
    """a TriangularLinearOperator whose dense content really is triangular with the orientation it claims"""
    T = LO().TriangularLinearOperator
    if not isinstance(op, T) or not hasattr(op, "upper"):     # (DiagLinearOperator derives from Triangular, without a flag)
        return True
    d = dn(op)
    return bool(torch.equal(torch.triu(d) if op.upper else torch.tril(d), d))


def valid(aspect, A, ans, tol, ctx=None):
    """Is `ans` a valid answer of kind `aspect` for the dense matrix A (batched allowed)?  Returns (ok, reason)."""
    O = LO()
    k = aspect[0]
    try:
        if k == "dense":
            return close(dn(ans), A, tol), "dense"
        if k == "chol":
            up = aspect[1]
            if not isinstance(ans, O.LinearOperator):
                return False, "not an operator"
            F = dn(ans)
            if hasattr(ans, "upper") and not isinstance(ans, O.DiagLinearOperator):
                if bool(ans.upper) != bool(up):
                    return False, "upper flag %s for requested upper=%s" % (ans.upper, up)
            if not bool(torch.equal(torch.triu(F) if up else torch.tril(F), F)):
                return False, "factor is not triangular as labelled"
            P = F.mT @ F if up else F @ F.mT
            return close(P, A, tol), "factor product"
        if k in ("root", "rootinv"):
            if not hasattr(ans, "root"):
                return False, "no .root"
            R = ans.root
            if not tri_honest(R):
                return False, "root labelled triangular but is not"
            Rd = dn(R)
            P = Rd @ Rd.mT
            if k == "root":
                return close(P, A, tol), "R R^T vs A"
            n = A.shape[-1]
            return close(P @ A, torch.eye(n, dtype=A.dtype).expand_as(A), tol * max(1.0, float(torch.linalg.cond(A).max()))), "R R^T A vs I"
        if k == "eig":
            if not (isinstance(ans, tuple) and len(ans) == 2):
                return False, "not a pair"
            w, Q = ans
            if aspect[1]:
                if Q is None:
                    return False, "eigenvectors are None"
                Qd = dn(Q)
                return close(Qd @ torch.diag_embed(w) @ Qd.mT, A, tol), "Q diag(w) Q^T"
            return (Q is None) and close(torch.sort(w, dim=-1)[0], torch.linalg.eigvalsh(sym(A)), tol), "evals"
        if k == "evals":
            if not torch.is_tensor(ans):
                return False, "not a tensor (%s)" % type(ans).__name__
            return close(torch.sort(ans, dim=-1)[0], torch.linalg.eigvalsh(sym(A)), tol), "evals"
        if k == "svd":
            U, S, V = ans
            return close(dn(U) @ torch.diag_embed(S) @ dn(V).mT, A, tol), "U S V^T"
        if k == "solve":
            rhs = ctx["rhs"]
            return close(A @ ans, rhs.expand_as(ans) if rhs.dim() == ans.dim() else rhs, tol * max(1.0, float(A.abs().max()))), "A x vs b"
        if k == "solve_vec":
            rhs = ctx["rhs"]
            return (ans.shape == rhs.shape and close(A @ ans, rhs, tol * max(1.0, float(A.abs().max())))), "A x vs b (vector)"
        if k == "solve_left":
            ref = ctx["left"] @ torch.linalg.solve(A, ctx["rhs"])
            return close(ans, ref, tol), "left A^-1 b"
        if k == "matmul":
            return close(dn(ans), A @ ctx["rhs"], tol), "A b"
        if k == "inverse":
            n_ = A.shape[-1]
            return close(dn(ans) @ A, torch.eye(n_, dtype=A.dtype).expand_as(A),
                         tol * max(1.0, float(torch.linalg.cond(A).max()))), "A^-1 A vs I"
        if k == "root_inverse":
            R = ctx["root"]
            n_ = R.shape[-1]
            return close(dn(ans) @ R, torch.eye(n_, dtype=R.dtype).expand_as(R),
                         tol * max(1.0, float(torch.linalg.cond(R).max()))), "root^-1 root vs I"
        if k == "iqld":
            rhs = ctx["rhs"]
            iq, ld = ans
            sol = torch.linalg.solve(A, rhs)
            iq_t = (rhs * sol).sum(dim=(-2, -1))
            ok = close(iq, iq_t, tol)
            if aspect[2]:
                ok = ok and close(ld, torch.logdet(A), ctx.get("ld_tol", tol))
            return ok, "inv_quad / logdet"
        if k == "logdet":
            return close(ans, torch.logdet(A), ctx.get("ld_tol", tol)), "logdet"
        if k == "diagonal":
            return close(ans, torch.diagonal(A, dim1=-2, dim2=-1), tol), "diagonal"
        if k == "precond":
            f, P, ld = ans
            if f is None and P is None and ld is None:
                return True, "none"
            if f is None or P is None or ld is None:
                return False, "partially None"
            Pd = dn(P)
            x = ctx["rhs"]
            ok = close(Pd @ f(x), x, max(tol, 1e-7) * max(1.0, float(Pd.abs().max())))
            if not (ok and close(ld, torch.logdet(Pd), max(tol, 1e-7))):
                return False, "P closure / logdet"
            D = ctx.get("diag")
            if D is not None:
                # the preconditioner of THIS operator: P = L L^T + D with D this operator's diagonal part and
                # L L^T a pivoted-Cholesky under-approximation of K = A - D   (0 <= L L^T <= K)
                sc = tol * max(1.0, float(A.abs().max()))
                e1 = torch.linalg.eigvalsh(sym(Pd - D))
                e2 = torch.linalg.eigvalsh(sym(A - Pd))
                if float(e1.min()) < -sc:
                    return False, "P - D is not positive semi-definite: not a preconditioner of this operator's diagonal"
                if float(e2.min()) < -sc:
                    return False, "A - P is not positive semi-definite: not a pivoted-Cholesky preconditioner of this matrix"
                # k pivots leave a residual of rank <= n - k
                if int(((e1 > sc).sum(-1) + (e2 > sc).sum(-1)).max()) > A.shape[-1]:
                    return False, "rank(P - D) + rank(A - P) > n: not a pivoted-Cholesky preconditioner of this matrix"
            return True, "P closure / logdet / ownership"
        if k == "sample":
            Z = ctx["noise"]          # (*batch, kdim, num_samples) as the library draws it
            S = ans                   # (num_samples, *batch, n)
            St = S.permute(*range(1, S.dim()), 0)          # (*batch, n, num_samples)
            if Z is None or Z.shape[-2] != Z.shape[-1]:
                return True, "noise not invertible: not checked"
            R = St @ torch.linalg.inv(Z)
            return close(R @ R.mT, A, tol), "R R^T from samples"
    except Exception as ex:  # an answer of the wrong shape/type is an invalid answer
        return False, "oracle exception %s: %s" % (type(ex).__name__, str(ex)[:80])
    raise ValueError(aspect)


def aspects_of_key(ck):
    """mirror of Model.aspects_of_key on converted keys"""
    if ck[0] == "name":
        nm = ck[1]
        if nm == ["str", "cholesky"]:
            return [("chol", False), ("chol", True)]
        return []
    _, nm, args, kw = ck
    if nm[0] == "str":
        s = nm[1]
        if s == "cholesky":
            up = None
            if len(args) == 1 and not kw:
                up = args[0]
            elif not args and len(kw) == 1 and kw[0][0] == "upper":
                up = kw[0][1]
            elif not args and not kw:
                up = ["none"]
            if up is None:
                return []
            t = {"none": False, "bool": None}.get(up[0], True)
            if up[0] == "bool":
                t = bool(up[1])
            return [("chol", t)]
        if s == "symeig":
            # (evals, evecs) for eigenvectors=True, (evals, None) otherwise (_symeig's default)
            vecs = [truthy(v_) for k_, v_ in kw if k_ == "eigenvectors"] or ([truthy(args[0])] if args else [False])
            return [("eig", bool(vecs[0]))]
        return {"root_decomposition": [("root",)], "root_inv_decomposition": [("rootinv",)],
                "diagonalization": [("eig", True)], "svd": [("svd",)], "inverse": [("inverse",)]}.get(s, [])
    if nm[1].endswith("to_dense"):
        return [("dense",)]
    if nm[1].endswith(".inverse"):
        return [("inverse",)]
    return []


# ------------------------------------------------------------------------------------------ the world

class World:
    """a heap of real operator objects + the dense matrix each denotes (computed independently)"""

    def __init__(self, root_expr):
        self.O = LO()
        self.objs, self.ids, self.dense, self.tensors = [], {}, [], []
        self._entry_memo, self._keep = {}, []
        self.settings = SettingsStack()
        self.opaque = False
        self.root_expr = root_expr
        probes()        # while the settings are at their defaults
        op = opbuild.build(root_expr, DT)
        self.root = self.register(op, opbuild.dense(root_expr, DT), expr=root_expr)

    # ---- heap
    def register(self, op, A, expr=None):
        """add op and its not-yet-known reachable children (children first); returns op's id"""
        new = []

        def rec(x, top):
            if id(x) in self.ids:
                return
            for c in children(x):
                rec(c, False)
            self.ids[id(x)] = len(self.objs)
            self.objs.append(x)
            self.dense.append(None)
            new.append(len(self.objs) - 1)
        rec(op, True)
        i = self.ids[id(op)]
        self.dense[i] = A
        # children's matrices: densified by plain means only where a profile needs them (never for validity of
        # a queried object: only event objects are queried and their matrices are given by the caller)
        self.last_new = new
        return i

    def profiles(self, idxs):
        out = []
        for i in idxs:
            p = profile_of(self.objs[i], self.ids)
            if p is None:
                self.opaque = True
                p = {"cls": type(self.objs[i]).__name__, "opaque": True}
            op = self.objs[i]
            p["n"] = int(op.shape[-1])
            p["square"] = bool(op.shape[-1] == op.shape[-2])
            out.append(p)
        return out

    def keys(self):
        out = []
        for op in self.objs:
            d = getattr(op, "_memoize_cache", None) or {}
            out.append([conv_key(k, self.tensors) for k in d.keys() if not ignored_key(k)])
        return out

    def bad_entries(self, only=None, tol=1e-6):
        """(object, position) of cache entries that are not valid for the object's matrix (event objects only:
        those whose dense matrix is known independently)"""
        bad = []
        for i, op in enumerate(self.objs):
            if self.dense[i] is None:
                continue
            d = getattr(op, "_memoize_cache", None) or {}
            for pos, (k, v) in enumerate((k_, v_) for k_, v_ in d.items() if not ignored_key(k_)):
                memo_key = (i, k if not isinstance(k, tuple) else (id(k[0]) if not isinstance(k[0], str) else k[0], k[2]), id(v),
                            versions(v))
                hit = self._entry_memo.get(memo_key)
                if hit is None:
                    hit = (True, "")
                    for a in aspects_of_key(conv_key(k, self.tensors)):
                        ok, why = valid(a, self.dense[i], v, self.entry_tol(k, tol))
                        if not ok:
                            hit = (False, why)
                            break
                    self._entry_memo[memo_key] = hit
                    self._keep.append(v)        # keep the value alive: id() must stay unique
                if not hit[0]:
                    bad.append((i, pos, hit[1]))
            # the out-of-dict preconditioner cache is part of the object's cached state as well
            qc = getattr(op, "_q_cache", None)
            if qc is not None:
                memo_key = (i, "adhoc", id(qc), id(getattr(op, "_precond_lt", None)))
                hit = self._entry_memo.get(memo_key)
                if hit is None:
                    try:
                        ans = adhoc_precond(op)
                        n = int(op.shape[-1])
                        hit = (True, "") if ans is None else valid(
                            ("precond",), self.dense[i], ans, tol,
                            {"rhs": arg_tensor("rhs", 0, n, self.batch(i)), "diag": diag_part(op)})
                    except Exception as ex:
                        hit = (False, "cached preconditioner unusable: %s: %s" % (type(ex).__name__, str(ex)[:80]))
                    self._entry_memo[memo_key] = hit
                    self._keep.append(qc)
                if not hit[0]:
                    bad.append((i, ADHOC_POS, "preconditioner cache: " + hit[1]))
            if hasattr(op, "_sparse_left_interp_t_memo") or hasattr(op, "_sparse_right_interp_t_memo"):
                try:
                    ok, why = interp_memo_ok(op)
                except Exception as ex:
                    ok, why = False, "interpolation memo unusable: %s" % type(ex).__name__
                if not ok:
                    bad.append((i, INTERP_POS, why))
            unk = unknown_cache_attrs(op)
            if unk:
                bad.append((i, UNKNOWN_POS, "unmodelled per-object cache attribute(s): %s" % ", ".join(unk)))
        return bad

    def entry_tol(self, k, tol):
        return tol

    # ---- events
    def batch(self, i):
        return tuple(self.objs[i].shape[:-2])

    def do_query(self, i, q, seed=0):
        """returns (raised?, answer or exception, ctx)"""
        op = self.objs[i]
        n = int(op.shape[-1])
        ctx = {}
        kind = q[0]

        def call(m, a, kw):
            args = [self.py(v) for v in a]
            kwargs = {k: self.py(v) for k, v in kw}
            return getattr(op, m)(*args, **kwargs)
        torch.manual_seed(12345 + seed)
        try:
            if kind == "to_dense":
                r = op.to_dense()
            elif kind in ("cholesky", "root_decomposition", "root_inv_decomposition", "diagonalization"):
                r = call(kind, q[1], q[2])
            elif kind == "svd":
                r = op.svd()
            elif kind == "eigh":
                r = op.eigh()
            elif kind == "eigvalsh":
                r = op.eigvalsh()
            elif kind == "solve":
                ctx["rhs"] = arg_tensor("rhs", q[1], n, self.batch(i))
                r = op.solve(ctx["rhs"])
            elif kind == "solve_vec":
                ctx["rhs"] = arg_tensor("rhs", 1, n, ())[..., 0]          # 1-D right-hand side
                r = op.solve(ctx["rhs"])
            elif kind == "solve_left":
                ctx["rhs"] = arg_tensor("rhs", q[1], n, self.batch(i))
                ctx["left"] = _det(self.batch(i) + (2, n), 57)
                r = op.solve(ctx["rhs"], ctx["left"])
            elif kind == "linalg_solve":
                ctx["rhs"] = arg_tensor("rhs", q[1], n, self.batch(i))
                r = torch.linalg.solve(op, ctx["rhs"])
            elif kind == "matmul":
                ctx["rhs"] = arg_tensor("rhs", q[1], n, self.batch(i))
                r = op.matmul(ctx["rhs"])
            elif kind == "inverse":
                r = op.inverse()
            elif kind == "root_inverse":
                ctx["root"] = dn(op.root)
                r = op.root.inverse()
            elif kind == "logdet":
                r = op.logdet()
            elif kind == "inv_quad_logdet":
                ctx["rhs"] = arg_tensor("rhs", q[1], n, self.batch(i))
                r = op.inv_quad_logdet(ctx["rhs"], logdet=q[2])
            elif kind == "diagonal":
                r = op.diagonal()
            elif kind == "precond":
                ctx["rhs"] = arg_tensor("rhs", 0, n, self.batch(i))
                ctx["diag"] = diag_part(op)
                r = op._preconditioner()
            elif kind == "sample":
                # the base samples are read back: torch.randn is wrapped in THIS process for the duration of the call
                ctx["noise"] = None
                drawn = []
                orig = torch.randn

                def spy(*a, **k):
                    t = orig(*a, **k)
                    drawn.append(t)
                    return t
                torch.randn = spy
                try:
                    r = op.zero_mean_mvn_samples(n)
                finally:
                    torch.randn = orig
                cands = [t for t in drawn if t.dim() >= 2 and t.shape[-1] == n and tuple(t.shape[:-2]) == self.batch(i)]
                ctx["noise"] = cands[-1] if cands else None
            else:
                raise ValueError(q)
            return False, r, ctx
        except Exception as ex:
            return True, ex, ctx

    def py(self, v):
        if v[0] == "none":
            return None
        if v[0] in ("bool", "str", "int"):
            return v[1]
        raise ValueError(v)

    def derive_dense(self, i, d):
        A = self.dense[i]
        n = A.shape[-1]
        b = tuple(A.shape[:-2])
        k = d[0]
        if k == "add_jitter":
            return A + arg_tensor("jitter", d[1], n) * torch.eye(n, dtype=DT)
        if k == "add_diagonal":
            return A + torch.diag_embed(arg_tensor("diag", d[1], n))
        if k == "add_low_rank":
            B = arg_tensor("lowrank", d[1], n, b)
            return A + B @ B.mT
        if k == "cat_rows":
            B = arg_tensor("cross", d[1], n, b)
            D = arg_tensor("newmat", d[2], n, b)
            return torch.cat([torch.cat([A, B.mT], -1), torch.cat([B, D], -1)], -2)
        if k == "getitem":
            s = index_of(d[1], n)
            return A[..., s, s]
        if k == "transpose":
            return A.mT
        if k == "scale":
            return A * arg_tensor("scale", d[1], n)
        if k == "expand":
            return A.expand(2, *A.shape[-2:]) if A.dim() == 2 else A.expand(*A.shape)
        if k == "add_diag_op":
            return A + torch.diag_embed(arg_tensor("diag", d[1], n))
        if k in ("clone", "detach", "rebuild"):
            return A
        if k == "repeat":
            return A.repeat(2, *([1] * A.dim())) if A.dim() == 2 else A.repeat(2, *([1] * (A.dim() - 1)))
        if k == "sibling":
            D = diag_part(self.objs[i])
            return A if D is None else A + D          # the diagonal part doubled, everything else SHARED
        if k == "batch_index":
            if A.dim() < 3:
                raise ValueError("batch_index on an operator without batch dimensions")
            bsz = A.shape[0]
            perm = torch.tensor([(j + 1) % bsz for j in range(bsz)])
            s1, s2 = slice(1, n), slice(0, n - 1)
            return [A[perm], A[perm][..., s1, s1], A[1:2][..., s2, s2], A[bsz - 1]][d[1] % 4]
        raise ValueError(d)

    def do_derive(self, i, d, seed=0):
        op = self.objs[i]
        n = int(op.shape[-1])
        b = self.batch(i)
        k = d[0]
        torch.manual_seed(12345 + seed)
        self.last_roots = None
        spy = None
        if k in ("add_low_rank", "cat_rows"):
            spy = RootSpy(op)
        try:
            if k == "add_jitter":
                r = op.add_jitter(arg_tensor("jitter", d[1], n))
            elif k == "add_diagonal":
                r = op.add_diagonal(arg_tensor("diag", d[1], n))
            elif k == "add_low_rank":
                kw = {}
                if d[2] != ["none"]:
                    kw["root_decomp_method"] = self.py(d[2])
                if d[3] != ["none"]:
                    kw["root_inv_decomp_method"] = self.py(d[3])
                r = op.add_low_rank(arg_tensor("lowrank", d[1], n, b), generate_roots=d[4], **kw)
            elif k == "cat_rows":
                r = op.cat_rows(arg_tensor("cross", d[1], n, b), arg_tensor("newmat", d[2], n, b),
                                generate_roots=d[3], generate_inv_roots=d[4])
            elif k == "getitem":
                s = index_of(d[1], n)
                r = op[..., s, s]
            elif k == "transpose":
                r = op.mT
            elif k == "scale":
                r = op * arg_tensor("scale", d[1], n)
            elif k == "expand":
                r = op.expand(2, n, n) if not b else op.expand(*op.shape)
            elif k == "add_diag_op":
                r = op + self.O.DiagLinearOperator(arg_tensor("diag", d[1], n))
            elif k == "clone":
                r = op.clone()
            elif k == "detach":
                r = op.detach()
            elif k == "rebuild":
                r = op.representation_tree()(*op.representation())
            elif k == "repeat":
                r = op.repeat(2, 1, 1) if not b else op.repeat(2, *([1] * (len(b) + 1)))
            elif k == "sibling":
                # a second operator of the same class built by the caller around the SAME child operator objects; a
                # diagonal part, if the class has one, is replaced by its double
                dt = getattr(op, "_diag_tensor", None)
                args = [(a * 2.0 if (a is dt and dt is not None) else a) for a in op._args]
                r = type(op)(*args, **op._kwargs)
            elif k == "batch_index":
                if not b:
                    raise ValueError("batch_index on an operator without batch dimensions")
                bsz = b[0]
                perm = torch.tensor([(j + 1) % bsz for j in range(bsz)])
                s1, s2 = slice(1, n), slice(0, n - 1)
                r = [lambda: op[perm], lambda: op[perm, s1, s1] if len(b) == 1 else op[(perm,) + (slice(None),) * (len(b) - 1) + (s1, s1)],
                     lambda: op[(slice(1, 2),) + (slice(None),) * (len(b) - 1) + (s2, s2)], lambda: op[bsz - 1]][d[1] % 4]()
            else:
                raise ValueError(d)
        except Exception as ex:
            return True, ex, None
        finally:
            if spy is not None:
                self.last_roots = spy.close()
        if not isinstance(r, self.O.LinearOperator):
            r = self.O.to_linear_operator(r)
        j = self.register(r, self.derive_dense(i, d))
        return False, j, list(self.last_new)

    def note_precond_state(self, cur):
        """remember under which settings each object's out-of-dict preconditioner cache came into being (the cache
        is part of the object's state; a stochastic answer is compared with a fresh object in the SAME state)"""
        env = self.__dict__.setdefault("precond_env", {})
        for i, op in enumerate(self.objs):
            if i not in env and getattr(op, "_q_cache", None) is not None:
                env[i] = dict(cur)

    def seed_symeig(self, i):
        from linear_operator.utils.memoize import add_to_cache
        op = self.objs[i]
        try:
            add_to_cache(op, "symeig", op._symeig(eigenvectors=True), eigenvectors=True)
            return False
        except Exception:
            return True

    def clear(self, i):
        from linear_operator.utils.memoize import clear_cache_hook
        clear_cache_hook(self.objs[i])

    def close(self):
        self.settings.clear()


class RootSpy:
    """records what self.root_decomposition(...) / self.root_inv_decomposition(...) return to a derivation
    (add_low_rank / cat_rows) - by wrapping the two methods on the object's class in THIS process for the
    duration of the call (no repository hook)"""

    def __init__(self, op):
        self.op, self.cls = op, type(op)
        self.got = {}
        self.saved = {}
        for nm in ("root_decomposition", "root_inv_decomposition"):
            self.saved[nm] = self.cls.__dict__.get(nm, None)
            orig = getattr(self.cls, nm)

            def wrap(self_, *a, _orig=orig, _nm=nm, **k):
                r = _orig(self_, *a, **k)
                if self_ is self.op and _nm not in self.got:
                    self.got[_nm] = r
                return r
            setattr(self.cls, nm, wrap)

    def close(self):
        for nm, sv in self.saved.items():
            if sv is None:
                delattr(self.cls, nm)
            else:
                setattr(self.cls, nm, sv)
        return self.got.get("root_decomposition"), self.got.get("root_inv_decomposition")


def query_aspect(q):
    k = q[0]
    if k == "to_dense":
        return ("dense",)
    if k == "cholesky":
        up = False
        if q[1]:
            up = truthy(q[1][0])
        for kk, vv in q[2]:
            if kk == "upper":
                up = truthy(vv)
        return ("chol", up)
    return {"root_decomposition": ("root",), "root_inv_decomposition": ("rootinv",), "diagonalization": ("eig", True),
            "svd": ("svd",), "eigh": ("eig", True), "eigvalsh": ("evals",), "solve": ("solve",), "logdet": ("logdet",),
            "diagonal": ("diagonal",), "precond": ("precond",), "sample": ("sample",), "solve_vec": ("solve_vec",),
            "solve_left": ("solve_left",), "linalg_solve": ("solve",), "matmul": ("matmul",), "inverse": ("inverse",),
            "root_inverse": ("root_inverse",)}.get(k) or ("iqld", q[1], q[2])


def truthy(v):
    if v[0] == "none":
        return False
    if v[0] == "bool":
        return bool(v[1])
    if v[0] == "str":
        return v[1] != ""
    if v[0] == "int":
        return v[1] != 0
    return True
